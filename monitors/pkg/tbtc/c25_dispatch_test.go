//go:build verif

package tbtc

import (
	"crypto/sha256"
	"encoding/binary"
	"encoding/hex"
	"fmt"
	"math"
	"math/big"
	"math/rand"
	"runtime"
	"sort"
	"strings"
	"sync"
	"sync/atomic"
	"testing"
	"time"

	"github.com/anishathalye/porcupine"
	golog "github.com/ipfs/go-log/v2"

	"github.com/keep-network/keep-core/internal/verifkit"
)

// ---------------------------------------------------------------- script

type c25Attempt struct {
	Wallet  int  `json:"w"`
	Err     bool `json:"e,omitempty"` // the action returns an error
	Instant bool `json:"i,omitempty"` // the action's gate is open from the start
}

type c25Round struct {
	Bursts     [][]c25Attempt `json:"b"`  // per dispatcher goroutine
	OpenBefore []int          `json:"ob"` // wallets whose held action is released concurrently with the burst
	After      []int          `json:"a"`  // per wallet, after the burst: 0 keep, 1 release, 2 release+poll until free, 3 release+re-dispatch until accepted
}

type c25Script struct {
	W      int        `json:"W"`
	D      int        `json:"D"`
	Pair   bool       `json:"pair"` // run the cross-wallet gate step first
	Rounds []c25Round `json:"r"`
}

func c25GenScript(rng *rand.Rand) c25Script {
	sc := c25Script{W: 1 + rng.Intn(4), D: 2 + rng.Intn(15)}
	sc.Pair = sc.W >= 2 && rng.Intn(2) == 0
	nr := 2 + rng.Intn(4)
	hot := rng.Intn(sc.W)
	for i := 0; i < nr; i++ {
		rd := c25Round{}
		for d := 0; d < sc.D; d++ {
			k := rng.Intn(4)
			var b []c25Attempt
			for j := 0; j < k; j++ {
				a := c25Attempt{Wallet: hot, Err: rng.Intn(4) == 0, Instant: rng.Intn(10) < 3}
				if rng.Intn(10) < 4 {
					a.Wallet = rng.Intn(sc.W)
				}
				b = append(b, a)
			}
			rd.Bursts = append(rd.Bursts, b)
		}
		for w := 0; w < sc.W; w++ {
			if rng.Intn(10) < 3 {
				rd.OpenBefore = append(rd.OpenBefore, w)
			}
			x := rng.Intn(10)
			switch {
			case x < 4:
				rd.After = append(rd.After, 0)
			case x < 6:
				rd.After = append(rd.After, 1)
			case x < 8:
				rd.After = append(rd.After, 2)
			default:
				rd.After = append(rd.After, 3)
			}
		}
		sc.Rounds = append(sc.Rounds, rd)
	}
	return sc
}

func (sc c25Script) desc() string {
	var sb strings.Builder
	fmt.Fprintf(&sb, "W=%d D=%d pair=%v", sc.W, sc.D, sc.Pair)
	for i, rd := range sc.Rounds {
		fmt.Fprintf(&sb, " | r%d ob=%v after=%v:", i, rd.OpenBefore, rd.After)
		for d, b := range rd.Bursts {
			if len(b) == 0 {
				continue
			}
			fmt.Fprintf(&sb, " d%d[", d)
			for _, a := range b {
				fmt.Fprintf(&sb, "%d", a.Wallet)
				if a.Err {
					sb.WriteByte('e')
				}
				if a.Instant {
					sb.WriteByte('i')
				}
				sb.WriteByte(' ')
			}
			sb.WriteByte(']')
		}
	}
	return sb.String()
}

// ---------------------------------------------------------------- stub action

type c25Action struct {
	s       *c25Scenario
	id      int
	widx    int
	w       wallet
	fail    bool
	instant bool
	gate    chan struct{} // execute returns after this is closed
	done    chan struct{} // closed by execute just before it returns
	onBegin func()
	// written by the executing goroutine only, read after <-done
	begin, end int64
	execs      int32 // atomic: number of execute() invocations
	gateOnce   sync.Once
}

func (a *c25Action) open() { a.gateOnce.Do(func() { close(a.gate) }) }

func (a *c25Action) execute() error {
	n := atomic.AddInt32(&a.execs, 1)
	if n > 1 {
		// a second invocation of one action object: keep the first interval
		<-a.gate
		if a.fail {
			return fmt.Errorf("scripted action error")
		}
		return nil
	}
	a.begin = a.s.stamp()
	if a.onBegin != nil {
		a.onBegin()
	}
	<-a.gate
	a.end = a.s.stamp()
	close(a.done)
	if a.fail {
		return fmt.Errorf("scripted action error")
	}
	return nil
}

func (a *c25Action) wallet() wallet               { return a.w }
func (a *c25Action) actionType() WalletActionType { return ActionNoop }

// ---------------------------------------------------------------- scenario

type c25Op struct {
	a         *c25Action
	call, ret int64
	busy      bool
	other     string // an error other than errWalletBusy
	round     int
	disp      int
}

type c25Free struct {
	widx      int
	call, ret int64
}

const (
	c25Free0   = 0 // observed free (or never used)
	c25Held    = 1 // an accepted action with a closed gate
	c25Unknown = 2 // accepted actions with open gates, release not confirmed
)

type c25WState struct {
	status  int
	holder  *c25Action
	pending []*c25Action // accepted, gate open, end not yet awaited
}

type c25Scenario struct {
	r       *verifkit.Run
	desc    string
	stamped bool
	seq     int64
	wd      *walletDispatcher
	wallets []wallet
	keys    []string
	ops     [][]c25Op // one slot per dispatcher goroutine + one for the controller
	actions []*c25Action
	frees   []c25Free
	state   []c25WState
	nextID  int

	nontrivial   bool
	aborted      bool
	inconclusive string
}

const c25Watchdog = 30 * time.Second

func (s *c25Scenario) stamp() int64 {
	if !s.stamped {
		return 0
	}
	return atomic.AddInt64(&s.seq, 1)
}

func (s *c25Scenario) newAction(widx int, fail, instant bool) *c25Action {
	s.nextID++
	a := &c25Action{s: s, id: s.nextID, widx: widx, w: s.wallets[widx], fail: fail, instant: instant,
		gate: make(chan struct{}), done: make(chan struct{})}
	if instant {
		a.open()
	}
	s.actions = append(s.actions, a)
	return a
}

// dispatchOne performs one stamped dispatch and returns the record.
func (s *c25Scenario) dispatchOne(a *c25Action, round, disp int) c25Op {
	op := c25Op{a: a, round: round, disp: disp}
	var err error
	op.call = s.stamp()
	s.r.Guard("dispatch:", s.desc, func() { err = s.wd.dispatch(a) })
	op.ret = s.stamp()
	if err == errWalletBusy {
		op.busy = true
	} else if err != nil {
		op.other = err.Error()
	}
	return op
}

func c25WaitCh(ch <-chan struct{}, d time.Duration) bool {
	select {
	case <-ch:
		return true
	default:
	}
	t := time.NewTimer(d)
	defer t.Stop()
	select {
	case <-ch:
		return true
	case <-t.C:
		return false
	}
}

func (s *c25Scenario) openAll() {
	for _, a := range s.actions {
		a.open()
	}
}

// c25Stalled is set once a deadlock-by-construction watchdog has fired: the
// remaining scenarios of the run would each wait for the same watchdog.
var c25Stalled int32
var c25SlowViolations int32

func (s *c25Scenario) abort(fp, what string, wit interface{}) {
	s.r.Violation(fp, what, s.desc, wit)
	s.aborted = true
	if fp == "dispatch:blocked" || fp == "wallets:blocked-by-other-wallet" {
		atomic.StoreInt32(&c25Stalled, 1)
	}
	if fp == "release:wallet-stays-busy" && atomic.AddInt32(&c25SlowViolations, 1) >= 3 {
		// each further occurrence costs >= 3 s and adds nothing
		atomic.StoreInt32(&c25Stalled, 1)
	}
	s.openAll()
}

// awaitPending waits for the end of every accepted action of the wallet whose
// gate is open. Expiry of this wait is a scheduling matter only: inconclusive.
func (s *c25Scenario) awaitPending(w int) bool {
	st := &s.state[w]
	for _, a := range st.pending {
		if !c25WaitCh(a.done, c25Watchdog) {
			s.inconclusive = fmt.Sprintf("accepted action %d of wallet %d did not finish within %v after its gate was opened", a.id, w, c25Watchdog)
			s.aborted = true
			s.openAll()
			return false
		}
	}
	st.pending = nil
	return true
}

func (s *c25Scenario) isBusy(w int) bool {
	s.wd.actionsMutex.Lock()
	_, busy := s.wd.actions[s.keys[w]]
	s.wd.actionsMutex.Unlock()
	return busy
}

// pollFree: every accepted action of the wallet has returned from execute;
// the wallet must become available. Bounded progress: still busy after 1e5
// looks spanning >= 3 s is a violation.
func (s *c25Scenario) pollFree(w int) bool {
	if !s.awaitPending(w) {
		return false
	}
	t0 := time.Now()
	for n := 0; ; n++ {
		c := s.stamp()
		busy := s.isBusy(w)
		rt := s.stamp()
		if !busy {
			s.frees = append(s.frees, c25Free{w, c, rt})
			s.state[w] = c25WState{status: c25Free0}
			return true
		}
		if n >= 100000 && time.Since(t0) >= 3*time.Second {
			s.abort("release:wallet-stays-busy",
				fmt.Sprintf("wallet %d is still marked busy after %d looks over %v although every accepted action of it has returned from execute", w, n, time.Since(t0)),
				map[string]interface{}{"wallet": w})
			return false
		}
		runtime.Gosched()
	}
}

// probe: like pollFree but black-box — re-dispatch until accepted.
func (s *c25Scenario) probe(w int, fail bool, round int) bool {
	if !s.awaitPending(w) {
		return false
	}
	a := s.newAction(w, fail, false)
	slot := len(s.ops) - 1
	t0 := time.Now()
	for n := 0; ; n++ {
		op := s.dispatchOne(a, round, -1)
		if op.other != "" {
			s.abort("dispatch:unexpected-error", op.other, nil)
			return false
		}
		if !op.busy {
			s.ops[slot] = append(s.ops[slot], op)
			s.state[w] = c25WState{status: c25Held, holder: a}
			s.r.Count("redispatch_refusals_before_release", int64(n))
			return true
		}
		if n < 3 {
			s.ops[slot] = append(s.ops[slot], op)
		}
		if n >= 100000 && time.Since(t0) >= 3*time.Second {
			s.abort("release:wallet-stays-busy",
				fmt.Sprintf("re-dispatch for wallet %d still refused after %d attempts over %v although every accepted action of it has returned from execute", w, n, time.Since(t0)),
				map[string]interface{}{"wallet": w})
			return false
		}
		runtime.Gosched()
	}
}

// pairStep: wallet x's action is held on a gate that only wallet y's action
// opens when it begins executing. If dispatching serialised the wallets (or ran
// the action inside dispatch) nothing could ever open the gate: the harness
// deadlocks by construction and the watchdog is a violation.
func (s *c25Scenario) pairStep(x, y int, after int) {
	yBegan := make(chan struct{})
	ax := s.newAction(x, false, false)
	ay := s.newAction(y, false, true)
	ay.onBegin = func() { close(yBegan) }
	slot := len(s.ops) - 1
	finished := make(chan struct{})
	var opx, opy c25Op
	go func() {
		defer close(finished)
		opx = s.dispatchOne(ax, -1, -1)
		opy = s.dispatchOne(ay, -1, -1)
		<-yBegan
		ax.open()
		<-ax.done
		<-ay.done
	}()
	if !c25WaitCh(finished, c25Watchdog) {
		s.abort("wallets:blocked-by-other-wallet",
			fmt.Sprintf("wallet %d's action can only finish after wallet %d's action has begun; %v later this has not happened (dispatch does not return, or wallet %d's action was never started)", x, y, c25Watchdog, y),
			map[string]interface{}{"x": x, "y": y})
		return
	}
	s.ops[slot] = append(s.ops[slot], opx, opy)
	for _, op := range []c25Op{opx, opy} {
		if op.busy || op.other != "" {
			s.r.Violation("refusal:wallet-free", fmt.Sprintf("dispatch for never-used wallet %d refused (%v %s)", op.a.widx, op.busy, op.other), s.desc, nil)
		}
	}
	for _, w := range []int{x, y} {
		s.state[w] = c25WState{status: c25Unknown}
	}
	if after >= 2 {
		if !s.pollFree(x) {
			return
		}
		s.pollFree(y)
	}
}

func (s *c25Scenario) round(ri int, rd c25Round) {
	W := len(s.wallets)
	opened := make([]bool, W)
	var openBefore []*c25Action
	for _, w := range rd.OpenBefore {
		if s.state[w].status == c25Held {
			openBefore = append(openBefore, s.state[w].holder)
			opened[w] = true
		}
	}
	attempts := make([]int, W)
	bursts := make([][]*c25Action, len(rd.Bursts))
	for d, b := range rd.Bursts {
		for _, at := range b {
			bursts[d] = append(bursts[d], s.newAction(at.Wallet, at.Err, at.Instant))
			attempts[at.Wallet]++
		}
	}
	for w := 0; w < W; w++ {
		if s.state[w].status == c25Held && !opened[w] && attempts[w] >= 2 {
			s.nontrivial = true
		}
	}
	start := make(chan struct{})
	var wg sync.WaitGroup
	for d := range bursts {
		if len(bursts[d]) == 0 {
			continue
		}
		wg.Add(1)
		go func(d int) {
			defer wg.Done()
			<-start
			for _, a := range bursts[d] {
				s.ops[d] = append(s.ops[d], s.dispatchOne(a, ri, d))
			}
		}(d)
	}
	if len(openBefore) > 0 {
		wg.Add(1)
		go func() {
			defer wg.Done()
			<-start
			for _, h := range openBefore {
				h.open()
			}
		}()
	}
	close(start)
	allBack := make(chan struct{})
	go func() { wg.Wait(); close(allBack) }()
	if !c25WaitCh(allBack, c25Watchdog) {
		// Held gates are opened by the controller only after every dispatcher
		// has returned, so a dispatch that waits for a busy wallet (instead of
		// refusing) can never return: deadlock by construction.
		s.abort("dispatch:blocked", fmt.Sprintf("dispatch calls of round %d have not returned after %v while the actions they could wait for are held until they return", ri, c25Watchdog), nil)
		return
	}

	// ---- stamp-free checks from the controller's knowledge
	accepted := make([][]*c25Action, W)
	for d := range bursts {
		n := len(bursts[d])
		for _, op := range s.ops[d][len(s.ops[d])-n:] {
			if op.other != "" {
				s.r.Violation("dispatch:unexpected-error", op.other, s.desc, nil)
				continue
			}
			if !op.busy {
				accepted[op.a.widx] = append(accepted[op.a.widx], op.a)
			}
		}
	}
	for w := 0; w < W; w++ {
		st := &s.state[w]
		var held []*c25Action
		for _, a := range accepted[w] {
			if !a.instant {
				held = append(held, a)
			}
		}
		if st.status == c25Held && !opened[w] && len(accepted[w]) > 0 {
			s.r.Violation("exclusion:accepted-while-busy",
				fmt.Sprintf("round %d: %d dispatch(es) for wallet %d accepted although its action %d is executing (gate closed during the whole round)", ri, len(accepted[w]), w, st.holder.id),
				s.desc, nil)
		}
		if len(held) > 1 {
			s.r.Violation("exclusion:accepted-while-busy",
				fmt.Sprintf("round %d: %d gated actions of wallet %d accepted in one round; none of them can have ended", ri, len(held), w),
				s.desc, nil)
		}
		if st.status == c25Free0 && attempts[w] > 0 && len(accepted[w]) == 0 {
			s.r.Violation("refusal:wallet-free",
				fmt.Sprintf("round %d: all %d dispatches for wallet %d refused although the wallet was observed free before the round and nothing was accepted since", ri, attempts[w], w),
				s.desc, nil)
		}
		// next controller state
		for _, a := range accepted[w] {
			if a.instant {
				st.pending = append(st.pending, a)
			}
		}
		switch {
		case len(held) > 0:
			if st.status == c25Held && st.holder != nil {
				st.holder.open() // opened before the round, or the violation is already reported
				st.pending = append(st.pending, st.holder)
			}
			for _, extra := range held[1:] {
				extra.open()
				st.pending = append(st.pending, extra)
			}
			st.status, st.holder = c25Held, held[0]
		case st.status == c25Held && opened[w]:
			st.pending = append(st.pending, st.holder)
			st.status, st.holder = c25Unknown, nil
		case st.status == c25Held:
			// unchanged
		case len(accepted[w]) > 0:
			st.status = c25Unknown
		}
	}

	// ---- releases after the burst
	for w := 0; w < W && !s.aborted; w++ {
		mode := rd.After[w]
		if mode == 0 {
			continue
		}
		st := &s.state[w]
		if st.status == c25Held {
			st.holder.open()
			st.pending = append(st.pending, st.holder)
			st.status, st.holder = c25Unknown, nil
		}
		if st.status != c25Unknown {
			continue
		}
		switch mode {
		case 2:
			s.pollFree(w)
		case 3:
			s.probe(w, ri%2 == 1, ri)
		}
	}
}

func (s *c25Scenario) finish() {
	s.openAll()
	for _, a := range s.actions {
		if atomic.LoadInt32(&a.execs) == 0 {
			continue
		}
		if !c25WaitCh(a.done, c25Watchdog) {
			s.inconclusive = "an executing action did not finish after all gates were opened"
			return
		}
	}
	// every accepted action must have been started; wait for that (scheduling only)
	for _, slot := range s.ops {
		for _, op := range slot {
			if !op.busy && op.other == "" {
				if !c25WaitCh(op.a.done, c25Watchdog) {
					s.inconclusive = fmt.Sprintf("accepted action %d was not executed within %v", op.a.id, c25Watchdog)
					return
				}
			}
		}
	}
	t0 := time.Now()
	for n := 0; ; n++ {
		s.wd.actionsMutex.Lock()
		left := len(s.wd.actions)
		s.wd.actionsMutex.Unlock()
		if left == 0 {
			return
		}
		if n >= 100000 && time.Since(t0) >= 3*time.Second {
			// The release is the deferred part of the dispatcher's action
			// goroutine. As long as such a goroutine is alive anywhere in the
			// process the release may simply not have been scheduled yet
			// (loaded machine): only when none is left is a wallet that is
			// still marked busy certainly leaked.
			if c25ActionGoroutines() > 0 {
				if time.Since(t0) >= 90*time.Second {
					s.inconclusive = fmt.Sprintf("%d wallet(s) still marked busy after 90 s while dispatcher action goroutines are still alive", left)
					return
				}
				time.Sleep(2 * time.Millisecond)
				continue
			}
			s.wd.actionsMutex.Lock()
			left = len(s.wd.actions)
			s.wd.actionsMutex.Unlock()
			if left == 0 {
				return
			}
			s.r.Violation("quiescence:actions-not-empty",
				fmt.Sprintf("%d wallet(s) still marked busy at quiescence (every action has returned from execute and no dispatcher action goroutine is alive)", left), s.desc, nil)
			if atomic.AddInt32(&c25SlowViolations, 1) >= 3 {
				atomic.StoreInt32(&c25Stalled, 1)
			}
			return
		}
		runtime.Gosched()
	}
}

// ---------------------------------------------------------------- oracle on the stamped history

type c25PIn struct {
	kind int // 0 dispatch, 1 release, 2 observe-free
	id   int
}

var c25Model = porcupine.Model{
	Init: func() interface{} { return 0 },
	Step: func(state, input, output interface{}) (bool, interface{}) {
		h := state.(int)
		in := input.(c25PIn)
		switch in.kind {
		case 0:
			if output.(bool) {
				return h == 0, in.id
			}
			return h != 0, h
		case 1:
			return h == in.id, 0
		default:
			return h == 0, h
		}
	},
	Equal: func(a, b interface{}) bool { return a.(int) == b.(int) },
}

func (s *c25Scenario) checkHistory() (signature string) {
	final := s.stamp()
	W := len(s.wallets)
	type ev struct {
		at   int64
		what string
	}
	var evs []ev
	for w := 0; w < W; w++ {
		var acc, ref []c25Op
		for _, slot := range s.ops {
			for _, op := range slot {
				if op.a.widx != w || op.other != "" {
					continue
				}
				if op.busy {
					ref = append(ref, op)
					evs = append(evs, ev{op.call, fmt.Sprintf("c%d", w)}, ev{op.ret, fmt.Sprintf("b%d", w)})
				} else {
					acc = append(acc, op)
					evs = append(evs, ev{op.call, fmt.Sprintf("c%d", w)}, ev{op.ret, fmt.Sprintf("a%d", w)})
				}
			}
		}
		endOf := func(a *c25Action) int64 {
			if a.end == 0 {
				return math.MaxInt64
			}
			return a.end
		}
		// (a) execution intervals are disjoint
		var ex []*c25Action
		for _, a := range s.actions {
			if a.widx == w && a.begin != 0 {
				ex = append(ex, a)
				evs = append(evs, ev{a.begin, fmt.Sprintf("B%d", w)})
				if a.end != 0 {
					evs = append(evs, ev{a.end, fmt.Sprintf("E%d", w)})
				}
			}
		}
		sort.Slice(ex, func(i, j int) bool { return ex[i].begin < ex[j].begin })
		for i := 1; i < len(ex); i++ {
			if ex[i].begin < endOf(ex[i-1]) {
				s.r.Violation("exclusion:overlapping-executions",
					fmt.Sprintf("wallet %d: action %d executes during [%d,%d] and action %d begins at %d", w, ex[i-1].id, ex[i-1].begin, ex[i-1].end, ex[i].id, ex[i].begin),
					s.desc, nil)
				break
			}
		}
		// (a') two accepted dispatches: one action ended before the other dispatch returned
		for i := 0; i < len(acc); i++ {
			for j := i + 1; j < len(acc); j++ {
				A, B := acc[i], acc[j]
				if !(endOf(A.a) < B.ret || endOf(B.a) < A.ret) {
					s.r.Violation("exclusion:accepted-before-previous-action-ended",
						fmt.Sprintf("wallet %d: dispatches of actions %d [call %d ret %d, end %d] and %d [call %d ret %d, end %d] both accepted", w, A.a.id, A.call, A.ret, A.a.end, B.a.id, B.call, B.ret, B.a.end),
						s.desc, nil)
				}
			}
		}
		// (b) every refusal is justified by an accepted action that may still hold the wallet
		for _, R := range ref {
			ok := false
			for _, A := range acc {
				if !(A.call < R.ret) {
					continue
				}
				released := false
				for _, f := range s.frees {
					if f.widx == w && A.ret < f.call && f.ret < R.call {
						released = true
					}
				}
				for _, B := range acc {
					if B.a != A.a && A.ret < B.call && B.ret < R.call {
						released = true
					}
				}
				if !released {
					ok = true
					break
				}
			}
			if !ok {
				s.r.Violation("refusal:unjustified",
					fmt.Sprintf("wallet %d: dispatch of action %d [call %d ret %d] refused but no accepted action can hold the wallet at that time", w, R.a.id, R.call, R.ret),
					s.desc, nil)
			}
		}
		// lock-model linearizability (release anywhere after execute's end)
		var pops []porcupine.Operation
		for _, op := range acc {
			pops = append(pops, porcupine.Operation{ClientId: 0, Input: c25PIn{0, op.a.id}, Call: op.call, Output: true, Return: op.ret})
			if op.a.end != 0 {
				pops = append(pops, porcupine.Operation{ClientId: 0, Input: c25PIn{1, op.a.id}, Call: op.a.end, Output: true, Return: final})
			}
		}
		for _, op := range ref {
			pops = append(pops, porcupine.Operation{ClientId: 0, Input: c25PIn{0, op.a.id}, Call: op.call, Output: false, Return: op.ret})
		}
		for _, f := range s.frees {
			if f.widx == w {
				pops = append(pops, porcupine.Operation{ClientId: 0, Input: c25PIn{2, 0}, Call: f.call, Output: true, Return: f.ret})
				evs = append(evs, ev{f.call, fmt.Sprintf("f%d", w)})
			}
		}
		if len(pops) > 0 {
			switch porcupine.CheckOperationsTimeout(c25Model, pops, 20*time.Second) {
			case porcupine.Illegal:
				s.r.Violation("history:not-linearizable",
					fmt.Sprintf("wallet %d: the (dispatch ok|busy, release, observed-free) history of %d operations has no linearization against a per-wallet lock", w, len(pops)),
					s.desc, nil)
			case porcupine.Unknown:
				s.r.Count("porcupine_unknown", 1)
			default:
				s.r.Count("porcupine_histories_checked", 1)
			}
		}
	}
	sort.Slice(evs, func(i, j int) bool { return evs[i].at < evs[j].at })
	h := sha256.New()
	for _, e := range evs {
		h.Write([]byte(e.what))
	}
	return hex.EncodeToString(h.Sum(nil)[:8])
}

// ---------------------------------------------------------------- driver

func c25Run(r *verifkit.Run, sc c25Script, desc string, stamped bool) (*c25Scenario, string) {
	s := &c25Scenario{r: r, desc: desc, stamped: stamped, wd: newWalletDispatcher()}
	for w := 0; w < sc.W; w++ {
		wl := generateWallet(big.NewInt(int64(2500 + w)))
		s.wallets = append(s.wallets, wl)
		kb, err := marshalPublicKey(wl.publicKey)
		if err != nil {
			panic(err)
		}
		s.keys = append(s.keys, hex.EncodeToString(kb))
	}
	s.state = make([]c25WState, sc.W)
	s.ops = make([][]c25Op, sc.D+1)
	if sc.Pair {
		after := 0
		if len(sc.Rounds) > 0 {
			after = sc.Rounds[0].After[0]
		}
		s.pairStep(0, 1, after)
	}
	for ri, rd := range sc.Rounds {
		if s.aborted {
			break
		}
		s.round(ri, rd)
	}
	if s.aborted {
		return s, ""
	}
	s.finish()
	if s.inconclusive != "" {
		return s, ""
	}
	// stamp-free: every accepted action ran exactly once, no refused action ran
	for _, slot := range s.ops {
		for _, op := range slot {
			n := atomic.LoadInt32(&op.a.execs)
			if !op.busy && op.other == "" && n != 1 {
				r.Violation("dispatch:accepted-action-run-count", fmt.Sprintf("accepted action %d of wallet %d executed %d times", op.a.id, op.a.widx, n), desc, nil)
			}
		}
	}
	sig := ""
	if stamped {
		sig = s.checkHistory()
	}
	return s, sig
}

func c25Workload(t *testing.T, part string, stamped bool, repsQuick, repsThorough int) {
	r := verifkit.Start(t, "C25", part)
	defer r.Finish()
	reps := r.N(repsQuick, repsThorough)
	_ = golog.SetLogLevel("keep-tbtc", "fatal") // log sink locking would add synchronisation
	r.SetRule("PRNG scripts: 1-4 wallets, 2-16 dispatcher goroutines firing bursts of 0-3 dispatches each in 2-5 rounds at a common start barrier, gated stub actions (held/instant, nil/error), held actions released concurrently with a burst or after it, followed by nothing / a white-box look until free / re-dispatch until accepted; optional cross-wallet gate step; non-trivial = some round fired >= 2 dispatches at a wallet whose accepted action was executing (gate closed) during the whole round")
	r.Assume("oracle: stamp order of one atomic counter (call stamp before dispatch, return stamp after; begin/end stamps inside execute); release of a wallet may happen anywhere after execute's end stamp; watchdogs of 30 s are violations only where the harness deadlocks by construction (dispatch that waits, wallets serialised), otherwise inconclusive")
	n := r.N(500, 20000)
	var mu sync.Mutex
	sigs := map[string]struct{}{}
	for rep := 0; rep < reps; rep++ {
		verifkit.Parallel(n, 0, func(i int) {
			sc := c25GenScript(c25Rand(r, i))
			desc := sc.desc()
			if rp := r.Replay(); rp != "" && rp != desc {
				return
			}
			if atomic.LoadInt32(&c25Stalled) != 0 {
				r.Count("scenarios_skipped_after_repeated_watchdog_violation", 1)
				return
			}
			s, sig := c25Run(r, sc, desc, stamped)
			if s.inconclusive != "" {
				r.Inconclusive(s.inconclusive + " — " + desc)
				return
			}
			if s.aborted {
				r.Case(desc, s.nontrivial)
				return
			}
			r.Case(desc, s.nontrivial)
			nops := 0
			for _, slot := range s.ops {
				nops += len(slot)
			}
			r.Count("dispatch_calls_logged", int64(nops))
			r.Count("actions_created", int64(len(s.actions)))
			r.Count("free_observations", int64(len(s.frees)))
			if sig != "" {
				mu.Lock()
				sigs[sig] = struct{}{}
				mu.Unlock()
			}
			if rep == 0 && i%(n/3+1) == 0 {
				acc := 0
				for _, slot := range s.ops {
					for _, op := range slot {
						if !op.busy {
							acc++
						}
					}
				}
				r.Sample(map[string]interface{}{"script": desc, "dispatches": nops, "accepted": acc, "nontrivial": s.nontrivial})
			}
		})
	}
	if stamped {
		r.Count("distinct_interleaving_signatures", int64(len(sigs)))
	}
}

// Oracle pass: stamped events, interval + lock-model checks.
func TestVerif_C25_Dispatch(t *testing.T) {
	c25Workload(t, "dispatch", true, 1, 1)
}

// Race pass: same scripts, no stamps (the only added synchronisation is the
// workload's own barriers and gates), repeated; the race detector watches
// wallet.go, the controller's stamp-free checks still apply.
func TestVerif_C25_DispatchRace(t *testing.T) {
	c25Workload(t, "dispatch-race", false, 3, 10)
}

// c25Rand derives the case PRNG from the seed and the case index only (not from
// the monitor's part name), so the oracle pass and the race pass run the same
// workload.
func c25Rand(r *verifkit.Run, i int) *rand.Rand {
	h := sha256.Sum256([]byte(fmt.Sprintf("%d|C25|script|%d", r.Seed(), i)))
	return rand.New(rand.NewSource(int64(binary.LittleEndian.Uint64(h[:8]))))
}

// c25ActionGoroutines counts the goroutines of the process that are inside
// the function literal walletDispatcher.dispatch starts for an accepted
// action (its deferred part performs the release).
func c25ActionGoroutines() int {
	buf := make([]byte, 4<<20)
	n := runtime.Stack(buf, true)
	return strings.Count(string(buf[:n]), "(*walletDispatcher).dispatch.func")
}
