//go:build verif

package tbtc

import (
	"bytes"
	"fmt"
	"sort"
	"testing"

	"github.com/keep-network/keep-common/pkg/persistence"
	"github.com/keep-network/keep-core/internal/verifkit"
)

// TestVerif_C38_TbtcTornRecord: a crash inside the (non-atomic) storage write
// leaves an empty or cut-short signer record next to intact ones. After the
// restart the node must know exactly the intact signers, with identical key
// material - the torn record must neither be loaded nor take the node down.
func TestVerif_C38_TbtcTornRecord(t *testing.T) {
	r := verifkit.Start(t, "C38", "tbtc_torn_record")
	defer r.Finish()
	r.SetRule("real protected disk handle; a PRNG set of signers (3 wallets x 3 member indices) is registered, then a torn record (empty / first half / first 3 bytes / all-but-last-byte of a valid signer encoding) is written for a further member index of a registered or unregistered wallet, as a crash inside the storage write leaves it; the registry is restarted on the same directory and must hold exactly the intact signers. non-trivial = the torn record sits in the directory of a wallet that also has intact signers")
	keys, err := c38BuildKeys()
	if err != nil {
		r.Inconclusive("fixtures: " + err.Error())
		return
	}
	n := r.N(60, 1500)
	for i := 0; i < n; i++ {
		rng := r.SubRand("torn", i)
		dir := r.TmpDir(fmt.Sprintf("torn%d", i))
		h, err := persistence.NewProtectedDiskHandle(dir)
		if err != nil {
			r.Inconclusive("disk handle: " + err.Error())
			return
		}
		reg, err := newWalletRegistry(h, c38WalletID)
		if err != nil {
			r.Inconclusive("registry: " + err.Error())
			return
		}
		intact := map[[2]int]bool{}
		for w := 0; w < 3; w++ {
			for m := 1; m <= 3; m++ {
				if rng.Intn(2) == 0 {
					if err := reg.registerSigner(keys.signers[[3]int{w, m, 0}]); err != nil {
						r.Inconclusive("registerSigner: " + err.Error())
						return
					}
					intact[[2]int{w, m}] = true
				}
			}
		}
		// the torn record: a member index of wallet tw that is not registered
		tw := rng.Intn(3)
		tm := 0
		for m := 1; m <= 3; m++ {
			if !intact[[2]int{tw, m}] {
				tm = m
			}
		}
		if tm == 0 {
			tm = 4
		}
		full := keys.bytes[[3]int{tw, 1 + (tm-1)%3, 0}]
		kinds := []string{"empty", "half", "three-bytes", "all-but-last-byte"}
		kind := kinds[rng.Intn(len(kinds))]
		var torn []byte
		switch kind {
		case "half":
			torn = full[:len(full)/2]
		case "three-bytes":
			torn = full[:3]
		case "all-but-last-byte":
			torn = full[:len(full)-1]
		}
		walletDir := getWalletStorageKey(keys.walletKeys[tw])
		if err := h.Save(torn, walletDir, fmt.Sprintf("/membership_%v", tm)); err != nil {
			r.Inconclusive("cannot write the torn record: " + err.Error())
			return
		}
		sameWallet := false
		for k := range intact {
			if k[0] == tw {
				sameWallet = true
			}
		}
		var in []string
		for k := range intact {
			in = append(in, fmt.Sprintf("w%dm%d", k[0], k[1]))
		}
		sort.Strings(in)
		desc := fmt.Sprintf("torn-record intact=%v torn=w%dm%d kind=%s (%d of %d bytes)", in, tw, tm, kind, len(torn), len(full))
		r.Case(desc, sameWallet)
		// restart; a crash of the loader goroutine kills the process: the
		// armed-case file lets the driver attribute it
		r.Arm(desc)
		h2, err := persistence.NewProtectedDiskHandle(dir)
		if err != nil {
			r.Inconclusive("disk handle on restart: " + err.Error())
			return
		}
		var reg2 *walletRegistry
		if r.Guard("tbtc:torn-record:", desc, func() { reg2, err = newWalletRegistry(h2, c38WalletID) }) {
			continue
		}
		r.Disarm()
		if err != nil {
			r.Violation("tbtc:torn-record:restart-error", "the registry could not be constructed although intact records exist: "+err.Error(), desc, nil)
			continue
		}
		for w := 0; w < 3; w++ {
			got := reg2.getSigners(keys.walletKeys[w])
			want := 0
			for m := 1; m <= 3; m++ {
				if intact[[2]int{w, m}] {
					want++
				}
			}
			if len(got) != want {
				r.Violation("tbtc:torn-record:signer-count", fmt.Sprintf("wallet %d: %d signers after restart, %d intact records on disk", w, len(got), want), desc, nil)
				continue
			}
			for _, s := range got {
				b, err := s.Marshal()
				ref, ok := keys.bytes[[3]int{w, int(s.signingGroupMemberIndex), 0}]
				if err != nil || !ok || !intact[[2]int{w, int(s.signingGroupMemberIndex)}] || !bytes.Equal(b, ref) {
					r.Violation("tbtc:torn-record:key-material", fmt.Sprintf("wallet %d member %d: loaded signer is not the persisted one", w, s.signingGroupMemberIndex), desc, nil)
				}
			}
		}
		if i < 3 {
			r.Sample(map[string]interface{}{"intact": in, "torn": fmt.Sprintf("w%dm%d", tw, tm), "kind": kind, "torn_bytes": len(torn)})
		}
	}
}
