//go:build verif

package tbtc

// C22 through the real coordinate() of a node that controls several wallets:
// the node's executors share one chain handle and one coordinationWindow
// object (as node.runCoordinationLayer hands them out), and the chain's
// block-hash lookups fail at scripted points. Whatever a member does after a
// failed lookup - give up with an error, or carry on - it must not act on a
// leader or a checklist that differs from what a member with a healthy chain
// view computes for the same wallet, window and safe block hash.

import (
	"context"
	"fmt"
	"sync"
	"sync/atomic"
	"testing"
	"time"

	"github.com/keep-network/keep-core/internal/testutils"
	"github.com/keep-network/keep-core/internal/verifkit"
	"github.com/keep-network/keep-core/pkg/chain"
	"github.com/keep-network/keep-core/pkg/chain/local_v1"
	"github.com/keep-network/keep-core/pkg/generator"
	"github.com/keep-network/keep-core/pkg/net"
	"github.com/keep-network/keep-core/pkg/protocol/group"
)

// c22fChain: block hashes with scripted failures (by call ordinal).
type c22fChain struct {
	Chain
	mu     sync.Mutex
	hashes map[uint64][32]byte
	calls  int
	fail   map[int]bool
	failed int
}

func (c *c22fChain) GetBlockHashByNumber(n uint64) ([32]byte, error) {
	c.mu.Lock()
	defer c.mu.Unlock()
	c.calls++
	if c.fail[c.calls] {
		c.failed++
		return [32]byte{}, fmt.Errorf("c22f: scripted block hash lookup failure")
	}
	h, ok := c.hashes[n]
	if !ok {
		return [32]byte{}, fmt.Errorf("block not found")
	}
	return h, nil
}
func (c *c22fChain) Signing() chain.Signing { return c22fSigning }

var c22fSigning = local_v1.Connect(5, 3).Signing()

// c22fChannel records the role the executor takes: Send = leader's
// broadcast, Recv = follower listening.
type c22fChannel struct {
	sends, recvs int32
}

func (c *c22fChannel) Name() string { return "c22f" }
func (c *c22fChannel) Send(ctx context.Context, m net.TaggedMarshaler, s ...net.RetransmissionStrategy) error {
	atomic.AddInt32(&c.sends, 1)
	return nil
}
func (c *c22fChannel) Recv(ctx context.Context, h func(m net.Message)) { atomic.AddInt32(&c.recvs, 1) }
func (c *c22fChannel) SetUnmarshaler(func() net.TaggedUnmarshaler)     {}
func (c *c22fChannel) SetFilter(net.BroadcastChannelFilter) error      { return nil }

type c22fOutcome struct {
	err       error
	result    *coordinationResult
	generated bool
	checklist []WalletActionType
	role      string
}

func TestVerif_C22_CoordinateUnderChainFaults(t *testing.T) {
	r := verifkit.Start(t, "C22", "coordinate-faults")
	defer r.Finish()
	c22CoordinateUnderChainFaultsWorkload(t, r, r.N(1500, 60000))
}

// TestVerif_C22_CoordinateUnderChainFaultsRace: the same workload under the race detector (executors of one node share the chain handle and the window object)
func TestVerif_C22_CoordinateUnderChainFaultsRace(t *testing.T) {
	r := verifkit.Start(t, "C22", "coordinate-faults-race")
	defer r.Finish()
	c22CoordinateUnderChainFaultsWorkload(t, r, r.N(150, 3000))
}

func c22CoordinateUnderChainFaultsWorkload(t *testing.T, r *verifkit.Run, n int) {
	r.SetRule("a node controlling 2-4 wallets (2-5 operators on 3-12 seats each) runs the real coordinate() of every wallet on one shared chain handle and one shared coordinationWindow object, one after the other or concurrently; the chain fails the block-hash lookups with PRNG-chosen ordinals (none, the first, the first two, a later one). For every wallet the role the node takes (leader: proposal generated and broadcast with a checklist; follower: listening) is compared with the leader and checklist computed by another member of the same wallet on its own healthy chain view. A coordinate() that returns an error without acting is accepted. Non-trivial: at least one lookup failed and at least one executor of the node still acted.")
	var acted, failedLookups, gaveUp int64
	verifkit.Parallel(n, 8, func(i int) {
		rng := r.SubRand("case", i)
		nodeAddr := c22Address(rng, "")
		nW := 2 + rng.Intn(3)
		block := uint64(1+rng.Intn(2000)) * 900
		var safe [32]byte
		rng.Read(safe[:])
		hashes := map[uint64][32]byte{block - coordinationSafeBlockShift: safe}
		failSet := map[int]bool{}
		switch rng.Intn(5) {
		case 0:
		case 1:
			failSet[1] = true
		case 2:
			failSet[1], failSet[2] = true, true
		case 3:
			failSet[2+rng.Intn(nW)] = true
		case 4:
			failSet[1], failSet[1+rng.Intn(nW+1)] = true, true
		}
		concurrent := rng.Intn(2) == 0
		nodeChain := &c22fChain{hashes: hashes, fail: failSet}
		window := newCoordinationWindow(block)

		type wcase struct {
			w      wallet
			ex     *coordinationExecutor
			ch     *c22fChannel
			out    c22fOutcome
			refLd  chain.Address
			refChk []WalletActionType
		}
		ws := make([]*wcase, nW)
		desc := fmt.Sprintf("block=%d wallets=%d fail-lookups=%v concurrent=%v", block, nW, c22fKeys(failSet), concurrent)
		for k := range ws {
			nOps := 2 + rng.Intn(4)
			ops := []chain.Address{nodeAddr}
			for len(ops) < nOps {
				ops = append(ops, c22Address(rng, ""))
			}
			nSeats := nOps + 1 + rng.Intn(8)
			seats := append([]chain.Address{}, ops...)
			for len(seats) < nSeats {
				seats = append(seats, ops[rng.Intn(nOps)])
			}
			rng.Shuffle(len(seats), func(a, b int) { seats[a], seats[b] = seats[b], seats[a] })
			wc := &wcase{w: wallet{publicKey: c22WalletKey(rng), signingGroupOperators: seats}, ch: &c22fChannel{}}
			// the reference: another member of this wallet with its own healthy chain and its own window object
			var other chain.Address
			for _, o := range ops {
				if o != nodeAddr {
					other = o
					break
				}
			}
			ref := &coordinationExecutor{chain: &c22fChain{hashes: hashes}, coordinatedWallet: wc.w, operatorAddress: other}
			seed, err := ref.getSeed(block)
			if err != nil {
				r.Inconclusive("harness: reference member could not compute the seed: " + err.Error())
				return
			}
			wc.refLd = ref.getLeader(seed)
			wc.refChk = ref.getActionsChecklist(newCoordinationWindow(block).index(), seed)
			wcc := wc
			gen := newMockCoordinationProposalGenerator(func(_ [20]byte, checklist []WalletActionType, _ uint) (CoordinationProposal, error) {
				wcc.out.generated = true
				wcc.out.checklist = append([]WalletActionType{}, checklist...)
				return &NoopProposal{}, nil
			})
			wc.ex = newCoordinationExecutor(nodeChain, wc.w, wc.w.membersByOperator(nodeAddr), nodeAddr, gen, wc.ch,
				group.NewMembershipValidator(&testutils.MockLogger{}, seats, c22fSigning), generator.NewProtocolLatch(),
				func(ctx context.Context, b uint64) error { return nil }) // every awaited block has already been reached: the active phase is over at once
			ws[k] = wc
		}
		run := func(wc *wcase) {
			r.Guard("coordinate-faults:", desc, func() { wc.out.result, wc.out.err = wc.ex.coordinate(window) })
		}
		done := make(chan struct{})
		go func() {
			defer close(done)
			if concurrent {
				var wg sync.WaitGroup
				for _, wc := range ws {
					wg.Add(1)
					go func(wc *wcase) { defer wg.Done(); run(wc) }(wc)
				}
				wg.Wait()
			} else {
				for _, wc := range ws {
					run(wc)
				}
			}
		}()
		select {
		case <-done:
		case <-time.After(60 * time.Second):
			r.Inconclusive("watchdog: coordinate() did not return: " + desc)
			return
		}
		anyActed := false
		for k, wc := range ws {
			sends, recvs := atomic.LoadInt32(&wc.ch.sends), atomic.LoadInt32(&wc.ch.recvs)
			wdesc := fmt.Sprintf("%s wallet#%d", desc, k)
			switch {
			case wc.out.generated || sends > 0:
				anyActed = true
				atomic.AddInt64(&acted, 1)
				if wc.refLd != nodeAddr {
					r.Violation("coordinate-faults:acted-as-leader-but-members-elect-another", "the node generated/broadcast a proposal for a wallet whose other members elect a different leader for this window", wdesc,
						map[string]any{"leader_for_other_members": string(wc.refLd), "node": string(nodeAddr), "failed_lookups": nodeChain.failed})
				} else if !c22ChecklistEq(wc.out.checklist, wc.refChk) {
					r.Violation("coordinate-faults:checklist-differs-from-other-members", "the leader's checklist differs from the one other members compute", wdesc,
						map[string]any{"node": fmt.Sprint(wc.out.checklist), "other_members": fmt.Sprint(wc.refChk)})
				}
			case recvs > 0:
				anyActed = true
				atomic.AddInt64(&acted, 1)
				if wc.refLd == nodeAddr {
					r.Violation("coordinate-faults:acted-as-follower-but-members-elect-it", "the node listened as a follower for a wallet whose other members elect it as the leader for this window", wdesc,
						map[string]any{"failed_lookups": nodeChain.failed})
				}
			default:
				if wc.out.err == nil {
					r.Violation("coordinate-faults:no-role-no-error", "coordinate() returned no error but the node neither led nor followed", wdesc, nil)
				}
				atomic.AddInt64(&gaveUp, 1)
			}
			if wc.out.result != nil && wc.out.result.leader != wc.refLd {
				r.Violation("coordinate-faults:result-leader-differs", "the coordination result names a leader other members do not elect", wdesc,
					map[string]any{"result_leader": string(wc.out.result.leader), "leader_for_other_members": string(wc.refLd)})
			}
		}
		atomic.AddInt64(&failedLookups, int64(nodeChain.failed))
		r.Case(desc, nodeChain.failed > 0 && anyActed)
		if i < 3 {
			r.Sample(map[string]any{"case": desc, "failed_lookups": nodeChain.failed})
		}
	})
	r.Count("executors_that_acted", acted)
	r.Count("executors_that_gave_up_with_error", gaveUp)
	r.Count("failed_block_hash_lookups", failedLookups)
}

func c22fKeys(m map[int]bool) []int {
	var o []int
	for k := 1; k < 16; k++ {
		if m[k] {
			o = append(o, k)
		}
	}
	return o
}
