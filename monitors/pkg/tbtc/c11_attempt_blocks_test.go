//go:build verif

package tbtc

// C11 — retry-loop attempts have identical, non-overlapping block windows.
//
// The real signingRetryLoop.start / dkgRetryLoop.start run for every member of
// a small group. Each member has its OWN virtual block counter (members see
// the chain at different heights) that is driven by the member's scripted
// stubs: the block waits, the announcer, the attempt function, the done check
// and the current-block reads. Nothing in a verdict depends on wall-clock
// time or on when a cancellation is noticed: all judged values are exact
// arguments the loop passes out —
//   * the target of the direct waitForBlockFn call (announcement start),
//   * the target of the goroutine wait that cancels the announcement context
//     (announcement end) and, for signing, of the one that cancels the done
//     check context (timeout); each is attributed to its attempt by program
//     order: the stub that is called right after the `go` statement waits for
//     the registration to arrive,
//   * startBlock/timeoutBlock given to the attempt function, the timeout given
//     to the done check, and the values returned by getCurrentBlockFn.

import (
	"context"
	"fmt"
	"math/big"
	"math/rand"
	"runtime"
	"sort"
	"strconv"
	"strings"
	"sync"
	"testing"
	"time"

	"github.com/keep-network/keep-core/internal/testutils"
	"github.com/keep-network/keep-core/internal/verifkit"
	"github.com/keep-network/keep-core/pkg/chain"
	"github.com/keep-network/keep-core/pkg/protocol/group"
	"github.com/keep-network/keep-core/pkg/tecdsa"
	"github.com/keep-network/keep-core/pkg/tecdsa/dkg"
	"github.com/keep-network/keep-core/pkg/tecdsa/signing"
)

const c11Watchdog = 40 * time.Second

func c11Goid() uint64 {
	var b [64]byte
	n := runtime.Stack(b[:], false)
	f := strings.Fields(string(b[:n]))
	if len(f) < 2 {
		return 0
	}
	id, _ := strconv.ParseUint(f[1], 10, 64)
	return id
}

// c11AttScript is the scripted behaviour of one member in one loop iteration.
type c11AttScript struct {
	CurErr    bool   // signing: getCurrentBlockFn fails in this iteration
	StartLag  uint64 // the member notices the announcement start this many blocks late
	AnnMode   int    // 0 majority incl. self, 1 early error, 2 late error, 3 minority, 4 majority without self
	AnnLag    uint64 // blocks after the announcement end at which the member notices it
	Frac      int    // attempt takes Frac/2 of (timeout-start) ...
	Overrun   uint64 // ... plus this many blocks
	AttemptOK bool
	SignalErr bool
	AllDoneOK bool
	// LateWhere makes this iteration come back far too late (well past the
	// announcement end of the next attempt): 1 in the attempt function, 2 in
	// signalDone, 3 in waitUntilAllDone. Only scripted for iterations >= 2.
	LateWhere int
	// injected block-wait faults (the context is NOT cancelled): the direct
	// wait for the announcement start, the wait that ends the announcement,
	// the wait that ends the done check (signing) return an error
	DirectWaitErr  bool
	AnnEndWaitErr  bool
	TimeoutWaitErr bool
}

// c11AttemptObs is what one member showed for one attempt number.
type c11AttemptObs struct {
	AnnCalled      bool    `json:"announced"`
	AnnStart       *uint64 `json:"ann_start_wait,omitempty"`
	AnnEnd         *uint64 `json:"ann_end_wait,omitempty"`
	HeightAtAnn    uint64  `json:"height_at_announce"`
	DeadOnArrival  bool    `json:"announce_window_already_over,omitempty"`
	TimeoutWait    *uint64 `json:"timeout_wait,omitempty"`
	ListenTimeout  *uint64 `json:"listen_timeout,omitempty"`
	Executed       bool    `json:"executed"`
	ParamsNumber   uint    `json:"params_number,omitempty"`
	ParamsStart    *uint64 `json:"params_start,omitempty"`
	ParamsTimeout  *uint64 `json:"params_timeout,omitempty"`
	LastReadBefore *uint64 `json:"current_block_read,omitempty"`
	// height of the member's chain view when the loop asked to wait for the
	// announcement start, i.e. at the loop's lateness decision point (the
	// view only moves inside the monitor's stubs, so nothing can move it
	// between the loop's own check and this call)
	DecisionHeight *uint64 `json:"height_at_lateness_decision,omitempty"`
	LateReturn     int     `json:"scripted_late_return,omitempty"`
}

// c11Fault is one injected waitForBlockFn error.
type c11Fault struct {
	Kind            string `json:"kind"`
	Iter            uint   `json:"iteration"`
	Block           uint64 `json:"block"`
	announcesBefore int
}

// c11AnnRec is one Announce call (a number may be announced more than once by
// a loop that retries after a fault).
type c11AnnRec struct {
	Att      uint    `json:"attempt"`
	AnnStart *uint64 `json:"ann_start_wait,omitempty"`
	AnnEnd   *uint64 `json:"ann_end_wait,omitempty"`
}

type c11Read struct {
	Iter  uint   `json:"iteration"`
	Value uint64 `json:"value"`
	Err   bool   `json:"err"`
}

type c11Member struct {
	idx      int
	dkgLoop  bool
	n        int
	minReady int
	clk      *verifkit.Clock
	start    uint64
	late     uint64
	stopAt   uint64
	seed     int64
	isRef    bool

	mainGoid uint64
	cancel   context.CancelFunc
	stopped  bool
	gwCh     chan uint64

	mu          sync.Mutex
	iter        uint // loop iterations seen (current-block reads for signing, direct waits for dkg)
	lastDirect  *uint64
	lastDirectH *uint64
	iterOpen    bool // the current iteration was already opened by a current-block read
	lateReturns int
	gwInIter    int // goroutine waits registered since the last direct wait
	faults      []c11Fault
	annLog      []c11AnnRec
	lastRead    *uint64
	curAttempt  uint
	obs         map[uint]*c11AttemptObs
	reads       []c11Read
	announced   []uint
	failed      int // failed / skipped attempts seen
	trouble     string
	r           *verifkit.Run
}

func (m *c11Member) script(i uint) c11AttScript {
	rng := rand.New(rand.NewSource(m.seed*1000003 + int64(i)))
	s := c11AttScript{}
	if m.isRef {
		// the reference member walks through every attempt on time
		s.AnnMode = 0
		if rng.Intn(4) == 0 {
			s.AnnMode = 3
		}
		s.Frac = rng.Intn(3)
		return s
	}
	s.CurErr = rng.Intn(10) == 0
	s.StartLag = uint64([]int{0, 0, 0, 1, 2, 4}[rng.Intn(6)])
	s.AnnMode = []int{0, 0, 0, 0, 1, 2, 3, 4}[rng.Intn(8)]
	s.AnnLag = uint64([]int{0, 0, 1, 3}[rng.Intn(4)])
	s.Frac = rng.Intn(3)
	s.Overrun = uint64([]int{0, 0, 0, 1, 3, 8, 60}[rng.Intn(7)])
	s.AttemptOK = rng.Intn(6) == 0
	s.SignalErr = rng.Intn(8) == 0
	s.AllDoneOK = rng.Intn(3) != 0
	s.DirectWaitErr = rng.Intn(14) == 0
	s.AnnEndWaitErr = rng.Intn(12) == 0
	s.TimeoutWaitErr = rng.Intn(12) == 0
	if i >= 2 && rng.Intn(4) == 0 {
		s.LateWhere = 1 + rng.Intn(3)
		// give the late step a chance to be reached
		s.CurErr = false
		s.AnnMode = 0
		if s.LateWhere >= 2 {
			s.AttemptOK = true
		}
		if s.LateWhere == 3 {
			s.SignalErr = false
		}
	}
	return s
}

func (m *c11Member) ob(att uint) *c11AttemptObs {
	o := m.obs[att]
	if o == nil {
		o = &c11AttemptObs{}
		m.obs[att] = o
	}
	return o
}

func c11U(v uint64) *uint64 { return &v }

// advanceTo moves the member's own chain view forward. When the scripted stop
// block is crossed, the loop context is cancelled there instead.
func (m *c11Member) advanceTo(target uint64) {
	h := m.clk.Height()
	if target <= h {
		return
	}
	if m.stopAt != 0 && m.stopAt <= target && !m.stopped {
		m.stopped = true
		if m.stopAt > h {
			m.clk.Set(m.stopAt, false)
		}
		m.cancel()
		return
	}
	if m.stopped {
		return
	}
	m.clk.Set(target, false)
}

// waitForBlock is the waitForBlockFn handed to the loop.
func (m *c11Member) waitForBlock(ctx context.Context, b uint64) error {
	if c11Goid() == m.mainGoid {
		m.mu.Lock()
		// one loop iteration = one current-block read (when the loop asks)
		// followed by one direct wait; a loop that does not ask still
		// opens an iteration here
		if !m.iterOpen {
			m.iter++
		}
		m.iterOpen = false
		it := m.iter
		m.lastDirect = c11U(b)
		m.lastDirectH = c11U(m.clk.Height())
		m.gwInIter = 0
		m.mu.Unlock()
		if ctx.Err() != nil {
			return nil
		}
		if m.script(it).DirectWaitErr {
			m.mu.Lock()
			m.faults = append(m.faults, c11Fault{"announcement-start-wait", it, b, len(m.announced)})
			m.mu.Unlock()
			return fmt.Errorf("scripted block wait failure")
		}
		if m.clk.Height() < b {
			m.advanceTo(b + m.script(it).StartLag)
		}
		return nil
	}
	// a wait launched with `go`: it cancels a derived context at block b
	m.mu.Lock()
	k := m.gwInIter
	m.gwInIter++
	it := m.iter
	m.mu.Unlock()
	sc := m.script(it)
	if ctx.Err() == nil && ((k == 0 && sc.AnnEndWaitErr) || (k == 1 && sc.TimeoutWaitErr)) {
		kind := "announcement-end-wait"
		if k == 1 {
			kind = "timeout-wait"
		}
		m.mu.Lock()
		m.faults = append(m.faults, c11Fault{kind, it, b, len(m.announced)})
		m.mu.Unlock()
		m.gwCh <- b
		return fmt.Errorf("scripted block wait failure")
	}
	m.gwCh <- b
	ch, _ := m.clk.BlockHeightWaiter(b)
	select {
	case <-ch:
	case <-ctx.Done():
	}
	return nil
}

func (m *c11Member) awaitGW(what string) (uint64, bool) {
	select {
	case b := <-m.gwCh:
		return b, true
	case <-time.After(c11Watchdog):
		m.mu.Lock()
		m.trouble = "no block wait was registered before " + what
		m.mu.Unlock()
		m.cancel()
		return 0, false
	}
}

func (m *c11Member) awaitDone(ctx context.Context, what string) {
	select {
	case <-ctx.Done():
	case <-time.After(c11Watchdog):
		m.mu.Lock()
		m.trouble = "context not cancelled although the member's chain view passed the block it waits for: " + what
		m.mu.Unlock()
		m.cancel()
	}
}

func (m *c11Member) currentBlock() (uint64, error) {
	m.mu.Lock()
	m.iter++
	m.iterOpen = true
	it := m.iter
	m.mu.Unlock()
	if m.script(it).CurErr {
		m.mu.Lock()
		m.reads = append(m.reads, c11Read{Iter: it, Err: true})
		m.lastRead = nil
		m.iterOpen = false // the loop gives this iteration up
		m.failed++
		m.mu.Unlock()
		return 0, fmt.Errorf("scripted current block error")
	}
	h := m.clk.Height()
	m.mu.Lock()
	m.reads = append(m.reads, c11Read{Iter: it, Value: h})
	m.lastRead = c11U(h)
	m.mu.Unlock()
	return h, nil
}

func (m *c11Member) Announce(ctx context.Context, memberIndex group.MemberIndex, sessionID string) ([]group.MemberIndex, error) {
	k := strings.LastIndex(sessionID, "-")
	a64, _ := strconv.ParseUint(sessionID[k+1:], 10, 64)
	att := uint(a64)
	T, ok := m.awaitGW(fmt.Sprintf("Announce of attempt %d", att))
	if !ok {
		return nil, fmt.Errorf("monitor watchdog")
	}
	h := m.clk.Height()
	m.mu.Lock()
	m.curAttempt = att
	m.announced = append(m.announced, att)
	o := m.ob(att)
	o.AnnCalled = true
	o.AnnStart = m.lastDirect
	m.lastDirect = nil
	o.DecisionHeight = m.lastDirectH
	m.lastDirectH = nil
	m.annLog = append(m.annLog, c11AnnRec{att, o.AnnStart, c11U(T)})
	o.AnnEnd = c11U(T)
	o.HeightAtAnn = h
	o.LastReadBefore = m.lastRead
	sc := m.script(m.iter)
	m.mu.Unlock()
	if att > 14 {
		m.stopped = true
		m.cancel()
		return nil, fmt.Errorf("script over")
	}
	// decided from the member's own state, not from whether a cancellation
	// has already been noticed
	dead := h >= T || m.stopped
	early := sc.AnnEndWaitErr && !m.stopped // the wait behind the context failed: it ends at once
	if !dead && sc.AnnMode == 1 {
		m.mu.Lock()
		m.failed++
		m.mu.Unlock()
		return nil, fmt.Errorf("scripted early announcement error")
	}
	if !dead && !early {
		m.advanceTo(T + sc.AnnLag)
	}
	// the real announcer returns when its context is done
	m.awaitDone(ctx, fmt.Sprintf("announcement context of attempt %d, wait target %d, height %d", att, T, m.clk.Height()))
	if dead {
		// nobody listens any more: the member only knows about itself
		m.mu.Lock()
		o.DeadOnArrival = true
		m.failed++
		m.mu.Unlock()
		return []group.MemberIndex{memberIndex}, nil
	}
	all := make([]group.MemberIndex, 0, m.n)
	for i := 1; i <= m.n; i++ {
		all = append(all, group.MemberIndex(i))
	}
	switch sc.AnnMode {
	case 2:
		m.mu.Lock()
		m.failed++
		m.mu.Unlock()
		return nil, fmt.Errorf("scripted late announcement error")
	case 3:
		m.mu.Lock()
		m.failed++
		m.mu.Unlock()
		l := []group.MemberIndex{memberIndex}
		for _, x := range all {
			if len(l) >= m.minReady-1 {
				break
			}
			if x != memberIndex {
				l = append(l, x)
			}
		}
		if m.minReady <= 1 {
			l = nil
		}
		return l, nil
	case 4:
		var l []group.MemberIndex
		for _, x := range all {
			if x != memberIndex {
				l = append(l, x)
			}
		}
		if len(l) < m.minReady {
			return all, nil
		}
		m.mu.Lock()
		m.failed++
		m.mu.Unlock()
		return l, nil
	}
	return all, nil
}

func (m *c11Member) runAttempt(number uint, startBlock, timeoutBlock uint64) bool {
	m.mu.Lock()
	o := m.ob(m.curAttempt)
	o.Executed = true
	o.ParamsNumber = number
	o.ParamsStart = c11U(startBlock)
	o.ParamsTimeout = c11U(timeoutBlock)
	sc := m.script(m.iter)
	m.mu.Unlock()
	var span uint64
	if timeoutBlock > startBlock {
		span = timeoutBlock - startBlock
	}
	m.advanceTo(m.clk.Height() + span*uint64(sc.Frac)/2 + sc.Overrun)
	if sc.LateWhere == 1 {
		m.lateReturn(o, 1, span)
	}
	if !sc.AttemptOK {
		m.mu.Lock()
		m.failed++
		m.mu.Unlock()
	}
	return sc.AttemptOK
}

// lateReturn lets the member's chain view run far past the next attempt's
// announcement (more than two attempt spans) before the step returns.
func (m *c11Member) lateReturn(o *c11AttemptObs, where int, span uint64) {
	m.mu.Lock()
	o.LateReturn = where
	m.lateReturns++
	m.mu.Unlock()
	m.advanceTo(m.clk.Height() + 2*span + 25)
}

func (o *c11AttemptObs) span() uint64 {
	if o.ParamsStart != nil && o.ParamsTimeout != nil && *o.ParamsTimeout > *o.ParamsStart {
		return *o.ParamsTimeout - *o.ParamsStart
	}
	if o.AnnEnd != nil && o.TimeoutWait != nil && *o.TimeoutWait > *o.AnnEnd {
		return *o.TimeoutWait - *o.AnnEnd
	}
	return 0
}

// --- signing done check stub

type c11DoneCheck struct{ m *c11Member }

func (d *c11DoneCheck) listen(ctx context.Context, message *big.Int, attemptNumber uint64, attemptTimeoutBlock uint64, attemptMembersIndexes []group.MemberIndex) {
	m := d.m
	T, ok := m.awaitGW(fmt.Sprintf("done check of attempt %d", attemptNumber))
	if !ok {
		return
	}
	m.mu.Lock()
	o := m.ob(m.curAttempt)
	o.TimeoutWait = c11U(T)
	o.ListenTimeout = c11U(attemptTimeoutBlock)
	m.mu.Unlock()
}

func (d *c11DoneCheck) signalDone(ctx context.Context, memberIndex group.MemberIndex, message *big.Int, attemptNumber uint64, result *signing.Result, endBlock uint64) error {
	m := d.m
	m.mu.Lock()
	sc := m.script(m.iter)
	o := m.ob(m.curAttempt)
	sp := o.span()
	m.mu.Unlock()
	if sc.LateWhere == 2 {
		m.lateReturn(o, 2, sp)
		m.mu.Lock()
		m.failed++
		m.mu.Unlock()
		return fmt.Errorf("scripted: done signal sent far too late")
	}
	if sc.SignalErr {
		m.mu.Lock()
		m.failed++
		m.mu.Unlock()
		return fmt.Errorf("scripted signal error")
	}
	return nil
}

func (d *c11DoneCheck) waitUntilAllDone(ctx context.Context) (*signing.Result, uint64, error) {
	m := d.m
	m.mu.Lock()
	sc := m.script(m.iter)
	o := m.ob(m.curAttempt)
	tw := o.TimeoutWait
	sp := o.span()
	m.mu.Unlock()
	if sc.LateWhere == 3 {
		if sc.TimeoutWaitErr {
			m.awaitDone(ctx, "done check context whose block wait failed")
		} else if tw != nil && ctx.Err() == nil {
			m.advanceTo(*tw)
			m.awaitDone(ctx, fmt.Sprintf("done check context, wait target %d, height %d", *tw, m.clk.Height()))
		}
		m.lateReturn(o, 3, sp)
		m.mu.Lock()
		m.failed++
		m.mu.Unlock()
		return nil, 0, fmt.Errorf("scripted: done check comes back far too late")
	}
	// decided from the member's height, not from whether the cancellation has
	// already been noticed, so that the run does not depend on scheduling
	ended := m.stopped || (tw != nil && m.clk.Height() >= *tw) || sc.TimeoutWaitErr
	if ended {
		m.awaitDone(ctx, "done check context after its timeout block")
	}
	if sc.AllDoneOK && !ended && ctx.Err() == nil {
		h := m.clk.Height()
		return &signing.Result{Signature: &tecdsa.Signature{R: big.NewInt(1), S: big.NewInt(2)}}, h, nil
	}
	// the real done check gives up when its context ends at the timeout block
	if tw != nil && ctx.Err() == nil {
		m.advanceTo(*tw)
		m.awaitDone(ctx, fmt.Sprintf("done check context, wait target %d, height %d", *tw, m.clk.Height()))
	}
	m.mu.Lock()
	m.failed++
	m.mu.Unlock()
	return nil, 0, fmt.Errorf("scripted: not everybody is done")
}

// c11Gather collects one field of every member for an attempt.
func c11Gather(ms []*c11Member, att uint, f func(o *c11AttemptObs) []*uint64) map[uint64][]int {
	out := map[uint64][]int{}
	for _, m := range ms {
		o := m.obs[att]
		if o == nil {
			continue
		}
		for _, v := range f(o) {
			if v != nil {
				out[*v] = append(out[*v], m.idx)
			}
		}
	}
	return out
}

func c11One(mm map[uint64][]int) (uint64, bool) {
	if len(mm) != 1 {
		return 0, false
	}
	for v := range mm {
		return v, true
	}
	return 0, false
}

func TestVerif_C11_Windows(t *testing.T) {
	r := verifkit.Start(t, "C11", "windows")
	defer r.Finish()
	c11WindowsWorkload(t, r, r.N(400, 20000))
}

// TestVerif_C11_WindowsRace: the same scripts (a tenth of them) under the
// race detector: the loops start goroutines (block waits that end the
// announcement and the done check) that share the loop's state.
func TestVerif_C11_WindowsRace(t *testing.T) {
	r := verifkit.Start(t, "C11", "windows_race")
	defer r.Finish()
	c11WindowsWorkload(t, r, r.N(120, 2000))
}

func c11WindowsWorkload(t *testing.T, r *verifkit.Run, nCases int) {
	r.SetRule("real signingRetryLoop.start / dkgRetryLoop.start for all 3..7 members of a group, each on its own virtual chain view driven by a PRNG script per member and iteration (current-block error, late notice of a block, announce error early/late, minority, majority without self, attempt duration up to and beyond the timeout, attempt/done-check failure or success, late start by 0..1000 blocks, loop stop block, and for iterations >= 2 an attempt function / signalDone / waitUntilAllDone that comes back more than two attempt spans late; injected waitForBlockFn errors with the context alive (the announcement-start wait, the wait that ends the announcement, the wait that ends the done check; any iteration, possibly several). On the unchanged tree a failed announcement-start wait makes the signing loop move on to the next attempt and makes the DKG loop abort (so for DKG the rule only bites on code that continues), a failed goroutine wait ends the derived context at once in both loops; the counters *_wait_faults_* say how many faults were followed by further attempts); start blocks {0,1,899,1e6,2^40,random}. non-trivial = the run observed >= 1 failed/skipped attempt or a late start")
	var loops, attemptsSeen, skipsChecked, overlapsChecked, nonuniform, lateDkg, decisions, lateReturns int64
	var cmu sync.Mutex
	faultCnt := map[string]int64{}
	verifkit.Parallel(nCases, 0, func(ci int) {
		rng := r.SubRand("case", ci)
		isDkg := ci%2 == 1
		loop := "sign"
		if isDkg {
			loop = "dkg"
		}
		var S uint64
		switch rng.Intn(6) {
		case 0:
			S = 0
		case 1:
			S = 1
		case 2:
			S = 899
		case 3:
			S = 1000000
		case 4:
			S = 1 << 40
		default:
			S = uint64(rng.Int63n(1 << 41))
		}
		n := 3 + rng.Intn(5)
		gp := &GroupParameters{GroupSize: n, HonestThreshold: n/2 + 1}
		gp.GroupQuorum = n - 2
		if gp.GroupQuorum < gp.HonestThreshold {
			gp.GroupQuorum = gp.HonestThreshold
		}
		if gp.GroupQuorum < 2 {
			gp.GroupQuorum = 2
		}
		var ops chain.Addresses
		for i := 0; i < n; i++ {
			ops = append(ops, chain.Address(fmt.Sprintf("operator-%d", i)))
		}
		mb := make([]byte, 1+rng.Intn(32))
		rng.Read(mb)
		msg := new(big.Int).SetBytes(mb)
		attemptsLimit := uint(rng.Intn(9))
		members := make([]*c11Member, n)
		var descParts []string
		for i := 0; i < n; i++ {
			m := &c11Member{idx: i + 1, dkgLoop: isDkg, n: n, start: S, seed: rng.Int63(), isRef: i == 0,
				gwCh: make(chan uint64, 4096), obs: map[uint]*c11AttemptObs{}, r: r}
			m.minReady = gp.HonestThreshold
			if isDkg {
				m.minReady = gp.GroupQuorum
			}
			if !m.isRef {
				switch rng.Intn(5) {
				case 0:
					m.late = uint64(1 + rng.Intn(12))
				case 1:
					m.late = uint64(13 + rng.Intn(90))
				case 2:
					if isDkg {
						m.late = uint64(100 + rng.Intn(900))
					} else {
						m.late = uint64(100 + rng.Intn(150))
					}
				}
			}
			if isDkg {
				m.stopAt = S + 100 + uint64(rng.Intn(2500))
			} else {
				m.stopAt = S + 30 + uint64(rng.Intn(700))
			}
			if m.stopAt <= S+m.late {
				m.stopAt = S + m.late + 1
			}
			m.clk = verifkit.NewClock(S + m.late)
			members[i] = m
			descParts = append(descParts, fmt.Sprintf("m%d{late=%d stop=%d seed=%d}", i+1, m.late, m.stopAt, m.seed))
		}
		desc := fmt.Sprintf("%s S=%d n=%d t=%d q=%d limit=%d msg=%s %s", loop, S, n, gp.HonestThreshold, gp.GroupQuorum, attemptsLimit, msg.Text(16), strings.Join(descParts, " "))

		var wg sync.WaitGroup
		hung := make([]bool, n)
		for i := range members {
			wg.Add(1)
			go func(m *c11Member, i int) {
				defer wg.Done()
				ctx, cancel := context.WithCancel(context.Background())
				m.cancel = cancel
				defer cancel()
				returned, _ := r.Within(3*c11Watchdog, loop+":", fmt.Sprintf("%s member=%d", desc, m.idx), func() {
					m.mainGoid = c11Goid()
					if isDkg {
						l := newDkgRetryLoop(&testutils.MockLogger{}, msg, S, group.MemberIndex(m.idx), ops, gp, m, attemptsLimit)
						_, _ = l.start(ctx, m.waitForBlock, func(p *dkgAttemptParams) (*dkg.Result, error) {
							if m.runAttempt(p.number, p.startBlock, p.timeoutBlock) {
								return nil, nil
							}
							return nil, fmt.Errorf("scripted attempt failure")
						})
					} else {
						l := newSigningRetryLoop(&testutils.MockLogger{}, msg, S, group.MemberIndex(m.idx), ops, gp, m, &c11DoneCheck{m})
						_, _ = l.start(ctx, m.waitForBlock, m.currentBlock, func(p *signingAttemptParams) (*signing.Result, uint64, error) {
							if m.runAttempt(p.number, p.startBlock, p.timeoutBlock) {
								return &signing.Result{Signature: &tecdsa.Signature{R: big.NewInt(1), S: big.NewInt(2)}}, m.clk.Height(), nil
							}
							return nil, 0, fmt.Errorf("scripted attempt failure")
						})
					}
				})
				if !returned {
					hung[i] = true
				}
			}(members[i], i)
		}
		wg.Wait()
		for i, m := range members {
			m.mu.Lock()
			tr := m.trouble
			m.mu.Unlock()
			if hung[i] || tr != "" {
				r.Inconclusive(fmt.Sprintf("%s member %d: loop did not make progress (%s); case=%s", loop, m.idx, tr, desc))
				return
			}
		}

		// ------------------------------------------------------------ oracle
		nontrivial := false
		maxAtt := uint(0)
		for _, m := range members {
			if m.late > 0 || m.failed > 0 {
				nontrivial = true
			}
			for a := range m.obs {
				if a > maxAtt {
					maxAtt = a
				}
			}
		}
		r.Case(desc, nontrivial)
		witness := func(att uint) interface{} {
			w := map[string]interface{}{}
			for _, m := range members {
				for _, a := range []uint{att - 1, att, att + 1} {
					if o := m.obs[a]; o != nil {
						w[fmt.Sprintf("member%d/attempt%d", m.idx, a)] = o
					}
				}
			}
			return w
		}
		type win struct {
			annStart, annEnd, pStart, timeout uint64
			hasAS, hasAE, hasPS, hasTO        bool
		}
		wins := map[uint]*win{}
		var localAttempts, localSkips, localOverlaps, localNonuniform, localLateDkg, localDecisions, localLateReturns int64
		var localReused, localFaults, localFaultsContinued, localFaultsDirect, localFaultsDirectContinued int64
		for a := uint(1); a <= maxAtt; a++ {
			w := &win{}
			wins[a] = w
			localAttempts++
			check := func(what string, mm map[uint64][]int) (uint64, bool) {
				if len(mm) > 1 {
					r.Violation(loop+":windows-differ:"+what, fmt.Sprintf("members assign attempt %d different %s blocks: %v (block -> members)", a, what, mm), fmt.Sprintf("%s @attempt=%d", desc, a), witness(a))
					return 0, false
				}
				return c11One(mm)
			}
			gatherAnn := func(end bool) map[uint64][]int {
				out := map[uint64][]int{}
				for _, m := range members {
					for _, x := range m.annLog {
						v := x.AnnStart
						if end {
							v = x.AnnEnd
						}
						if x.Att == a && v != nil {
							out[*v] = append(out[*v], m.idx)
						}
					}
				}
				return out
			}
			w.annStart, w.hasAS = check("announcement-start", gatherAnn(false))
			w.annEnd, w.hasAE = check("announcement-end", gatherAnn(true))
			w.pStart, w.hasPS = check("attempt-start", c11Gather(members, a, func(o *c11AttemptObs) []*uint64 { return []*uint64{o.ParamsStart} }))
			w.timeout, w.hasTO = check("timeout", c11Gather(members, a, func(o *c11AttemptObs) []*uint64 {
				return []*uint64{o.ParamsTimeout, o.ListenTimeout, o.TimeoutWait}
			}))
			for _, m := range members {
				if o := m.obs[a]; o != nil && o.Executed && o.ParamsNumber != a {
					r.Violation(loop+":attempt-number", fmt.Sprintf("member %d announced attempt %d but executed attempt number %d", m.idx, a, o.ParamsNumber), fmt.Sprintf("%s @attempt=%d", desc, a), witness(a))
				}
			}
		}
		// attempt n+1 begins only after attempt n has timed out
		for a := uint(1); a < maxAtt; a++ {
			w, nx := wins[a], wins[a+1]
			if w.hasTO && nx.hasAS {
				localOverlaps++
				if nx.annStart < w.timeout {
					r.Violation(loop+":overlap", fmt.Sprintf("attempt %d starts its announcement at block %d, before attempt %d times out at block %d", a+1, nx.annStart, a, w.timeout), fmt.Sprintf("%s @attempt=%d", desc, a), witness(a))
				}
			}
			if w.hasAE && nx.hasAS && nx.annStart < w.annEnd {
				r.Violation(loop+":overlap", fmt.Sprintf("attempt %d starts its announcement at block %d, before the announcement of attempt %d ends at block %d", a+1, nx.annStart, a, w.annEnd), fmt.Sprintf("%s @attempt=%d", desc, a), witness(a))
			}
			if w.hasAS && w.hasAE && nx.hasAS && nx.hasAE && (w.annEnd-w.annStart) != (nx.annEnd-nx.annStart) {
				localNonuniform++
			}
		}
		// a member only takes part in an attempt whose announcement phase has
		// not already passed
		for _, m := range members {
			if !isDkg {
				// judged from the member's own chain height at the loop's
				// lateness decision point, whether or not the loop asked for
				// the current block
				for a, o := range m.obs {
					w := wins[a]
					if w == nil || !w.hasAE || !o.AnnCalled || o.DecisionHeight == nil {
						continue
					}
					localDecisions++
					if *o.DecisionHeight >= w.annEnd {
						fp, what := "sign:late-join:announced-after-window", "announced"
						if o.Executed {
							fp, what = "sign:late-join:executed-after-window", "announced and executed"
						}
						r.Violation(fp, fmt.Sprintf("member %d's chain was at block %d when its loop turned to attempt %d, whose announcement ends at block %d; the member %s that attempt", m.idx, *o.DecisionHeight, a, w.annEnd, what),
							fmt.Sprintf("%s @attempt=%d member=%d", desc, a, m.idx), witness(a))
					}
				}
				for _, rd := range m.reads {
					if rd.Err {
						continue
					}
					w := wins[rd.Iter]
					if w == nil || !w.hasAE {
						continue
					}
					if rd.Value >= w.annEnd {
						localSkips++
						if o := m.obs[rd.Iter]; o != nil && (o.AnnCalled || o.Executed) {
							r.Violation("sign:late-member-takes-part", fmt.Sprintf("member %d read current block %d in iteration %d, the announcement of attempt %d ends at block %d, yet the member announced/executed that attempt", m.idx, rd.Value, rd.Iter, rd.Iter, w.annEnd),
								fmt.Sprintf("%s @attempt=%d member=%d", desc, rd.Iter, m.idx), witness(rd.Iter))
						}
					}
				}
			} else {
				for a, o := range m.obs {
					w := wins[a]
					if w == nil || !w.hasAE || !o.AnnCalled {
						continue
					}
					if o.HeightAtAnn >= w.annEnd {
						localLateDkg++
						if o.Executed {
							r.Violation("dkg:late-member-takes-part", fmt.Sprintf("member %d was at block %d when it announced attempt %d whose announcement ends at block %d, yet it executed the attempt", m.idx, o.HeightAtAnn, a, w.annEnd),
								fmt.Sprintf("%s @attempt=%d member=%d", desc, a, m.idx), witness(a))
						}
					}
				}
			}
			// an attempt number is never reused for different blocks
			seenAnn := map[uint]c11AnnRec{}
			for _, x := range m.annLog {
				if p, dup := seenAnn[x.Att]; dup {
					localReused++
					same := func(a, b *uint64) bool { return (a == nil) == (b == nil) && (a == nil || *a == *b) }
					if !same(p.AnnStart, x.AnnStart) || !same(p.AnnEnd, x.AnnEnd) {
						r.Violation(loop+":attempt-number-reused", fmt.Sprintf("member %d announced attempt %d twice with different blocks", m.idx, x.Att),
							fmt.Sprintf("%s @attempt=%d member=%d", desc, x.Att, m.idx), map[string]interface{}{"first": p, "second": x, "faults": m.faults})
					}
				}
				seenAnn[x.Att] = x
			}
			for _, f := range m.faults {
				localFaults++
				if len(m.announced) > f.announcesBefore {
					localFaultsContinued++
				}
				switch f.Kind {
				case "announcement-start-wait":
					localFaultsDirect++
					if len(m.announced) > f.announcesBefore {
						localFaultsDirectContinued++
					}
				}
			}
			// attempt numbers announced by one member are strictly increasing
			if !sort.SliceIsSorted(m.announced, func(i, j int) bool { return m.announced[i] < m.announced[j] }) {
				r.Violation(loop+":attempt-order", fmt.Sprintf("member %d announced attempts out of order: %v", m.idx, m.announced), desc, nil)
			}
		}
		for _, m := range members {
			localLateReturns += int64(m.lateReturns)
		}
		cmu.Lock()
		cnt := "sign"
		if isDkg {
			cnt = "dkg"
		}
		faultCnt[cnt+"_wait_faults_injected"] += localFaults
		faultCnt[cnt+"_wait_faults_followed_by_further_attempts"] += localFaultsContinued
		faultCnt[cnt+"_announcement_start_wait_faults"] += localFaultsDirect
		faultCnt[cnt+"_announcement_start_wait_faults_followed_by_further_attempts"] += localFaultsDirectContinued
		faultCnt["attempt_numbers_announced_twice"] += localReused
		decisions += localDecisions
		lateReturns += localLateReturns
		loops += int64(n)
		attemptsSeen += localAttempts
		skipsChecked += localSkips
		overlapsChecked += localOverlaps
		nonuniform += localNonuniform
		lateDkg += localLateDkg
		cmu.Unlock()
		if ci < 4 {
			s := map[string]interface{}{"loop": loop, "start_block": S, "members": n, "late_starts": func() []uint64 {
				var l []uint64
				for _, m := range members {
					l = append(l, m.late)
				}
				return l
			}()}
			var ws []map[string]interface{}
			for a := uint(1); a <= maxAtt && a <= 3; a++ {
				w := wins[a]
				e := map[string]interface{}{"attempt": a}
				if w.hasAS {
					e["ann_start"] = w.annStart
				}
				if w.hasAE {
					e["ann_end"] = w.annEnd
				}
				if w.hasPS {
					e["attempt_start"] = w.pStart
				}
				if w.hasTO {
					e["timeout"] = w.timeout
				}
				ws = append(ws, e)
			}
			s["windows_all_members_agree_on"] = ws
			r.Sample(s)
		}
	})
	r.Count("member_loops", loops)
	r.Count("attempt_windows_compared", attemptsSeen)
	r.Count("late_reads_checked_signing", skipsChecked)
	r.Count("announce_decisions_checked_signing", decisions)
	for k, v := range faultCnt {
		r.Count(k, v)
	}
	r.Count("scripted_late_returns", lateReturns)
	r.Count("late_announcements_checked_dkg", lateDkg)
	r.Count("successive_windows_checked", overlapsChecked)
	r.Count("info_nonuniform_announcement_lengths", nonuniform)
}
