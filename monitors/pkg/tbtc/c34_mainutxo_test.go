//go:build verif

package tbtc

import (
	"sync"
	"bytes"
	"crypto/sha256"
	"encoding/binary"
	"fmt"
	"math/rand"
	"testing"
	"time"

	"github.com/keep-network/keep-core/internal/verifkit"
	"github.com/keep-network/keep-core/pkg/bitcoin"
)

// ---------------------------------------------------------------------------
// C34 — main UTXO lookup and chain-sync check reflect the wallet's real state.
//
// A generated "world" is a Bitcoin transaction graph (confirmed list in block
// order + mempool tail) around one wallet public key hash and a Bridge view
// (registered main UTXO hash, revealed deposits, moved-funds sweep requests).
// The two functions are called against stubs that serve this world and are
// compared with a reference evaluation of the property's own wording.
// ---------------------------------------------------------------------------

type c34Outpoint struct {
	Hash  bitcoin.Hash
	Index uint32
}

type c34World struct {
	pkh        [20]byte
	confirmed  []*bitcoin.Transaction
	mempool    []*bitcoin.Transaction
	deposits   map[c34Outpoint]bool // revealed deposits known to the Bridge
	movedFunds map[c34Outpoint]bool // moved funds sweep requests known to the Bridge
	registered [32]byte             // main UTXO hash registered in the Bridge
	walletErr  bool                 // Bridge cannot return the wallet

	// description for the case descriptor / replay
	script []string
}

func c34P2PKH(pkh [20]byte) []byte {
	return append(append([]byte{0x76, 0xa9, 0x14}, pkh[:]...), 0x88, 0xac)
}
func c34P2WPKH(pkh [20]byte) []byte { return append([]byte{0x00, 0x14}, pkh[:]...) }
func c34P2SH(h [20]byte) []byte {
	return append(append([]byte{0xa9, 0x14}, h[:]...), 0x87)
}

func (w *c34World) paysWallet(o *bitcoin.TransactionOutput) bool {
	return bytes.Equal(o.PublicKeyScript, c34P2PKH(w.pkh)) || bytes.Equal(o.PublicKeyScript, c34P2WPKH(w.pkh))
}

func c34UtxoHash(h bitcoin.Hash, index uint32, value int64) [32]byte {
	var buf [32 + 4 + 8 + 4]byte
	copy(buf[:], "utxo")
	copy(buf[4:], h[:])
	binary.LittleEndian.PutUint32(buf[36:], index)
	binary.LittleEndian.PutUint64(buf[40:], uint64(value))
	return sha256.Sum256(buf[:])
}

// spent returns the set of outpoints consumed by any confirmed or mempool
// transaction.
func (w *c34World) spent() map[c34Outpoint]bool {
	s := map[c34Outpoint]bool{}
	for _, l := range [][]*bitcoin.Transaction{w.confirmed, w.mempool} {
		for _, tx := range l {
			for _, in := range tx.Inputs {
				s[c34Outpoint{in.Outpoint.TransactionHash, in.Outpoint.OutputIndex}] = true
			}
		}
	}
	return s
}

// walletUtxos lists the unspent wallet outputs of the given transaction list
// (in list order).
func (w *c34World) walletUtxos(list []*bitcoin.Transaction) []*bitcoin.UnspentTransactionOutput {
	sp := w.spent()
	out := []*bitcoin.UnspentTransactionOutput{}
	for _, tx := range list {
		h := tx.Hash()
		for i, o := range tx.Outputs {
			if w.paysWallet(o) && !sp[c34Outpoint{h, uint32(i)}] {
				out = append(out, &bitcoin.UnspentTransactionOutput{
					Outpoint: &bitcoin.TransactionOutpoint{TransactionHash: h, OutputIndex: uint32(i)},
					Value:    o.Value,
				})
			}
		}
	}
	return out
}

// ---- stubs -----------------------------------------------------------------

// c34Btc serves the world through bitcoin.Chain. Methods that the wallet
// history functions have no business calling are left to the nil embedded
// interface (a call panics and is reported).
// c34Fault fails the dependency call with the given ordinal (1-based), over
// the Bitcoin client and the Bridge together. failAt <= 0: never.
type c34Fault struct {
	mu     sync.Mutex
	failAt int
	calls  int
	failed int
}

var errC34Fault = fmt.Errorf("c34: scripted transient failure of a dependency")

func (f *c34Fault) hit() bool {
	if f == nil {
		return false
	}
	f.mu.Lock()
	defer f.mu.Unlock()
	f.calls++
	if f.calls == f.failAt {
		f.failed++
		return true
	}
	return false
}

type c34Btc struct {
	bitcoin.Chain
	w     *c34World
	calls map[string]int
	flt   *c34Fault
}

func (c *c34Btc) find(h bitcoin.Hash) (*bitcoin.Transaction, int, bool) {
	for i, tx := range c.w.confirmed {
		if tx.Hash() == h {
			return tx, i, true
		}
	}
	for _, tx := range c.w.mempool {
		if tx.Hash() == h {
			return tx, -1, true
		}
	}
	return nil, 0, false
}

func (c *c34Btc) GetTransaction(h bitcoin.Hash) (*bitcoin.Transaction, error) {
	if c.flt.hit() {
		return nil, errC34Fault
	}
	c.calls["GetTransaction"]++
	if tx, _, ok := c.find(h); ok {
		return tx, nil
	}
	return nil, fmt.Errorf("c34: transaction not found")
}

func (c *c34Btc) GetTransactionConfirmations(h bitcoin.Hash) (uint, error) {
	if c.flt.hit() {
		return 0, errC34Fault
	}
	c.calls["GetTransactionConfirmations"]++
	if _, i, ok := c.find(h); ok {
		if i < 0 {
			return 0, nil
		}
		return uint(len(c.w.confirmed) - i), nil
	}
	return 0, fmt.Errorf("c34: transaction not found")
}

func (c *c34Btc) history(pkh [20]byte, list []*bitcoin.Transaction) []*bitcoin.Transaction {
	var out []*bitcoin.Transaction
	if pkh != c.w.pkh {
		return out
	}
	for _, tx := range list {
		for _, o := range tx.Outputs {
			if c.w.paysWallet(o) {
				out = append(out, tx)
				break
			}
		}
	}
	return out
}

func (c *c34Btc) GetTransactionsForPublicKeyHash(pkh [20]byte, limit int) ([]*bitcoin.Transaction, error) {
	if c.flt.hit() {
		return nil, errC34Fault
	}
	c.calls["GetTransactionsForPublicKeyHash"]++
	h := c.history(pkh, c.w.confirmed)
	if len(h) > limit {
		h = h[len(h)-limit:]
	}
	return h, nil
}

func (c *c34Btc) GetTxHashesForPublicKeyHash(pkh [20]byte) ([]bitcoin.Hash, error) {
	if c.flt.hit() {
		return nil, errC34Fault
	}
	c.calls["GetTxHashesForPublicKeyHash"]++
	out := []bitcoin.Hash{}
	for _, tx := range c.history(pkh, c.w.confirmed) {
		out = append(out, tx.Hash())
	}
	return out, nil
}

func (c *c34Btc) GetMempoolForPublicKeyHash(pkh [20]byte) ([]*bitcoin.Transaction, error) {
	if c.flt.hit() {
		return nil, errC34Fault
	}
	c.calls["GetMempoolForPublicKeyHash"]++
	return c.history(pkh, c.w.mempool), nil
}

func (c *c34Btc) GetUtxosForPublicKeyHash(pkh [20]byte) ([]*bitcoin.UnspentTransactionOutput, error) {
	if c.flt.hit() {
		return nil, errC34Fault
	}
	c.calls["GetUtxosForPublicKeyHash"]++
	if pkh != c.w.pkh {
		return nil, nil
	}
	return c.w.walletUtxos(c.w.confirmed), nil
}

func (c *c34Btc) GetMempoolUtxosForPublicKeyHash(pkh [20]byte) ([]*bitcoin.UnspentTransactionOutput, error) {
	if c.flt.hit() {
		return nil, errC34Fault
	}
	c.calls["GetMempoolUtxosForPublicKeyHash"]++
	if pkh != c.w.pkh {
		return nil, nil
	}
	return c.w.walletUtxos(c.w.mempool), nil
}

// c34Bridge serves the Bridge view.
type c34Bridge struct {
	BridgeChain
	w   *c34World
	flt *c34Fault
}

func (b *c34Bridge) GetWallet(pkh [20]byte) (*WalletChainData, error) {
	if b.flt.hit() {
		return nil, errC34Fault
	}
	if b.w.walletErr || pkh != b.w.pkh {
		return nil, fmt.Errorf("c34: no wallet for the given public key hash")
	}
	return &WalletChainData{MainUtxoHash: b.w.registered, State: StateLive}, nil
}

func (b *c34Bridge) ComputeMainUtxoHash(u *bitcoin.UnspentTransactionOutput) [32]byte {
	return c34UtxoHash(u.Outpoint.TransactionHash, u.Outpoint.OutputIndex, u.Value)
}

func (b *c34Bridge) GetDepositRequest(h bitcoin.Hash, i uint32) (*DepositChainRequest, bool, error) {
	if b.flt.hit() {
		return nil, false, errC34Fault
	}
	if b.w.deposits[c34Outpoint{h, i}] {
		return &DepositChainRequest{Amount: 1, RevealedAt: time.Unix(1700000000, 0)}, true, nil
	}
	return nil, false, nil
}

func (b *c34Bridge) GetMovedFundsSweepRequest(h bitcoin.Hash, i uint32) (*MovedFundsSweepRequest, bool, error) {
	if b.flt.hit() {
		return nil, false, errC34Fault
	}
	if b.w.movedFunds[c34Outpoint{h, i}] {
		return &MovedFundsSweepRequest{WalletPublicKeyHash: b.w.pkh, Value: 1, State: MovedFundsStatePending}, true, nil
	}
	return nil, false, nil
}

// ---- reference -------------------------------------------------------------

// c34RefMainUtxo: the wallet output (P2PKH or P2WPKH) in the confirmed
// history whose hash equals the registered hash; none if nothing registered;
// error if absent.
func c34RefMainUtxo(w *c34World) (u *bitcoin.UnspentTransactionOutput, wantErr bool) {
	if w.walletErr {
		return nil, true
	}
	if w.registered == [32]byte{} {
		return nil, false
	}
	for _, tx := range w.confirmed {
		h := tx.Hash()
		for i, o := range tx.Outputs {
			if w.paysWallet(o) && c34UtxoHash(h, uint32(i), o.Value) == w.registered {
				return &bitcoin.UnspentTransactionOutput{
					Outpoint: &bitcoin.TransactionOutpoint{TransactionHash: h, OutputIndex: uint32(i)},
					Value:    o.Value,
				}, false
			}
		}
	}
	return nil, true
}

// c34RefSynced: with a main UTXO — it is still an unspent confirmed wallet
// output; without — no unspent wallet output (confirmed or mempool) is the
// single output (index 0) of a transaction whose first input is a revealed
// deposit or a moved funds sweep request.
func c34RefSynced(w *c34World, main *bitcoin.UnspentTransactionOutput) bool {
	if main != nil {
		for _, u := range w.walletUtxos(w.confirmed) {
			if u.Outpoint.TransactionHash == main.Outpoint.TransactionHash &&
				u.Outpoint.OutputIndex == main.Outpoint.OutputIndex && u.Value == main.Value {
				return true
			}
		}
		return false
	}
	all := append(w.walletUtxos(w.confirmed), w.walletUtxos(w.mempool)...)
	byHash := map[bitcoin.Hash]*bitcoin.Transaction{}
	for _, l := range [][]*bitcoin.Transaction{w.confirmed, w.mempool} {
		for _, tx := range l {
			byHash[tx.Hash()] = tx
		}
	}
	for _, u := range all {
		if u.Outpoint.OutputIndex != 0 {
			continue
		}
		in := byHash[u.Outpoint.TransactionHash].Inputs[0].Outpoint
		k := c34Outpoint{in.TransactionHash, in.OutputIndex}
		if w.deposits[k] || w.movedFunds[k] {
			return false
		}
	}
	return true
}

// ---- generator -------------------------------------------------------------

type c34Gen struct {
	rng *rand.Rand
	w   *c34World
	all []*bitcoin.Transaction
	// the wallet's own transactions, in order, and the main UTXO each left
	walletTxMain []*c34Outpoint // nil entry = no main UTXO after that tx
	walletTxVal  []int64
	main         *c34Outpoint
	mainVal      int64
	stats        map[string]int
}

func (g *c34Gen) randHash() bitcoin.Hash {
	var h bitcoin.Hash
	g.rng.Read(h[:])
	return h
}

func (g *c34Gen) rand20() [20]byte {
	var h [20]byte
	g.rng.Read(h[:])
	return h
}

func (g *c34Gen) walletScript() []byte {
	if g.rng.Intn(2) == 0 {
		return c34P2PKH(g.w.pkh)
	}
	return c34P2WPKH(g.w.pkh)
}

func (g *c34Gen) otherScript() []byte {
	switch g.rng.Intn(5) {
	case 0:
		return c34P2PKH(g.rand20())
	case 1:
		return c34P2WPKH(g.rand20())
	case 2:
		return c34P2SH(g.w.pkh) // same 20 bytes, different script type
	case 3:
		// wallet P2PKH with one byte changed
		s := c34P2PKH(g.w.pkh)
		s[3+g.rng.Intn(20)] ^= 1 << uint(g.rng.Intn(8))
		return s
	default:
		var h [32]byte
		g.rng.Read(h[:])
		return append([]byte{0x00, 0x20}, h[:]...)
	}
}

func (g *c34Gen) input(op c34Outpoint) *bitcoin.TransactionInput {
	in := &bitcoin.TransactionInput{
		Outpoint: &bitcoin.TransactionOutpoint{TransactionHash: op.Hash, OutputIndex: op.Index},
		Sequence: 0xffffffff,
	}
	if g.rng.Intn(2) == 0 {
		in.SignatureScript = []byte{0x01, byte(g.rng.Intn(256))}
	}
	return in
}

func (g *c34Gen) value() int64 { return int64(1000 + g.rng.Intn(5_000_000)) }

func (g *c34Gen) newDeposit(revealed bool) c34Outpoint {
	op := c34Outpoint{g.randHash(), uint32(g.rng.Intn(3))}
	if revealed {
		g.w.deposits[op] = true
	}
	return op
}

func (g *c34Gen) add(tx *bitcoin.Transaction, kind string) bitcoin.Hash {
	g.all = append(g.all, tx)
	g.stats[kind]++
	g.w.script = append(g.w.script, kind)
	return tx.Hash()
}

func (g *c34Gen) walletTx(tx *bitcoin.Transaction, kind string, mainIdx int) {
	h := g.add(tx, kind)
	if mainIdx >= 0 {
		g.main = &c34Outpoint{h, uint32(mainIdx)}
		g.mainVal = tx.Outputs[mainIdx].Value
	} else {
		g.main = nil
		g.mainVal = 0
	}
	g.walletTxMain = append(g.walletTxMain, g.main)
	g.walletTxVal = append(g.walletTxVal, g.mainVal)
}

func (g *c34Gen) step() {
	rng := g.rng
	switch x := rng.Intn(100); {
	case x < 30: // spam paying the wallet
		tx := &bitcoin.Transaction{Version: 1}
		for i, n := 0, 1+rng.Intn(2); i < n; i++ {
			tx.Inputs = append(tx.Inputs, g.input(g.newDeposit(false))) // not revealed: not a deposit
		}
		n := 1 + rng.Intn(3)
		pay := rng.Intn(n)
		for i := 0; i < n; i++ {
			o := &bitcoin.TransactionOutput{Value: g.value(), PublicKeyScript: g.otherScript()}
			if i == pay || rng.Intn(5) == 0 {
				o.PublicKeyScript = g.walletScript()
				if g.main != nil && rng.Intn(3) == 0 {
					o.Value = g.mainVal // same value as the main UTXO
				}
			}
			tx.Outputs = append(tx.Outputs, o)
		}
		g.add(tx, "spam")
	case x < 38: // unrelated transaction (never pays the wallet scripts)
		tx := &bitcoin.Transaction{Version: 2, Inputs: []*bitcoin.TransactionInput{g.input(g.newDeposit(false))}}
		for i, n := 0, 1+rng.Intn(2); i < n; i++ {
			tx.Outputs = append(tx.Outputs, &bitcoin.TransactionOutput{Value: g.value(), PublicKeyScript: g.otherScript()})
		}
		g.add(tx, "unrelated")
	case x < 63: // deposit sweep by the wallet
		tx := &bitcoin.Transaction{Version: 1}
		if g.main != nil {
			tx.Inputs = append(tx.Inputs, g.input(*g.main))
		}
		for i, n := 0, 1+rng.Intn(3); i < n; i++ {
			tx.Inputs = append(tx.Inputs, g.input(g.newDeposit(true)))
		}
		tx.Outputs = []*bitcoin.TransactionOutput{{Value: g.value(), PublicKeyScript: g.walletScript()}}
		g.walletTx(tx, "sweep", 0)
	case x < 71: // moved funds sweep by the wallet
		req := c34Outpoint{g.randHash(), uint32(rng.Intn(2))}
		g.w.movedFunds[req] = true
		tx := &bitcoin.Transaction{Version: 1, Inputs: []*bitcoin.TransactionInput{g.input(req)}}
		if g.main != nil {
			tx.Inputs = append(tx.Inputs, g.input(*g.main))
		}
		tx.Outputs = []*bitcoin.TransactionOutput{{Value: g.value(), PublicKeyScript: g.walletScript()}}
		g.walletTx(tx, "moved-funds-sweep", 0)
	case x < 92: // redemption (needs a main UTXO)
		if g.main == nil {
			return
		}
		tx := &bitcoin.Transaction{Version: 1, Inputs: []*bitcoin.TransactionInput{g.input(*g.main)}}
		n := 1 + rng.Intn(3)
		for i := 0; i < n; i++ {
			tx.Outputs = append(tx.Outputs, &bitcoin.TransactionOutput{Value: g.value(), PublicKeyScript: g.otherScript()})
		}
		change := -1
		if rng.Intn(10) < 7 {
			change = rng.Intn(n + 1)
			o := &bitcoin.TransactionOutput{Value: g.value(), PublicKeyScript: g.walletScript()}
			tx.Outputs = append(tx.Outputs[:change], append([]*bitcoin.TransactionOutput{o}, tx.Outputs[change:]...)...)
		}
		g.walletTx(tx, "redemption", change)
	default: // moving funds: everything leaves the wallet
		if g.main == nil {
			return
		}
		tx := &bitcoin.Transaction{Version: 1, Inputs: []*bitcoin.TransactionInput{g.input(*g.main)}}
		for i, n := 0, 1+rng.Intn(2); i < n; i++ {
			tx.Outputs = append(tx.Outputs, &bitcoin.TransactionOutput{Value: g.value(), PublicKeyScript: c34P2WPKH(g.rand20())})
		}
		g.walletTx(tx, "moving-funds", -1)
	}
}

// c34Generate builds a world. The returned tags say which of the
// non-triviality conditions the world contains.
func c34Generate(rng *rand.Rand) (*c34World, map[string]int) {
	g := &c34Gen{rng: rng, stats: map[string]int{}}
	g.w = &c34World{deposits: map[c34Outpoint]bool{}, movedFunds: map[c34Outpoint]bool{}}
	rng.Read(g.w.pkh[:])
	steps := rng.Intn(26)
	if rng.Intn(6) == 0 {
		steps = rng.Intn(4)
	}
	// index (in g.all) at which every wallet tx sits, to cut the mempool tail
	var walletAt []int
	for i := 0; i < steps; i++ {
		before := len(g.walletTxMain)
		g.step()
		if len(g.walletTxMain) > before {
			walletAt = append(walletAt, len(g.all)-1)
		}
	}
	// mempool tail
	tail := 0
	if len(g.all) > 0 && rng.Intn(3) == 0 {
		tail = 1 + rng.Intn(3)
		if tail > len(g.all) {
			tail = len(g.all)
		}
	}
	cut := len(g.all) - tail
	g.w.confirmed = g.all[:cut]
	g.w.mempool = g.all[cut:]
	g.stats["mempool"] = tail
	confirmedWalletTxs := 0
	for _, at := range walletAt {
		if at < cut {
			confirmedWalletTxs++
		}
	}
	// what the Bridge has registered: the main UTXO after one of the
	// *confirmed* wallet transactions (usually the last, sometimes lagging)
	lag := 0
	if rng.Intn(3) == 0 {
		lag = 1 + rng.Intn(3)
	}
	upto := confirmedWalletTxs - lag
	if upto < 0 {
		upto = 0
	}
	g.stats["bridge-lag-txs"] = len(g.walletTxMain) - upto
	if upto > 0 && g.walletTxMain[upto-1] != nil {
		m := g.walletTxMain[upto-1]
		g.w.registered = c34UtxoHash(m.Hash, m.Index, g.walletTxVal[upto-1])
	}
	g.w.script = append(g.w.script, fmt.Sprintf("mempool=%d registered-after-wallet-tx=%d/%d", tail, upto, len(g.walletTxMain)))
	// hostile registrations
	switch x := rng.Intn(40); {
	case x == 0:
		rng.Read(g.w.registered[:])
		g.w.script = append(g.w.script, "registered=random-hash")
		g.stats["hostile-registration"]++
	case x == 1 && cut > 0:
		// hash of some output that does not pay the wallet, or of a wallet
		// output with the value off by one
		tx := g.w.confirmed[rng.Intn(cut)]
		i := rng.Intn(len(tx.Outputs))
		v := tx.Outputs[i].Value
		if g.w.paysWallet(tx.Outputs[i]) {
			v++
		}
		g.w.registered = c34UtxoHash(tx.Hash(), uint32(i), v)
		g.w.script = append(g.w.script, "registered=non-wallet-output-or-wrong-value")
		g.stats["hostile-registration"]++
	case x == 2 && cut > 0:
		// hash of an arbitrary wallet output (possibly spam)
		us := g.w.walletUtxos(g.w.confirmed)
		if len(us) > 0 {
			u := us[rng.Intn(len(us))]
			g.w.registered = c34UtxoHash(u.Outpoint.TransactionHash, u.Outpoint.OutputIndex, u.Value)
			g.w.script = append(g.w.script, "registered=arbitrary-wallet-output")
			g.stats["hostile-registration"]++
		}
	case x == 3:
		g.w.walletErr = true
		g.w.script = append(g.w.script, "bridge-wallet-error")
	}
	return g.w, g.stats
}

func c34DescribeUtxo(u *bitcoin.UnspentTransactionOutput) string {
	if u == nil {
		return "none"
	}
	return fmt.Sprintf("%s:%d/%d", u.Outpoint.TransactionHash.String()[:12], u.Outpoint.OutputIndex, u.Value)
}

func c34DescribeWorld(w *c34World) interface{} {
	d := func(list []*bitcoin.Transaction) []interface{} {
		var out []interface{}
		for _, tx := range list {
			var ins, outs []string
			for _, in := range tx.Inputs {
				k := c34Outpoint{in.Outpoint.TransactionHash, in.Outpoint.OutputIndex}
				tag := ""
				if w.deposits[k] {
					tag = " deposit"
				}
				if w.movedFunds[k] {
					tag = " moved-funds-request"
				}
				ins = append(ins, fmt.Sprintf("%s:%d%s", in.Outpoint.TransactionHash.String()[:12], in.Outpoint.OutputIndex, tag))
			}
			for _, o := range tx.Outputs {
				tag := ""
				if w.paysWallet(o) {
					tag = " WALLET"
				}
				outs = append(outs, fmt.Sprintf("%d %x%s", o.Value, []byte(o.PublicKeyScript), tag))
			}
			h := tx.Hash()
			out = append(out, map[string]interface{}{"hash": h.String()[:12], "in": ins, "out": outs})
		}
		return out
	}
	return map[string]interface{}{
		"wallet_pkh": fmt.Sprintf("%x", w.pkh), "confirmed": d(w.confirmed), "mempool": d(w.mempool),
		"registered_main_utxo_hash": fmt.Sprintf("%x", w.registered), "bridge_wallet_error": w.walletErr,
	}
}

func TestVerif_C34_MainUtxo(t *testing.T) {
	r := verifkit.Start(t, "C34", "mainutxo")
	defer r.Finish()
	r.SetRule("PRNG wallet worlds of 0..25 transactions (deposit sweeps, moved-funds sweeps, redemptions with/without change at any output position, moving funds, spam paying the wallet by P2PKH/P2WPKH at any index incl. the main UTXO's value, look-alike scripts, unrelated transactions), a mempool tail of 0..3, a Bridge that registered the main UTXO of the last or an earlier confirmed wallet transaction (lag), plus hostile registrations; DetermineWalletMainUtxo and EnsureWalletSyncedBetweenChains (with the determined UTXO, or with none when nothing is registered) are compared with a reference evaluation. non-trivial = world with a spam output to the wallet, a registered main UTXO that is already spent, or a mempool transaction")
	n := r.N(4000, 100000)
	verifkit.Parallel(n, 0, func(i int) {
		rng := r.SubRand("world", i)
		w, stats := c34Generate(rng)
		desc := fmt.Sprintf("world#%d seed=%d %v", i, r.Seed(), w.script)
		want, wantErr := c34RefMainUtxo(w)
		spentMain := want != nil && w.spent()[c34Outpoint{want.Outpoint.TransactionHash, want.Outpoint.OutputIndex}]
		if spentMain {
			r.Count("worlds_with_spent_registered_main_utxo", 1)
		}
		nontrivial := stats["spam"] > 0 || stats["mempool"] > 0 || spentMain
		r.Case(desc, nontrivial)
		for k, v := range stats {
			if v > 0 {
				r.Count("worlds_with_"+k, 1)
			}
		}
		btc := &c34Btc{w: w, calls: map[string]int{}}
		bridge := &c34Bridge{w: w}
		witness := func(extra map[string]interface{}) interface{} {
			extra["world"] = c34DescribeWorld(w)
			return extra
		}

		// ---- main UTXO lookup
		var got *bitcoin.UnspentTransactionOutput
		var err error
		if r.Guard("lookup:", desc, func() { got, err = DetermineWalletMainUtxo(w.pkh, bridge, btc) }) {
			return
		}
		switch {
		case wantErr && err == nil:
			r.Violation("lookup:no-error", "no wallet output in the confirmed history has the registered hash (or the Bridge failed), yet a result was returned without error",
				desc, witness(map[string]interface{}{"got": c34DescribeUtxo(got)}))
		case !wantErr && err != nil:
			fp := "lookup:not-found"
			if want == nil {
				fp = "lookup:error-for-unregistered"
			}
			r.Violation(fp, "lookup failed although the registered main UTXO is a wallet output of the confirmed history (or nothing is registered): "+err.Error(),
				desc, witness(map[string]interface{}{"want": c34DescribeUtxo(want)}))
		case !wantErr && want == nil && got != nil:
			r.Violation("lookup:utxo-for-unregistered", "a main UTXO was returned although none is registered", desc, witness(map[string]interface{}{"got": c34DescribeUtxo(got)}))
		case !wantErr && want != nil && (got == nil || got.Outpoint == nil ||
			got.Outpoint.TransactionHash != want.Outpoint.TransactionHash || got.Outpoint.OutputIndex != want.Outpoint.OutputIndex || got.Value != want.Value):
			r.Violation("lookup:wrong-utxo", "the returned main UTXO is not the wallet output whose hash is registered", desc,
				witness(map[string]interface{}{"got": c34DescribeUtxo(got), "want": c34DescribeUtxo(want)}))
		}
		if want != nil {
			r.Count("lookups_found", 1)
		}

		// ---- sync check
		sync := func(tag string, main *bitcoin.UnspentTransactionOutput) {
			wantOK := c34RefSynced(w, main)
			var serr error
			if r.Guard("sync:", desc+" "+tag, func() { serr = EnsureWalletSyncedBetweenChains(w.pkh, main, bridge, btc) }) {
				return
			}
			r.Count("sync_checks", 1)
			if wantOK {
				r.Count("sync_checks_expected_pass", 1)
			}
			if wantOK == (serr == nil) {
				return
			}
			kind := "fresh"
			if main != nil {
				kind = "main-utxo"
			}
			if wantOK {
				r.Violation("sync:"+kind+":false-failure", "the sync check failed although the reference state is in sync: "+serr.Error(), desc+" "+tag,
					witness(map[string]interface{}{"main_utxo": c34DescribeUtxo(main)}))
			} else {
				r.Violation("sync:"+kind+":false-pass", "the sync check passed although the wallet has acted on Bitcoin beyond what the Bridge knows", desc+" "+tag,
					witness(map[string]interface{}{"main_utxo": c34DescribeUtxo(main)}))
			}
		}
		if !wantErr {
			sync("sync-with-determined", want)
		}
		if w.registered == [32]byte{} && !w.walletErr {
			r.Count("fresh_wallet_checks", 1)
		}
		if i < 3 {
			r.Sample(map[string]interface{}{"script": w.script, "main_utxo": c34DescribeUtxo(want), "lookup_error_expected": wantErr, "synced": !wantErr && c34RefSynced(w, want)})
		}
	})
}

// TestVerif_C34_SpentMainUtxos feeds the sync check every main UTXO the
// wallet ever had in a world (only the last one that is still unspent may
// pass).
func TestVerif_C34_SpentMainUtxos(t *testing.T) {
	r := verifkit.Start(t, "C34", "spent-main-utxos")
	defer r.Finish()
	r.SetRule("the worlds of the main monitor; for every wallet output that ever existed in the confirmed history (earlier main UTXOs, change, spam) the sync check is called with that output as the main UTXO and must pass exactly when the output is still unspent (mempool spends count). non-trivial = the output given is spent, or the world has a mempool transaction")
	n := r.N(1200, 30000)
	verifkit.Parallel(n, 0, func(i int) {
		rng := r.SubRand("world", i)
		w, _ := c34Generate(rng)
		btc := &c34Btc{w: w, calls: map[string]int{}}
		bridge := &c34Bridge{w: w}
		sp := w.spent()
		for ti, tx := range w.confirmed {
			h := tx.Hash()
			for oi, o := range tx.Outputs {
				if !w.paysWallet(o) {
					continue
				}
				u := &bitcoin.UnspentTransactionOutput{Outpoint: &bitcoin.TransactionOutpoint{TransactionHash: h, OutputIndex: uint32(oi)}, Value: o.Value}
				isSpent := sp[c34Outpoint{h, uint32(oi)}]
				desc := fmt.Sprintf("world#%d seed=%d %v given=tx%d:%d spent=%v", i, r.Seed(), w.script, ti, oi, isSpent)
				r.Case(desc, isSpent || len(w.mempool) > 0)
				var serr error
				if r.Guard("sync:", desc, func() { serr = EnsureWalletSyncedBetweenChains(w.pkh, u, bridge, btc) }) {
					continue
				}
				if isSpent && serr == nil {
					r.Violation("sync:main-utxo:false-pass", "the sync check passed for a main UTXO that is already spent on Bitcoin", desc,
						map[string]interface{}{"main_utxo": c34DescribeUtxo(u), "world": c34DescribeWorld(w)})
				}
				if !isSpent && serr != nil {
					r.Violation("sync:main-utxo:false-failure", "the sync check failed for an unspent main UTXO: "+serr.Error(), desc,
						map[string]interface{}{"main_utxo": c34DescribeUtxo(u), "world": c34DescribeWorld(w)})
				}
			}
		}
	})
}

// TestVerif_C34_UnderDependencyFaults: every call the two functions make to
// the Bitcoin client or the Bridge fails once, in turn. Failing is fine; an
// answer given anyway must be the right one - above all the sync check must
// not pass for a wallet that is not in sync.
func TestVerif_C34_UnderDependencyFaults(t *testing.T) {
	r := verifkit.Start(t, "C34", "dependency-faults")
	defer r.Finish()
	r.SetRule("the worlds of the main monitor; DetermineWalletMainUtxo and EnsureWalletSyncedBetweenChains are re-run once per dependency call ordinal (Bitcoin client and Bridge together) with that call failing transiently. Outcome error: accepted. Outcome answer: the lookup must return the reference main UTXO, the sync check may pass only if the reference says the wallet is in sync. Non-trivial: the scripted failure was hit.")
	n := r.N(500, 8000)
	verifkit.Parallel(n, 0, func(i int) {
		rng := r.SubRand("world", i)
		w, _ := c34Generate(rng)
		want, wantErr := c34RefMainUtxo(w)
		base := fmt.Sprintf("world#%d seed=%d %v", i, r.Seed(), w.script)
		// ---- lookup
		count := &c34Fault{}
		r.Guard("faults:lookup:", base, func() {
			_, _ = DetermineWalletMainUtxo(w.pkh, &c34Bridge{w: w, flt: count}, &c34Btc{w: w, calls: map[string]int{}, flt: count})
		})
		for k := 1; k <= count.calls; k++ {
			f := &c34Fault{failAt: k}
			desc := fmt.Sprintf("%s | lookup, dependency call %d fails", base, k)
			var got *bitcoin.UnspentTransactionOutput
			var err error
			if r.Guard("faults:lookup:", desc, func() {
				got, err = DetermineWalletMainUtxo(w.pkh, &c34Bridge{w: w, flt: f}, &c34Btc{w: w, calls: map[string]int{}, flt: f})
			}) {
				continue
			}
			r.Case(desc, f.failed > 0)
			if err != nil {
				r.Count("lookups_that_gave_up", 1)
				continue
			}
			switch {
			case wantErr:
				r.Violation("faults:lookup:no-error", "after a failed dependency call the lookup returned a result although no wallet output has the registered hash", desc, map[string]interface{}{"got": c34DescribeUtxo(got)})
			case want == nil && got != nil:
				r.Violation("faults:lookup:utxo-for-unregistered", "after a failed dependency call a main UTXO was returned although none is registered", desc, map[string]interface{}{"got": c34DescribeUtxo(got)})
			case want != nil && (got == nil || got.Outpoint == nil || got.Outpoint.TransactionHash != want.Outpoint.TransactionHash || got.Outpoint.OutputIndex != want.Outpoint.OutputIndex || got.Value != want.Value):
				r.Violation("faults:lookup:wrong-utxo", "after a failed dependency call the lookup returned a main UTXO that is not the registered one", desc, map[string]interface{}{"got": c34DescribeUtxo(got), "want": c34DescribeUtxo(want)})
			}
		}
		// ---- sync check
		if wantErr {
			return
		}
		wantOK := c34RefSynced(w, want)
		count = &c34Fault{}
		r.Guard("faults:sync:", base, func() {
			_ = EnsureWalletSyncedBetweenChains(w.pkh, want, &c34Bridge{w: w, flt: count}, &c34Btc{w: w, calls: map[string]int{}, flt: count})
		})
		for k := 1; k <= count.calls; k++ {
			f := &c34Fault{failAt: k}
			desc := fmt.Sprintf("%s | sync check, dependency call %d fails", base, k)
			var serr error
			if r.Guard("faults:sync:", desc, func() {
				serr = EnsureWalletSyncedBetweenChains(w.pkh, want, &c34Bridge{w: w, flt: f}, &c34Btc{w: w, calls: map[string]int{}, flt: f})
			}) {
				continue
			}
			r.Case(desc, f.failed > 0)
			if serr != nil {
				r.Count("sync_checks_that_gave_up", 1)
				continue
			}
			if f.failed > 0 {
				r.Count("sync_checks_passed_despite_the_failure", 1)
			}
			if !wantOK {
				r.Violation("faults:sync:false-pass", "after a failed dependency call the sync check passed although the wallet has acted on Bitcoin beyond what the Bridge knows", desc,
					map[string]interface{}{"main_utxo": c34DescribeUtxo(want), "world": c34DescribeWorld(w)})
			}
		}
	})
}
