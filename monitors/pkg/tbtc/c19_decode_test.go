//go:build verif

package tbtc

import (
	"crypto/ecdsa"
	"math/big"
	"math/rand"
	"testing"

	"github.com/keep-network/keep-core/internal/verifkit"
	"github.com/keep-network/keep-core/pkg/bitcoin"
	"github.com/keep-network/keep-core/pkg/chain"
	"github.com/keep-network/keep-core/pkg/internal/tecdsatest"
	"github.com/keep-network/keep-core/pkg/tecdsa"
)

func c19Fee(rng *rand.Rand) *big.Int { return c19BigInt(rng, 8) }

func c19Proposal(rng *rand.Rand, kind, i int) CoordinationProposal {
	switch kind {
	case 0:
		return &NoopProposal{}
	case 1:
		p := &HeartbeatProposal{}
		copy(p.Message[:], c19Bytes(rng, 16, 16))
		return p
	case 2:
		p := &DepositSweepProposal{SweepTxFee: c19Fee(rng)}
		for n := c19Size(rng, i, 4); n > 0; n-- {
			var k struct {
				FundingTxHash      bitcoin.Hash
				FundingOutputIndex uint32
			}
			copy(k.FundingTxHash[:], c19Bytes(rng, 32, 32))
			k.FundingOutputIndex = rng.Uint32() >> uint(rng.Intn(32))
			p.DepositsKeys = append(p.DepositsKeys, k)
		}
		for n := c19Size(rng, i, 4); n > 0; n-- {
			p.DepositsRevealBlocks = append(p.DepositsRevealBlocks, big.NewInt(rng.Int63()>>uint(rng.Intn(63))))
		}
		return p
	case 3:
		p := &RedemptionProposal{RedemptionTxFee: c19Fee(rng)}
		for n := c19Size(rng, i, 4); n > 0; n-- {
			p.RedeemersOutputScripts = append(p.RedeemersOutputScripts, bitcoin.Script(c19Bytes(rng, 0, 40)))
		}
		return p
	case 4:
		p := &MovingFundsProposal{MovingFundsTxFee: c19Fee(rng)}
		for n := c19Size(rng, i, 4); n > 0; n-- {
			var w [20]byte
			copy(w[:], c19Bytes(rng, 20, 20))
			p.TargetWallets = append(p.TargetWallets, w)
		}
		return p
	default:
		p := &MovedFundsSweepProposal{MovingFundsTxOutputIndex: rng.Uint32() >> uint(rng.Intn(32)), SweepTxFee: c19Fee(rng)}
		copy(p.MovingFundsTxHash[:], c19Bytes(rng, 32, 32))
		return p
	}
}

func TestVerif_C19_Tbtc(t *testing.T) {
	r := verifkit.Start(t, "C19", "tbtc")
	defer r.Finish()
	if decs := c19TbtcDecoders(r); decs != nil {
		c19Run(r, "tbtc", decs)
	}
}

// TestVerif_C19_TbtcRace decodes coordination messages (every proposal kind),
// deposit sweep proposals and signing-done messages from four goroutines.
func TestVerif_C19_TbtcRace(t *testing.T) {
	r := verifkit.Start(t, "C19", "tbtc-race")
	defer r.Finish()
	decs := c19TbtcDecoders(r)
	if decs == nil {
		return
	}
	var sel []c19Decoder
	for _, d := range decs {
		switch d.Type {
		case "coordinationMessage", "DepositSweepProposal", "signingDoneMessage", "HeartbeatProposal":
			sel = append(sel, d)
		}
	}
	c19RaceRun(r, "tbtc", sel)
}

func c19TbtcDecoders(r *verifkit.Run) []c19Decoder {
	shares, err := tecdsatest.LoadPrivateKeyShareTestFixtures(5)
	if err != nil {
		r.Inconclusive("cannot load key share fixtures: " + err.Error())
		return nil
	}
	const f = "marshaling.go"
	proposal := func(kind int, typ string, skip []string) c19Decoder {
		return c19Decoder{
			Type: typ, File: f, SkipAccessors: skip,
			Gen: func(rng *rand.Rand, i int) c19Codec { return c19Proposal(rng, kind, i).(c19Codec) },
		}
	}
	decs := []c19Decoder{
		{
			Type: "signer", File: f,
			New: func() c19Codec { return &signer{} },
			Gen: func(rng *rand.Rand, i int) c19Codec {
				share := tecdsa.NewPrivateKeyShare(shares[i%len(shares)])
				pub := share.PublicKey()
				if i >= len(shares) && rng.Intn(2) == 0 {
					x, y := tecdsa.Curve.ScalarBaseMult(c19Bytes(rng, 32, 32))
					pub = &ecdsa.PublicKey{Curve: tecdsa.Curve, X: x, Y: y}
				}
				var ops []chain.Address
				for n := c19Size(rng, i, 5); n > 0; n-- {
					ops = append(ops, chain.Address(c19String(rng)))
				}
				return &signer{
					wallet:                  wallet{publicKey: pub, signingGroupOperators: ops},
					signingGroupMemberIndex: c19Index(rng),
					privateKeyShare:         share,
				}
			},
			IndexPaths: []string{"2"},
			Use: func(v c19Codec) {
				s := v.(*signer)
				_ = s.wallet.String()
				_ = s.wallet.groupSize()
				_ = s.wallet.membersByOperator("operator")
				_ = s.privateKeyShare.PublicKey()
				_ = s.privateKeyShare.Data()
			},
		},
		{
			Type: "signingDoneMessage", File: f,
			New: func() c19Codec { return &signingDoneMessage{} },
			Gen: func(rng *rand.Rand, i int) c19Codec {
				return &signingDoneMessage{
					senderID:      c19Index(rng),
					message:       c19BigInt(rng, 32),
					attemptNumber: rng.Uint64() >> uint(rng.Intn(64)),
					signature:     &tecdsa.Signature{R: c19BigInt(rng, 32), S: c19BigInt(rng, 32), RecoveryID: int8(rng.Intn(256) - 128)},
					endBlock:      rng.Uint64() >> uint(rng.Intn(64)),
				}
			},
			IndexPaths: []string{"1"},
			// bytes signature = 4 holds an encoded tecdsa Signature whose int32 recoveryID = 3 is narrowed to int8
			Ranges: []c19Range{{Path: "4!.3", Min: -128, Max: 127, Signed: true}},
		},
		{
			Type: "coordinationMessage", File: f,
			New: func() c19Codec { return &coordinationMessage{} },
			Gen: func(rng *rand.Rand, i int) c19Codec {
				m := &coordinationMessage{
					senderID:          c19Index(rng),
					coordinationBlock: rng.Uint64() >> uint(rng.Intn(64)),
					proposal:          c19Proposal(rng, (i+1)%6, i),
				}
				copy(m.walletPublicKeyHash[:], c19Bytes(rng, 20, 20))
				return m
			},
			IndexPaths: []string{"1"},
			Variants:   6, // Gen cycles through the six proposal kinds
			// uint32 proposal.actionType (4.1) is narrowed to uint8
			Ranges: []c19Range{{Path: "4.1", Min: 0, Max: 255}},
		},
		// ValidityBlocks of the no-op proposal panics by design ("to make
		// sure that the proposal is not processed by the node")
		proposal(0, "NoopProposal", []string{"ValidityBlocks"}),
		proposal(1, "HeartbeatProposal", nil),
		proposal(2, "DepositSweepProposal", nil),
		proposal(3, "RedemptionProposal", nil),
		proposal(4, "MovingFundsProposal", nil),
		proposal(5, "MovedFundsSweepProposal", nil),
	}
	// New() must return an EMPTY value of the proposal type
	decs[3].New = func() c19Codec { return &NoopProposal{} }
	decs[4].New = func() c19Codec { return &HeartbeatProposal{} }
	decs[5].New = func() c19Codec { return &DepositSweepProposal{} }
	decs[6].New = func() c19Codec { return &RedemptionProposal{} }
	decs[7].New = func() c19Codec { return &MovingFundsProposal{} }
	decs[8].New = func() c19Codec { return &MovedFundsSweepProposal{} }
	return decs
}
