//go:build verif

package tbtc

// C37 across an expiry, tBTC deduplicator (see the beacon twin): short
// caching periods, first deliveries, idleness past the period, bursts of
// redeliveries; exactly one handled per burst that fitted inside one period.

import (
	"fmt"
	"math/big"
	"sync"
	"sync/atomic"
	"testing"
	"time"

	"github.com/keep-network/keep-common/pkg/cache"
	"github.com/keep-network/keep-core/internal/verifkit"
)

func TestVerif_C37_TbtcExpiry(t *testing.T) {
	r := verifkit.Start(t, "C37", "tbtc-expiry")
	defer r.Finish()
	const period = 600 * time.Millisecond
	r.SetRule(fmt.Sprintf("a tBTC deduplicator whose three caches have a %v caching period: N events of each kind (DKG started, DKG result submitted, wallet closed) delivered once, idleness past the period, then bursts of 2-6 sequential or parallel redeliveries per event; a burst that completed within a third of the period must have exactly one handled delivery.", period))
	r.Assume("a delivery made after the caching period of an earlier handling has elapsed starts a new period (this is what the unchanged code does)")
	n := r.N(200, 2000)
	d := &deduplicator{
		dkgSeedCache:       cache.NewTimeCache(period),
		dkgResultHashCache: cache.NewTimeCache(period),
		walletClosedCache:  cache.NewTimeCache(period),
	}
	type ev struct {
		kind string
		fn   func() bool
	}
	var evs []ev
	for i := 0; i < n; i++ {
		seed := new(big.Int).Add(new(big.Int).Lsh(big.NewInt(int64(i+1)), 70), big.NewInt(int64(r.Seed())))
		var h DKGChainResultHash
		h[0], h[1], h[31] = byte(i), byte(i>>8), 0x37
		var w [32]byte
		w[0], w[1], w[30] = byte(i), byte(i>>8), 0x73
		blk := uint64(1000 + i)
		evs = append(evs,
			ev{"dkg-started", func() bool { return d.notifyDKGStarted(seed) }},
			ev{"dkg-result-submitted", func() bool { return d.notifyDKGResultSubmitted(seed, h, blk) }},
			ev{"wallet-closed", func() bool { return d.notifyWalletClosed(w) }},
		)
	}
	for i, e := range evs {
		if !e.fn() {
			r.Violation("tbtc-expiry:"+e.kind+":first-delivery-not-handled", "the first delivery of a fresh event was not handled", fmt.Sprintf("event#%d", i), nil)
		}
	}
	time.Sleep(2*period + 100*time.Millisecond)
	var judged, discarded int64
	for i, e := range evs {
		rng := r.SubRand("burst", i)
		k := 2 + rng.Intn(5)
		parallel := rng.Intn(2) == 0
		desc := fmt.Sprintf("%s#%d redeliveries=%d parallel=%v after-expiry", e.kind, i/3, k, parallel)
		var handled int64
		t0 := time.Now()
		if parallel {
			var wg sync.WaitGroup
			start := make(chan struct{})
			for g := 0; g < k; g++ {
				wg.Add(1)
				go func() {
					defer wg.Done()
					<-start
					if e.fn() {
						atomic.AddInt64(&handled, 1)
					}
				}()
			}
			close(start)
			wg.Wait()
		} else {
			for g := 0; g < k; g++ {
				if e.fn() {
					handled++
				}
			}
		}
		if time.Since(t0) > period/3 {
			discarded++
			continue
		}
		judged++
		r.Case(desc, true)
		switch {
		case handled > 1:
			r.Violation("tbtc-expiry:"+e.kind+":handled-more-than-once-within-period", fmt.Sprintf("%d of %d redeliveries made within one caching period were handled", handled, k), desc, nil)
		case handled == 0:
			r.Violation("tbtc-expiry:"+e.kind+":none-handled-after-expiry", "no redelivery was handled although the earlier handling's caching period had elapsed", desc, nil)
		}
	}
	r.Count("bursts_judged", judged)
	r.Count("bursts_discarded_too_slow", discarded)
	if judged == 0 {
		r.Inconclusive("no burst fitted inside the caching period")
	}
}
