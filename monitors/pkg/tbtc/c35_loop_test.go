//go:build verif

package tbtc

// C35 (loop part) — which bound the real retry loop hands to the done check.
//
// The REAL signingRetryLoop.start runs for one member with the REAL
// signingDoneCheck on a real pkg/net/local broadcast channel and real
// membership validation (every seat has its own operator key and its own
// channel handle). Blocks are virtual (the member's own clock, driven by the
// monitor's stubs as in the C11 harness). The monitor plays the other members
// of each attempt: it sends their signingDoneMessage confirmations - valid in
// everything but possibly the end block - with end blocks around the attempt's
// timeout block T.
//
// T is NOT taken from anything the loop passes around. It is computed from
// the documented attempt layout (signing_loop.go: announcement delay 1 block,
// announcement 5 blocks, protocol at most 30 blocks, cool-down 5 blocks):
//     T(n) = start + (n-1)*(1+5+30+5) + 1 + 5 + 30

import (
	"context"
	"fmt"
	"math"
	"math/big"
	"math/rand"
	"runtime"
	"sort"
	"strconv"
	"strings"
	"sync"
	"testing"
	"time"

	"github.com/keep-network/keep-core/internal/testutils"
	"github.com/keep-network/keep-core/internal/verifkit"
	"github.com/keep-network/keep-core/pkg/chain"
	"github.com/keep-network/keep-core/pkg/chain/local_v1"
	"github.com/keep-network/keep-core/pkg/net"
	"github.com/keep-network/keep-core/pkg/net/local"
	"github.com/keep-network/keep-core/pkg/operator"
	"github.com/keep-network/keep-core/pkg/protocol/group"
	"github.com/keep-network/keep-core/pkg/tecdsa"
	"github.com/keep-network/keep-core/pkg/tecdsa/signing"
)

const (
	c35lSeats     = 5
	c35lThreshold = 3
	c35lWatchdog  = 40 * time.Second

	// documented attempt layout (blocks)
	c35lDocDelay    = 1
	c35lDocAnnounce = 5
	c35lDocProtocol = 30
	c35lDocCoolDown = 5
)

func c35lTimeout(start uint64, attempt uint) uint64 {
	return start + uint64(attempt-1)*(c35lDocDelay+c35lDocAnnounce+c35lDocProtocol+c35lDocCoolDown) +
		c35lDocDelay + c35lDocAnnounce + c35lDocProtocol
}

var c35lSig = &tecdsa.Signature{R: big.NewInt(4200), S: big.NewInt(4300), RecoveryID: 1}

// c35lOffer is one confirmation the monitor sends for another member.
type c35lOffer struct {
	Member uint8  `json:"member"`
	Rel    string `json:"end_block_relative_to_T"`
	End    uint64 `json:"end_block"`
}

// c35lAttempt is what happened in one attempt.
type c35lAttempt struct {
	Number       uint        `json:"attempt"`
	T            uint64      `json:"documented_timeout_block"`
	Included     []uint8     `json:"included_members"`
	BoundPassed  uint64      `json:"timeout_bound_handed_to_the_done_check"`
	Executed     bool        `json:"member_under_test_executed"`
	OwnEnd       uint64      `json:"own_end_block,omitempty"`
	ParamTimeout uint64      `json:"attempt_fn_timeout_block,omitempty"`
	Offers       []c35lOffer `json:"confirmations_offered"`
	AllValid     bool        `json:"every_included_member_offered_an_end_block_within_T"`
	Success      bool        `json:"done_check_reported_success"`
	LatestEnd    uint64      `json:"reported_latest_end_block,omitempty"`
	Err          string      `json:"done_check_error,omitempty"`
}

type c35lMember struct {
	r        *verifkit.Run
	idx      uint8
	start    uint64
	clk      *verifkit.Clock
	rngSeed  int64
	channels []net.BroadcastChannel // per seat
	message  *big.Int
	maxAtt   uint

	mainGoid uint64
	cancel   context.CancelFunc
	gwCh     chan uint64
	real     *signingDoneCheck

	mu       sync.Mutex
	attempts []*c35lAttempt
	cur      *c35lAttempt
	curAtt   uint
	timeoutW uint64
	trouble  string
}

func c35lGoid() uint64 {
	var b [64]byte
	n := runtime.Stack(b[:], false)
	f := strings.Fields(string(b[:n]))
	if len(f) < 2 {
		return 0
	}
	id, _ := strconv.ParseUint(f[1], 10, 64)
	return id
}

func c35lRand(seed, k int64) *rand.Rand {
	return rand.New(rand.NewSource(seed*1000003 + k))
}

func (m *c35lMember) fail(what string) {
	m.mu.Lock()
	if m.trouble == "" {
		m.trouble = what
	}
	m.mu.Unlock()
	m.cancel()
}

func (m *c35lMember) waitForBlock(ctx context.Context, b uint64) error {
	if c35lGoid() == m.mainGoid {
		if ctx.Err() == nil && m.clk.Height() < b {
			m.clk.Set(b, false)
		}
		return nil
	}
	m.gwCh <- b
	ch, _ := m.clk.BlockHeightWaiter(b)
	select {
	case <-ch:
	case <-ctx.Done():
	}
	return nil
}

func (m *c35lMember) awaitGW(what string) (uint64, bool) {
	select {
	case b := <-m.gwCh:
		return b, true
	case <-time.After(c35lWatchdog):
		m.fail("no block wait registered before " + what)
		return 0, false
	}
}

// announcer stub: everybody is ready; returns when its context ends
func (m *c35lMember) Announce(ctx context.Context, memberIndex group.MemberIndex, sessionID string) ([]group.MemberIndex, error) {
	k := strings.LastIndex(sessionID, "-")
	a64, _ := strconv.ParseUint(sessionID[k+1:], 10, 64)
	annEnd, ok := m.awaitGW("Announce")
	if !ok {
		return nil, fmt.Errorf("monitor watchdog")
	}
	m.mu.Lock()
	m.curAtt = uint(a64)
	m.mu.Unlock()
	if uint(a64) > m.maxAtt {
		m.cancel()
		return nil, fmt.Errorf("script over")
	}
	if m.clk.Height() < annEnd {
		m.clk.Set(annEnd, false)
	}
	select {
	case <-ctx.Done():
	case <-time.After(c35lWatchdog):
		m.fail("announcement context not cancelled")
	}
	all := make([]group.MemberIndex, c35lSeats)
	for i := range all {
		all[i] = group.MemberIndex(i + 1)
	}
	return all, nil
}

// ---- pass-through proxy around the real done check

func (m *c35lMember) listen(ctx context.Context, message *big.Int, attemptNumber uint64, attemptTimeoutBlock uint64, attemptMembersIndexes []group.MemberIndex) {
	tw, ok := m.awaitGW("done check")
	if !ok {
		return
	}
	a := &c35lAttempt{Number: uint(attemptNumber), T: c35lTimeout(m.start, uint(attemptNumber)), BoundPassed: attemptTimeoutBlock}
	for _, x := range attemptMembersIndexes {
		a.Included = append(a.Included, x)
	}
	m.mu.Lock()
	m.cur = a
	m.timeoutW = tw
	m.attempts = append(m.attempts, a)
	m.mu.Unlock()
	m.real.listen(ctx, message, attemptNumber, attemptTimeoutBlock, attemptMembersIndexes)
}

func (m *c35lMember) signalDone(ctx context.Context, memberIndex group.MemberIndex, message *big.Int, attemptNumber uint64, result *signing.Result, endBlock uint64) error {
	return m.real.signalDone(ctx, memberIndex, message, attemptNumber, result, endBlock)
}

var c35lRels = []struct {
	name  string
	valid bool
	f     func(T uint64) uint64
}{
	{"T-2", true, func(T uint64) uint64 { return T - 2 }},
	{"T-1", true, func(T uint64) uint64 { return T - 1 }},
	{"T", true, func(T uint64) uint64 { return T }},
	{"T-20", true, func(T uint64) uint64 { return T - 20 }},
	{"T+1", false, func(T uint64) uint64 { return T + 1 }},
	{"T+2", false, func(T uint64) uint64 { return T + 2 }},
	{"T+3", false, func(T uint64) uint64 { return T + 3 }},
	{"T+4", false, func(T uint64) uint64 { return T + 4 }},
	{"T+5", false, func(T uint64) uint64 { return T + 5 }},
	{"T+6", false, func(T uint64) uint64 { return T + 6 }},
	{"T+50", false, func(T uint64) uint64 { return T + 50 }},
	{"T+2^40", false, func(T uint64) uint64 { return T + 1<<40 }},
	{"max", false, func(T uint64) uint64 { return math.MaxUint64 }},
}

// own end block of the member under test for the attempt (index into c35lRels)
func (m *c35lMember) ownRel(att uint) int {
	rng := c35lRand(m.rngSeed, int64(att)*7+1)
	if rng.Intn(5) == 0 {
		return 4 + rng.Intn(3) // finished the protocol just too late
	}
	return rng.Intn(4)
}

func (m *c35lMember) waitUntilAllDone(ctx context.Context) (*signing.Result, uint64, error) {
	m.mu.Lock()
	a := m.cur
	tw := m.timeoutW
	m.mu.Unlock()
	rng := c35lRand(m.rngSeed, int64(a.Number))
	// what the other included members send. mode per member:
	// 0 one valid, 1 one beyond T, 2 beyond T then valid (repair), 3 silent
	sendCtx, cancelSend := context.WithCancel(context.Background())
	cancelSend() // sent once, no retransmissions
	allValid := true
	// an attempt in which everybody is valid every now and then, so that
	// successes are seen too
	everybodyValid := rng.Intn(3) == 0
	for _, seat := range a.Included {
		if seat == m.idx {
			if !a.Executed || a.OwnEnd > a.T {
				allValid = false
			}
			continue
		}
		mode := []int{0, 0, 1, 1, 2, 3}[rng.Intn(6)]
		if everybodyValid {
			mode = 0
		}
		var rels []int
		switch mode {
		case 0:
			rels = []int{rng.Intn(4)}
		case 1:
			rels = []int{4 + rng.Intn(len(c35lRels)-4)}
			allValid = false
		case 2:
			rels = []int{4 + rng.Intn(len(c35lRels)-4), rng.Intn(4)}
		case 3:
			allValid = false
		}
		for _, ri := range rels {
			end := c35lRels[ri].f(a.T)
			msg := &signingDoneMessage{senderID: seat, message: m.message, attemptNumber: uint64(a.Number), signature: c35lSig, endBlock: end}
			if err := m.channels[seat-1].Send(sendCtx, msg); err != nil {
				m.fail("send failed: " + err.Error())
			}
			m.mu.Lock()
			a.Offers = append(a.Offers, c35lOffer{seat, c35lRels[ri].name, end})
			m.mu.Unlock()
		}
	}
	m.mu.Lock()
	a.AllValid = allValid
	m.mu.Unlock()

	type out struct {
		res *signing.Result
		end uint64
		err error
	}
	resCh := make(chan out, 1)
	go func() {
		res, end, err := m.real.waitUntilAllDone(ctx)
		resCh <- out{res, end, err}
	}()
	// how long to look before the member's chain reaches the timeout block:
	// only decides coverage, never a verdict
	budget := 4*signingDoneCheckInterval + 50*time.Millisecond
	if allValid {
		budget = 4 * time.Second
	}
	var o out
	select {
	case o = <-resCh:
	case <-time.After(budget):
		if m.clk.Height() < tw {
			m.clk.Set(tw, false)
		}
		select {
		case o = <-resCh:
		case <-time.After(c35lWatchdog):
			m.fail("the done check does not give up although its timeout block has passed")
			return nil, 0, fmt.Errorf("monitor watchdog")
		}
	}
	m.mu.Lock()
	if o.err != nil {
		a.Err = o.err.Error()
	} else {
		a.Success, a.LatestEnd = true, o.end
	}
	m.mu.Unlock()
	return o.res, o.end, o.err
}

func TestVerif_C35_LoopDoneBound(t *testing.T) {
	r := verifkit.Start(t, "C35", "loopbound")
	defer r.Finish()
	r.SetRule("real signingRetryLoop.start + real signingDoneCheck on real local broadcast channels (5 seats, own operator key each, threshold 3) on a virtual chain; start blocks {0,1,899,1e6,2^40,random}, up to 4 attempts per run; the monitor sends the other included members' confirmations with end blocks T-20,T-2,T-1,T (valid) and T+1..T+6,T+50,T+2^40,max (beyond the documented timeout block T of the attempt), alone, or beyond-then-valid, or not at all; the member's own attempt ends within T or just after it. non-trivial = the run offered >= 1 confirmation beyond T and saw >= 1 attempt outcome")
	lc := Connect()
	sg := lc.Signing()
	nCases := r.N(96, 3000)
	var cmu sync.Mutex
	var beyond, succ, unsucc, lost, movedOn int64
	verifkit.Parallel(nCases, 16, func(ci int) {
		rng := r.SubRand("case", ci)
		var S uint64
		switch rng.Intn(6) {
		case 0:
			S = 0
		case 1:
			S = 1
		case 2:
			S = 899
		case 3:
			S = 1000000
		case 4:
			S = 1 << 40
		default:
			S = uint64(rng.Int63n(1 << 41))
		}
		name := fmt.Sprintf("c35l-%d-%d", r.Seed(), ci)
		channels := make([]net.BroadcastChannel, c35lSeats)
		operators := make(chain.Addresses, c35lSeats)
		for i := 0; i < c35lSeats; i++ {
			_, pub, err := operator.GenerateKeyPair(local_v1.DefaultCurve)
			if err != nil {
				r.Inconclusive("key generation: " + err.Error())
				return
			}
			ch, err := local.ConnectWithKey(pub).BroadcastChannelFor(name)
			if err != nil {
				r.Inconclusive("channel: " + err.Error())
				return
			}
			ch.SetUnmarshaler(func() net.TaggedUnmarshaler { return &signingDoneMessage{} })
			channels[i] = ch
			addr, err := sg.PublicKeyToAddress(pub)
			if err != nil {
				r.Inconclusive("address: " + err.Error())
				return
			}
			operators[i] = addr
		}
		mb := make([]byte, 8+rng.Intn(24))
		rng.Read(mb)
		msg := new(big.Int).SetBytes(mb)
		m := &c35lMember{r: r, idx: uint8(1 + rng.Intn(c35lSeats)), start: S, clk: verifkit.NewClock(S), rngSeed: rng.Int63(),
			channels: channels, message: msg, maxAtt: uint(2 + rng.Intn(3)), gwCh: make(chan uint64, 256)}
		validator := group.NewMembershipValidator(&testutils.MockLogger{}, operators, sg)
		m.real = newSigningDoneCheck(c35lSeats, channels[m.idx-1], validator)
		gp := &GroupParameters{GroupSize: c35lSeats, GroupQuorum: 4, HonestThreshold: c35lThreshold}
		desc := fmt.Sprintf("start=%d member=%d attempts<=%d msg=%s script=%d", S, m.idx, m.maxAtt, msg.Text(16), m.rngSeed)

		ctx, cancel := context.WithCancel(context.Background())
		m.cancel = cancel
		defer cancel()
		var res *signingRetryLoopResult
		returned, panicked := r.Within(4*c35lWatchdog, "loopbound:", desc, func() {
			m.mainGoid = c35lGoid()
			l := newSigningRetryLoop(&testutils.MockLogger{}, msg, S, group.MemberIndex(m.idx), operators, gp, m, m)
			res, _ = l.start(ctx, m.waitForBlock, func() (uint64, error) { return m.clk.Height(), nil },
				func(p *signingAttemptParams) (*signing.Result, uint64, error) {
					m.mu.Lock()
					a := m.cur
					m.mu.Unlock()
					T := c35lTimeout(S, p.number)
					own := c35lRels[m.ownRel(p.number)].f(T)
					if own > m.clk.Height() && own <= T+6 {
						m.clk.Set(own, false) // the protocol took until then
					}
					m.mu.Lock()
					if a != nil && a.Number == p.number {
						a.Executed, a.OwnEnd, a.ParamTimeout = true, own, p.timeoutBlock
					}
					m.mu.Unlock()
					return &signing.Result{Signature: c35lSig}, own, nil
				})
		})
		cancel()
		m.mu.Lock()
		trouble := m.trouble
		attempts := m.attempts
		m.mu.Unlock()
		if panicked {
			return
		}
		if !returned || trouble != "" {
			r.Inconclusive(fmt.Sprintf("loop did not make progress (%s): %s", trouble, desc))
			return
		}
		var lb, ls, lu, ll, lm int64
		for i, a := range attempts {
			for _, o := range a.Offers {
				if o.End > a.T {
					lb++
				}
			}
			if a.Executed && a.OwnEnd > a.T {
				lb++
			}
			if a.Success {
				ls++
			} else {
				lu++
				if a.AllValid {
					ll++
				}
				if i+1 < len(attempts) {
					lm++
				}
			}
		}
		r.Case(desc, lb > 0 && len(attempts) > 0)
		cmu.Lock()
		beyond += lb
		succ += ls
		unsucc += lu
		lost += ll
		movedOn += lm
		cmu.Unlock()
		if ci < 3 && len(attempts) > 0 {
			r.Sample(map[string]interface{}{"start": S, "member": m.idx, "attempts": attempts})
		}
		// ------------------------------------------------------------ oracle
		for _, a := range attempts {
			adesc := fmt.Sprintf("%s @attempt=%d", desc, a.Number)
			if a.Executed && a.ParamTimeout != a.T {
				r.Inconclusive(fmt.Sprintf("the attempt function was given timeout block %d, the documented layout gives %d (window arithmetic is C11's subject): %s", a.ParamTimeout, a.T, adesc))
				return
			}
			if !a.Success {
				continue
			}
			wit := map[string]interface{}{"attempt": a}
			// every included member must have offered a confirmation within T
			valid := map[uint8][]uint64{}
			for _, o := range a.Offers {
				if o.End <= a.T {
					valid[o.Member] = append(valid[o.Member], o.End)
				}
			}
			if a.Executed && a.OwnEnd <= a.T {
				valid[m.idx] = append(valid[m.idx], a.OwnEnd)
			}
			var missing []uint8
			var maxValid uint64
			for _, seat := range a.Included {
				v := valid[seat]
				if len(v) == 0 {
					missing = append(missing, seat)
					continue
				}
				sort.Slice(v, func(i, j int) bool { return v[i] < v[j] })
				if v[0] > maxValid { // one valid confirmation per member is offered at most
					maxValid = v[0]
				}
			}
			if len(missing) > 0 {
				r.Violation("loopbound:success-without-valid-confirmation", fmt.Sprintf("the loop's done check reported success for attempt %d (timeout block %d) although member(s) %v only confirmed with an end block beyond the timeout block (or not at all)", a.Number, a.T, missing), adesc, wit)
			}
			if a.LatestEnd > a.T {
				r.Violation("loopbound:latest-end-block-beyond-timeout", fmt.Sprintf("the reported latest end block %d lies beyond the timeout block %d of attempt %d", a.LatestEnd, a.T, a.Number), adesc, wit)
			} else if len(missing) == 0 && a.LatestEnd != maxValid {
				r.Violation("loopbound:latest-end-block-not-the-maximum", fmt.Sprintf("the reported latest end block %d is not the maximum %d of the accepted confirmations", a.LatestEnd, maxValid), adesc, wit)
			}
		}
		// the loop result itself
		if res != nil && len(attempts) > 0 {
			last := attempts[len(attempts)-1]
			if !last.Success {
				r.Violation("loopbound:result-without-done", "the retry loop returned a result although its done check did not report success in the last attempt", desc, map[string]interface{}{"attempt": last})
			} else if res.latestEndBlock != last.LatestEnd || res.latestEndBlock > last.T {
				r.Violation("loopbound:latest-end-block-beyond-timeout", fmt.Sprintf("the loop result carries latest end block %d; done check reported %d; timeout block of the attempt is %d", res.latestEndBlock, last.LatestEnd, last.T), desc, map[string]interface{}{"attempt": last})
			}
		}
	})
	r.Count("confirmations_beyond_timeout_offered", beyond)
	r.Count("attempts_done_successfully", succ)
	r.Count("attempts_not_done", unsucc)
	r.Count("attempts_not_done_although_all_valid", lost)
	r.Count("attempts_not_done_then_loop_moved_on", movedOn)
}
