//go:build verif

package tbtc

import (
	"context"
	"crypto/sha256"
	"encoding/binary"
	"fmt"
	"math/big"
	"math/rand"
	"sync"
	"sync/atomic"
	"testing"
	"time"

	"github.com/keep-network/keep-core/internal/testutils"
	"github.com/keep-network/keep-core/internal/verifkit"
	"github.com/keep-network/keep-core/pkg/chain"
	"github.com/keep-network/keep-core/pkg/chain/local_v1"
	"github.com/keep-network/keep-core/pkg/net"
	"github.com/keep-network/keep-core/pkg/net/local"
	"github.com/keep-network/keep-core/pkg/operator"
	"github.com/keep-network/keep-core/pkg/protocol/group"
	"github.com/keep-network/keep-core/pkg/tecdsa"
	"github.com/keep-network/keep-core/pkg/tecdsa/signing"
)

const (
	c35Seats     = 5
	c35Operators = 5 // group operators; index 5 is an operator outside the group
)

// ---------------------------------------------------------------- history script

type c35Send struct {
	Op       int    `json:"op"`             // operator key the message is sent with (5 = outsider)
	Claimed  int    `json:"id"`             // claimed sender seat, 1-based
	WrongMsg bool   `json:"wm,omitempty"`   // other message
	WrongAtt bool   `json:"wa,omitempty"`   // other attempt number
	Sig      int    `json:"sig"`            // 0 the signature, 1 a different one
	End      uint64 `json:"end"`            // end block
	Phase    int    `json:"ph"`             // 0 before the check starts, 1 as it starts, 2 about one tick later
	Self     bool   `json:"self,omitempty"` // the checking member's own confirmation, through the real signalDone
	Note     string `json:"n,omitempty"`

	call int64 // stamp taken before Send (oracle pass only)
}

type c35History struct {
	SeatOp   [c35Seats]int `json:"seat_op"`  // operator owning each seat
	Included []int         `json:"included"` // seats (1-based) included in the attempt
	Checker  int           `json:"checker"`  // seat (1-based) of the member running the check
	Timeout  uint64        `json:"timeout"`
	Attempt  uint64        `json:"attempt"`
	Sends    []c35Send     `json:"sends"`
}

func (h *c35History) included(seat int) bool {
	for _, s := range h.Included {
		if s == seat {
			return true
		}
	}
	return false
}

// valid is the property's notion of a confirmation for this message and
// attempt: sent by the operator owning the claimed seat, same message, same
// attempt, end block within the attempt timeout.
func (h *c35History) valid(s *c35Send) bool {
	if s.Claimed < 1 || s.Claimed > c35Seats || s.Op >= c35Operators {
		return false
	}
	return h.SeatOp[s.Claimed-1] == s.Op && !s.WrongMsg && !s.WrongAtt && s.End <= h.Timeout
}

func c35GenHistory(rng *rand.Rand) *c35History {
	h := &c35History{Timeout: 1000 + uint64(rng.Intn(3))*500, Attempt: 1 + uint64(rng.Intn(4))}
	if rng.Intn(10) < 6 {
		h.SeatOp = [c35Seats]int{0, 1, 2, 3, 4}
	} else {
		for i := range h.SeatOp {
			h.SeatOp[i] = rng.Intn(c35Operators)
		}
	}
	perm := rng.Perm(c35Seats)
	h.Included = []int{perm[0] + 1, perm[1] + 1, perm[2] + 1}
	h.Checker = 1 + rng.Intn(c35Seats)
	goodEnd := func() uint64 {
		if rng.Intn(5) == 0 {
			return h.Timeout
		}
		return h.Timeout - 1 - uint64(rng.Intn(400))
	}
	phase := func() int { return rng.Intn(3) }
	otherOp := func(op int) int { return (op + 1 + rng.Intn(c35Operators-1)) % c35Operators }

	// how the excluded members behave in this history
	exclMode := rng.Intn(10) // <5 silent, <9 some confirm validly, 9 invalid noise
	missing := 0
	for seat := 1; seat <= c35Seats; seat++ {
		op := h.SeatOp[seat-1]
		if h.included(seat) {
			x := rng.Intn(100)
			s := c35Send{Op: op, Claimed: seat, End: goodEnd(), Phase: phase()}
			switch {
			case x < 72:
				s.Note = "valid"
			case x < 80:
				missing++
				continue // silent
			case x < 84:
				s.End, s.Note = h.Timeout+1+uint64(rng.Intn(50)), "late-end-block"
			case x < 88:
				s.WrongAtt, s.Note = true, "wrong-attempt"
			case x < 91:
				s.WrongMsg, s.Note = true, "wrong-message"
			case x < 96:
				s.Sig, s.Note = 1, "other-signature"
			default:
				s.Op, s.Note = otherOp(op), "sent-by-other-operator"
				if rng.Intn(3) == 0 {
					s.Op = c35Operators
				}
			}
			h.Sends = append(h.Sends, s)
			continue
		}
		// excluded seat
		confirm := false
		switch {
		case exclMode < 5:
		case exclMode < 9:
			confirm = rng.Intn(2) == 0 || missing > 0
		default:
			if rng.Intn(2) == 0 {
				h.Sends = append(h.Sends, c35Send{Op: op, Claimed: seat, End: h.Timeout + 5, Phase: phase(), Note: "excluded-late"})
			}
		}
		if confirm {
			s := c35Send{Op: op, Claimed: seat, End: goodEnd(), Phase: phase(), Note: "excluded-valid"}
			if rng.Intn(4) == 0 {
				s.End = h.Timeout // the largest admissible end block
			}
			if rng.Intn(8) == 0 {
				s.Sig = 1
			}
			h.Sends = append(h.Sends, s)
		}
	}
	// duplicates of existing sends with a changed end block or signature
	if len(h.Sends) > 0 && rng.Intn(10) < 3 {
		for k := 0; k < 1+rng.Intn(2); k++ {
			d := h.Sends[rng.Intn(len(h.Sends))]
			d.Note = "duplicate-of-" + d.Note
			switch rng.Intn(3) {
			case 0:
				d.End = goodEnd()
			case 1:
				d.Sig = 1 - d.Sig
			}
			d.Phase = phase()
			h.Sends = append(h.Sends, d)
		}
	}
	// a resend that repairs an invalid one
	if rng.Intn(10) < 2 {
		for _, s := range h.Sends {
			if !h.valid(&s) && h.included(s.Claimed) {
				fix := c35Send{Op: h.SeatOp[s.Claimed-1], Claimed: s.Claimed, End: goodEnd(), Phase: 2, Note: "valid-resend"}
				h.Sends = append(h.Sends, fix)
				break
			}
		}
	}
	// an operator outside the group claiming a seat
	if rng.Intn(10) == 0 {
		h.Sends = append(h.Sends, c35Send{Op: c35Operators, Claimed: 1 + rng.Intn(c35Seats), End: goodEnd(), Phase: phase(), Note: "outsider"})
	}
	rng.Shuffle(len(h.Sends), func(i, j int) { h.Sends[i], h.Sends[j] = h.Sends[j], h.Sends[i] })
	// the checking member's own first confirmation goes through signalDone
	for i := range h.Sends {
		s := &h.Sends[i]
		if s.Claimed == h.Checker && s.Op == h.SeatOp[h.Checker-1] && h.included(h.Checker) && s.Phase < 2 {
			s.Self = true
			break
		}
	}
	return h
}

func (h *c35History) nontrivial() bool {
	seen := map[int]bool{}
	for i := range h.Sends {
		s := &h.Sends[i]
		if !h.included(s.Claimed) || s.Op >= c35Operators || h.SeatOp[s.Claimed-1] != s.Op {
			return true // non-included sender
		}
		if seen[s.Claimed] {
			return true // duplicate
		}
		seen[s.Claimed] = true
		if s.Sig != 0 || s.WrongAtt || s.WrongMsg || s.End > h.Timeout {
			return true // mismatch or late end block
		}
	}
	return false
}

// ---------------------------------------------------------------- network slots

type c35Slot struct {
	idx      int
	channels [c35Operators + 1]net.BroadcastChannel
	addrs    [c35Operators + 1]chain.Address
	signing  chain.Signing
	runs     int
}

func c35NewSlot(part string, idx int, signing chain.Signing) *c35Slot {
	sl := &c35Slot{idx: idx, signing: signing}
	name := fmt.Sprintf("c35-%s-%d", part, idx)
	for i := range sl.channels {
		_, pub, err := operator.GenerateKeyPair(local_v1.DefaultCurve)
		if err != nil {
			panic(err)
		}
		ch, err := local.ConnectWithKey(pub).BroadcastChannelFor(name)
		if err != nil {
			panic(err)
		}
		ch.SetUnmarshaler(func() net.TaggedUnmarshaler { return &signingDoneMessage{} })
		sl.channels[i] = ch
		addr, err := signing.PublicKeyToAddress(pub)
		if err != nil {
			panic(err)
		}
		sl.addrs[i] = addr
	}
	return sl
}

var c35Sigs = [2]*tecdsa.Signature{
	{R: big.NewInt(200), S: big.NewInt(300), RecoveryID: 2},
	{R: big.NewInt(201), S: big.NewInt(300), RecoveryID: 2},
}

type c35Outcome struct {
	returned bool
	sig      int // index into c35Sigs, -1 unknown
	endBlock uint64
	err      string
	ret      int64 // stamp after waitUntilAllDone returned
}

// c35Execute runs one history against a fresh signingDoneCheck on the slot's
// real local broadcast channel.
func c35Execute(r *verifkit.Run, sl *c35Slot, h *c35History, desc string, stamped bool, seq *int64) (out c35Outcome, ok bool) {
	stamp := func() int64 {
		if !stamped {
			return 0
		}
		return atomic.AddInt64(seq, 1)
	}
	sl.runs++
	message := big.NewInt(int64(1000000*(sl.idx+1) + sl.runs)) // unique per execution on this channel
	operators := make([]chain.Address, c35Seats)
	for i := range operators {
		operators[i] = sl.addrs[h.SeatOp[i]]
	}
	validator := group.NewMembershipValidator(&testutils.MockLogger{}, operators, sl.signing)
	checkerOp := h.SeatOp[h.Checker-1]
	sdc := newSigningDoneCheck(c35Seats, sl.channels[checkerOp], validator)
	included := make([]group.MemberIndex, len(h.Included))
	for i, s := range h.Included {
		included[i] = group.MemberIndex(s)
	}

	ctx, cancel := context.WithCancel(context.Background())
	defer cancel()
	sendCtx, cancelSend := context.WithCancel(context.Background())
	cancelSend() // injected messages are sent once, without retransmissions

	send := func(s *c35Send) {
		m := &signingDoneMessage{
			senderID:      group.MemberIndex(s.Claimed),
			message:       message,
			attemptNumber: h.Attempt,
			signature:     c35Sigs[s.Sig],
			endBlock:      s.End,
		}
		if s.WrongMsg {
			m.message = new(big.Int).Add(message, big.NewInt(500000))
		}
		if s.WrongAtt {
			m.attemptNumber = h.Attempt + 1
		}
		s.call = stamp()
		if err := sl.channels[s.Op].Send(sendCtx, m); err != nil {
			panic(fmt.Sprintf("send failed: %v", err))
		}
	}

	waitStarting := make(chan struct{})
	resCh := make(chan c35Outcome, 1)
	var senders sync.WaitGroup
	var self *c35Send
	var byPhase [3][]*c35Send
	for i := range h.Sends {
		s := &h.Sends[i]
		if s.Self {
			self = s
			continue
		}
		byPhase[s.Phase] = append(byPhase[s.Phase], s)
	}

	panicked := r.Guard("done:", desc, func() {
		sdc.listen(ctx, message, h.Attempt, h.Timeout, included)
		// phase 0: in script order, before the check starts
		for _, s := range byPhase[0] {
			send(s)
		}
		// phases 1 and 2: one goroutine per message, concurrent with the check
		for ph := 1; ph <= 2; ph++ {
			for _, s := range byPhase[ph] {
				senders.Add(1)
				go func(s *c35Send, ph int) {
					defer senders.Done()
					<-waitStarting
					if ph == 2 {
						time.Sleep(signingDoneCheckInterval + 30*time.Millisecond)
					}
					send(s)
				}(s, ph)
			}
		}
		go func() {
			// the checking member: own confirmation (if any), then the wait —
			// the order signing_loop.go uses
			var o c35Outcome
			if r.Guard("done:", desc, func() {
				if self != nil {
					m, att := message, h.Attempt
					if self.WrongMsg {
						m = new(big.Int).Add(message, big.NewInt(500000))
					}
					if self.WrongAtt {
						att = h.Attempt + 1
					}
					self.call = stamp()
					err := sdc.signalDone(ctx, group.MemberIndex(h.Checker), m, att,
						&signing.Result{Signature: c35Sigs[self.Sig]}, self.End)
					if err != nil {
						panic(fmt.Sprintf("signalDone failed: %v", err))
					}
				}
				close(waitStarting)
				res, end, err := sdc.waitUntilAllDone(ctx)
				o.ret = stamp()
				if err != nil {
					o.err = err.Error()
					return
				}
				o.returned, o.endBlock, o.sig = true, end, -1
				for i, sg := range c35Sigs {
					if res != nil && sg.Equals(res.Signature) {
						o.sig = i
					}
				}
			}) {
				o.err = "panic"
			}
			resCh <- o
		}()
	})
	if panicked {
		return out, false
	}
	senders.Wait()
	// budget for the result: generous when every included member sent a valid
	// confirmation, a few ticks otherwise. Only decides how long we look.
	budget := 3*signingDoneCheckInterval + 50*time.Millisecond
	all := true
	for _, seat := range h.Included {
		found := false
		for i := range h.Sends {
			if h.Sends[i].Claimed == seat && h.valid(&h.Sends[i]) {
				found = true
			}
		}
		all = all && found
	}
	if all {
		budget = 1500 * time.Millisecond
	}
	select {
	case out = <-resCh:
	case <-time.After(budget):
		cancel()
		out = <-resCh
	}
	return out, true
}

// c35Judge applies the property to a returned result.
func c35Judge(r *verifkit.Run, h *c35History, out c35Outcome, desc string, stamped bool) {
	if !out.returned {
		return
	}
	wit := map[string]interface{}{"returned_signature": out.sig, "returned_end_block": out.endBlock, "history": h}
	if out.sig < 0 {
		r.Violation("done:unknown-signature", "the reported signature is none of the confirmed ones", desc, wit)
		return
	}
	before := func(s *c35Send) bool { return !stamped || s.call < out.ret }
	exclValid := false
	for i := range h.Sends {
		s := &h.Sends[i]
		if h.valid(s) && !h.included(s.Claimed) && before(s) {
			exclValid = true
		}
	}
	// per included member: end blocks of its valid confirmations with the
	// reported signature that were sent before the result came back
	type cand struct{ ends []uint64 }
	cands := map[int]*cand{}
	for _, seat := range h.Included {
		c := &cand{}
		for i := range h.Sends {
			s := &h.Sends[i]
			if s.Claimed == seat && h.valid(s) && s.Sig == out.sig && before(s) {
				c.ends = append(c.ends, s.End)
			}
		}
		cands[seat] = c
		if len(c.ends) == 0 {
			wit["member_without_confirmation"] = seat
			if exclValid {
				r.Violation("done:excluded-confirmation-counted",
					fmt.Sprintf("a signature was reported although included member %d had not confirmed it, while a valid confirmation from a member excluded from the attempt was present (such confirmations must not count toward the total)", seat),
					desc, wit)
			} else {
				r.Violation("done:result-without-every-included-confirmation",
					fmt.Sprintf("a signature was reported although included member %d had sent no valid confirmation of it", seat),
					desc, wit)
			}
			return
		}
	}
	// reported end block == max over included members for some choice of one
	// confirmation per member
	okEnd := false
	for _, seat := range h.Included {
		for _, e := range cands[seat].ends {
			if e != out.endBlock {
				continue
			}
			feasible := true
			for _, other := range h.Included {
				if other == seat {
					continue
				}
				min := cands[other].ends[0]
				for _, x := range cands[other].ends {
					if x < min {
						min = x
					}
				}
				if min > e {
					feasible = false
				}
			}
			okEnd = okEnd || feasible
		}
	}
	if !okEnd {
		if exclValid {
			// same class as above: the result was computed from a set that
			// contains an excluded member's confirmation (an included
			// member's confirmation was still in flight)
			r.Violation("done:excluded-confirmation-counted",
				fmt.Sprintf("reported end block %d is not the latest end block of the included members' confirmations; a confirmation from a member excluded from the attempt was present when the result was computed", out.endBlock),
				desc, wit)
		} else {
			r.Violation("done:end-block-not-latest-of-included",
				fmt.Sprintf("reported end block %d is not the latest end block of the included members' confirmations", out.endBlock),
				desc, wit)
		}
	}
}

func c35Workload(t *testing.T, part string, stamped bool, repsQuick, repsThorough int) {
	r := verifkit.Start(t, "C35", part)
	defer r.Finish()
	r.SetRule("PRNG histories for a 5-seat group with 3 included seats (seats owned by distinct or shared operators, checker included or excluded): per included seat valid / silent / late end block / wrong attempt / wrong message / other signature / sent by another operator; excluded seats silent, confirming validly or with noise; duplicates, repairing resends, outsiders; each message before the check, as it starts, or one tick later from its own goroutine over the real local broadcast channel; non-trivial = history with >= 1 non-included sender, duplicate, mismatch or late end block")
	r.Assume("validity of a confirmation is decided by the monitor from the script (seat ownership, message, attempt, end block <= timeout); 'confirmed before the result' = send call stamp < return stamp (oracle pass) or sent at all (race pass); how long the monitor waits for a result is wall-clock but only a returned result is ever judged")
	n := r.N(300, 10000)
	reps := r.N(repsQuick, repsThorough)
	const nSlots = 32
	lc := Connect()
	slots := make(chan *c35Slot, nSlots)
	for i := 0; i < nSlots; i++ {
		slots <- c35NewSlot(part, i, lc.Signing())
	}
	var seq int64
	for rep := 0; rep < reps; rep++ {
		verifkit.Parallel(n, nSlots, func(i int) {
			h := c35GenHistory(c35Rand(r, i))
			desc := verifkit.JSON(h)
			if rp := r.Replay(); rp != "" && rp != desc {
				return
			}
			sl := <-slots
			out, ok := c35Execute(r, sl, h, desc, stamped, &seq)
			slots <- sl
			if !ok {
				return
			}
			r.Case(desc, h.nontrivial())
			switch {
			case out.returned:
				r.Count("results_reported", 1)
			case out.err == errWaitDoneTimedOut.Error():
				r.Count("no_result_before_monitor_gave_up", 1)
			default:
				r.Count("error_results", 1)
			}
			c35Judge(r, h, out, desc, stamped)
			if rep == 0 && i%(n/3+1) == 0 {
				r.Sample(map[string]interface{}{"history": h, "returned": out.returned, "end_block": out.endBlock, "error": out.err})
			}
		})
	}
}

// Oracle pass (stamped sends / return).
func TestVerif_C35_Done(t *testing.T) {
	c35Workload(t, "done", true, 1, 1)
}

// Race pass: same histories, no stamps, repeated; the detector watches
// signing_done.go.
func TestVerif_C35_DoneRace(t *testing.T) {
	c35Workload(t, "done-race", false, 3, 10)
}

// c35Rand derives the case PRNG from the seed and the case index only (not from
// the monitor's part name), so the oracle pass and the race pass run the same
// workload.
func c35Rand(r *verifkit.Run, i int) *rand.Rand {
	h := sha256.Sum256([]byte(fmt.Sprintf("%d|C35|history|%d", r.Seed(), i)))
	return rand.New(rand.NewSource(int64(binary.LittleEndian.Uint64(h[:8]))))
}
