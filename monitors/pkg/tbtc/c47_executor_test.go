//go:build verif

package tbtc

// C47 one level up for inactivity claims: the real inactivityClaimExecutor
// (claimInactivity), whose own InactivityClaimed handler decides whether the
// members that still wait for their slots stop. The slot part drives the
// submitter with the handler written out in the monitor; this part leaves the
// production handler in place.

import (
	"context"
	"fmt"
	"math/big"
	"sync"
	"sync/atomic"
	"testing"
	"time"

	"github.com/keep-network/keep-core/internal/verifkit"
	"github.com/keep-network/keep-core/pkg/protocol/group"
)

type c47xAttempt struct {
	StartSeq  int64  `json:"start_seq"`
	ReturnSeq int64  `json:"return_seq"`
	Block     uint64 `json:"block"`
	Nonce     uint64 `json:"nonce"`
	Err       string `json:"err"`
}

// c47xChain records every submission attempt. The transaction takes one block
// to land (as on a real chain), so the members of the later slots are already
// waiting when the first claim lands.
type c47xChain struct {
	*localChain
	seq      int64
	mu       sync.Mutex
	attempts []*c47xAttempt
}

func (c *c47xChain) SubmitInactivityClaim(claim *InactivityClaim, nonce *big.Int, groupMembers []uint32) error {
	bc, _ := c.localChain.BlockCounter()
	blk, _ := bc.CurrentBlock()
	a := &c47xAttempt{StartSeq: atomic.AddInt64(&c.seq, 1), Block: blk, Nonce: nonce.Uint64()}
	c.mu.Lock()
	c.attempts = append(c.attempts, a)
	c.mu.Unlock()
	_ = bc.WaitForBlockHeight(blk + 1)
	err := c.localChain.SubmitInactivityClaim(claim, nonce, groupMembers)
	c.mu.Lock()
	a.ReturnSeq = atomic.AddInt64(&c.seq, 1)
	if err != nil {
		a.Err = err.Error()
	}
	c.mu.Unlock()
	return err
}

func TestVerif_C47_TbtcInactivityExecutor(t *testing.T) {
	r := verifkit.Start(t, "C47", "tbtc-inactivity-executor")
	defer r.Finish()
	r.SetRule("the real inactivityClaimExecutor.claimInactivity of a node controlling all 5 members of a wallet (repository fixture), production InactivityClaimed handler in place, on the local chain whose handlers run synchronously inside the submission; every submission attempt is recorded with a sequence number. Once a claim has landed and the call has returned (so every member's handler has run), no member may start another submission: two or more attempts that started after the first success returned, each at least one slot step of blocks after it, are a violation (a single one is only counted: it can be the unavoidable race between a member's last context check and its call). non-trivial = the first claim landed while other members were in the submission stage")
	runs := r.N(2, 10)
	for i := 0; i < runs; i++ {
		executor, walletID, lc := setupInactivityClaimExecutorScenario(t)
		rc := &c47xChain{localChain: lc}
		executor.chain = rc
		ctx, cancel := context.WithTimeout(context.Background(), 120*time.Second)
		var err error
		desc := fmt.Sprintf("executor run %d", i)
		returned, panicked := r.Within(150*time.Second, "executor:", desc, func() {
			err = executor.claimInactivity(ctx, []group.MemberIndex{1, 4}, true, big.NewInt(int64(100+i)))
		})
		cancel()
		if panicked {
			r.Case(desc, true)
			continue
		}
		if !returned {
			r.Inconclusive("claimInactivity did not return within the watchdog")
			return
		}
		rc.mu.Lock()
		attempts := make([]c47xAttempt, len(rc.attempts))
		for k, a := range rc.attempts {
			attempts[k] = *a
		}
		rc.mu.Unlock()
		var first *c47xAttempt
		for k := range attempts {
			if attempts[k].Err == "" && attempts[k].ReturnSeq != 0 && (first == nil || attempts[k].ReturnSeq < first.ReturnSeq) {
				first = &attempts[k]
			}
		}
		if err != nil || first == nil {
			r.Inconclusive(fmt.Sprintf("run %d: no claim landed (err %v, %d attempts)", i, err, len(attempts)))
			continue
		}
		nonce, _ := lc.GetInactivityClaimNonce(walletID)
		late, lateOneStep := 0, 0
		for k := range attempts {
			a := &attempts[k]
			if a == first || a.StartSeq < first.ReturnSeq {
				continue
			}
			late++
			if a.Block >= first.Block+1+inactivityClaimSubmissionDelayStepBlocks {
				lateOneStep++
			}
		}
		r.Case(desc, len(attempts) >= 1)
		r.Count("executor_runs", 1)
		r.Count("attempts", int64(len(attempts)))
		r.Count("attempts_started_after_first_success_returned", int64(late))
		if nonce == nil || nonce.Uint64() != 1 {
			r.Violation("executor:nonce-not-advanced-once", fmt.Sprintf("after one landed claim the wallet's claim nonce is %v", nonce), desc, attempts)
		}
		if lateOneStep >= 2 {
			r.Violation("executor:submitted-after-claim-landed", fmt.Sprintf("%d members started a submission after the claim had landed and had been announced to every member (first success at block %d)", lateOneStep, first.Block), desc, attempts)
		}
		if i == 0 {
			r.Sample(map[string]interface{}{"attempts": attempts})
		}
	}
}
