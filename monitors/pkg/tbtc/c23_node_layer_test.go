//go:build verif

package tbtc

// C23 at the node level: the real node.runCoordinationLayer (watcher + the
// per-wallet fan-out of a window) on a node that controls several wallets,
// fed from a scripted block stream. Observed: every start of the coordination
// procedure (wallet, window block). "The node starts coordination ... at most
// once per window" is judged per controlled wallet, and every start must be
// for a wallet the node controls.

import (
	"context"
	"crypto/ecdsa"
	"fmt"
	"sync"
	"testing"
	"time"

	"github.com/keep-network/keep-core/internal/verifkit"
	"github.com/keep-network/keep-core/pkg/chain"
	"github.com/keep-network/keep-core/pkg/internal/tecdsatest"
	"github.com/keep-network/keep-core/pkg/protocol/group"
	"github.com/keep-network/keep-core/pkg/tecdsa"
)

type c23nCounter struct {
	chain.BlockCounter
	blocks chan uint64
}

func (c *c23nCounter) WatchBlocks(ctx context.Context) <-chan uint64 { return c.blocks }

type c23nChain struct {
	Chain
	counter *c23nCounter
}

func (c *c23nChain) BlockCounter() (chain.BlockCounter, error) { return c.counter, nil }

type c23nStart struct {
	wallet string
	block  uint64
}

func TestVerif_C23_NodeLayer(t *testing.T) {
	r := verifkit.Start(t, "C23", "node-layer")
	defer r.Finish()
	c23NodeLayerWorkload(t, r, r.N(400, 20000))
}

// TestVerif_C23_NodeLayerRace: the same workload under the race detector (the layer fans a window out to one goroutine per wallet)
func TestVerif_C23_NodeLayerRace(t *testing.T) {
	r := verifkit.Start(t, "C23", "node-layer-race")
	defer r.Finish()
	c23NodeLayerWorkload(t, r, r.N(80, 2000))
}

func c23NodeLayerWorkload(t *testing.T, r *verifkit.Run, n int) {
	r.SetRule("the real runCoordinationLayer of a node controlling 2-5 wallets (real wallet registry) is fed a PRNG block stream (same generator as the watcher part: walks around window boundaries with repeats, gaps and regressions) over an unbuffered channel; the coordination procedure is a stub recording (wallet, window). Oracle: every start is for a controlled wallet and a positive multiple of 900; no (wallet, window) pair is started twice; a window that was started for some wallet is started for every controlled wallet (checked after the starts have settled; missing ones after the watchdog are inconclusive, not violations). Non-trivial: at least one window was started and the node controls at least two wallets.")
	shareData, err := tecdsatest.LoadPrivateKeyShareTestFixtures(1)
	if err != nil || len(shareData) == 0 {
		r.Inconclusive(fmt.Sprintf("cannot load a key share fixture: %v", err))
		return
	}
	share := tecdsa.NewPrivateKeyShare(shareData[0])

	var starts, windows int64
	var mu sync.Mutex
	verifkit.Parallel(n, 8, func(i int) {
		rng := r.SubRand("case", i)
		nW := 2 + rng.Intn(4)
		reg, err := newWalletRegistry(&mockPersistenceHandle{}, func(*ecdsa.PublicKey) ([32]byte, error) { return [32]byte{}, nil })
		if err != nil {
			r.Inconclusive("harness: wallet registry: " + err.Error())
			return
		}
		controlled := map[string]bool{}
		for k := 0; k < nW; k++ {
			key := c23nWalletKey(rng)
			s := &signer{
				wallet:                  wallet{publicKey: key, signingGroupOperators: []chain.Address{"a1", "a2", "a3", "a4", "a5"}},
				signingGroupMemberIndex: group.MemberIndex(1 + rng.Intn(5)),
				privateKeyShare:         share,
			}
			if err := reg.registerSigner(s); err != nil {
				r.Inconclusive("harness: registerSigner: " + err.Error())
				return
			}
			kb, _ := marshalPublicKey(key)
			controlled[fmt.Sprintf("%x", kb)] = true
		}
		shape, stream := c23Stream(rng)
		desc := fmt.Sprintf("wallets=%d shape=%s stream=%v", nW, shape, stream)
		counter := &c23nCounter{blocks: make(chan uint64)}
		nd := &node{chain: &c23nChain{counter: counter}, walletRegistry: reg}
		var smu sync.Mutex
		var rec []c23nStart
		ctx, cancel := context.WithCancel(context.Background())
		defer cancel()
		var lerr error
		if r.Guard("node-layer:", desc, func() {
			lerr = nd.runCoordinationLayer(ctx, &coordinationLayerSettings{
				executeCoordinationProcedureFn: func(_ *node, w *coordinationWindow, pk *ecdsa.PublicKey) (*coordinationResult, bool) {
					kb, _ := marshalPublicKey(pk)
					smu.Lock()
					rec = append(rec, c23nStart{fmt.Sprintf("%x", kb), w.coordinationBlock})
					smu.Unlock()
					return nil, false
				},
				processCoordinationResultFn: func(*node, *coordinationResult) {},
			})
		}) {
			return
		}
		if lerr != nil {
			r.Inconclusive("harness: runCoordinationLayer: " + lerr.Error())
			return
		}
		for _, b := range stream {
			select {
			case counter.blocks <- b:
			case <-time.After(30 * time.Second):
				r.Inconclusive("watchdog: the watcher did not take a block: " + desc)
				return
			}
		}
		// one more block that can trigger nothing new: when it has been taken
		// the watcher has finished with the last stream entry
		select {
		case counter.blocks <- 1:
		case <-time.After(30 * time.Second):
			r.Inconclusive("watchdog: the watcher did not take the final block: " + desc)
			return
		}
		// let the per-wallet goroutines of the triggered windows run: wait
		// until every triggered window has a start for every wallet, bounded
		complete := func() (bool, map[uint64]map[string]int) {
			smu.Lock()
			defer smu.Unlock()
			by := map[uint64]map[string]int{}
			for _, s := range rec {
				if by[s.block] == nil {
					by[s.block] = map[string]int{}
				}
				by[s.block][s.wallet]++
			}
			ok := true
			for _, ws := range by {
				total := 0
				for _, c := range ws {
					total += c
				}
				if total < nW {
					ok = false
				}
			}
			return ok, by
		}
		// The watcher spawns a window's callback asynchronously and the
		// callback spawns one goroutine per wallet: wait until every window
		// seen so far has a start for every wallet AND nothing has changed for
		// a while. An incomplete picture at the deadline is inconclusive.
		deadline := time.Now().Add(20 * time.Second)
		var by map[uint64]map[string]int
		lastN, stableSince := -1, time.Now()
		for {
			ok, cur := complete()
			smu.Lock()
			nrec := len(rec)
			smu.Unlock()
			if nrec != lastN {
				lastN, stableSince = nrec, time.Now()
			}
			by = cur
			if ok && time.Since(stableSince) > 25*time.Millisecond {
				break
			}
			if time.Now().After(deadline) {
				r.Inconclusive("watchdog: some per-wallet starts of a triggered window were not observed: " + desc)
				return
			}
			time.Sleep(500 * time.Microsecond)
		}
		r.Case(desc, len(by) > 0)
		mu.Lock()
		windows += int64(len(by))
		mu.Unlock()
		for blk, ws := range by {
			if blk == 0 || blk%c23Freq != 0 {
				r.Violation("node-layer:not-a-window-start", fmt.Sprintf("coordination started for block %d", blk), desc, nil)
			}
			for w, c := range ws {
				mu.Lock()
				starts += int64(c)
				mu.Unlock()
				if !controlled[w] {
					r.Violation("node-layer:start-for-unknown-wallet", "coordination started for a wallet the node does not control", desc, nil)
				}
				if c > 1 {
					r.Violation("node-layer:wallet-started-twice-for-window", fmt.Sprintf("the coordination procedure of one wallet was started %d times for window %d", c, blk), desc,
						map[string]any{"starts_per_wallet": ws, "wallets_controlled": nW})
				}
			}
			if len(ws) < nW {
				r.Violation("node-layer:wallet-not-started-for-window", fmt.Sprintf("window %d was started for %d of the %d controlled wallets only", blk, len(ws), nW), desc,
					map[string]any{"starts_per_wallet": ws})
			}
		}
	})
	r.Count("node_layer_starts_observed", starts)
	r.Count("node_layer_windows_triggered", windows)
}

// c23nWalletKey: a fresh secp256k1 public key (this file belongs to C23's
// build only, so it cannot share helpers with other properties' files).
func c23nWalletKey(rng interface{ Read([]byte) (int, error) }) *ecdsa.PublicKey {
	d := make([]byte, 32)
	rng.Read(d)
	d[0] &= 0x7f
	d[31] |= 1
	x, y := tecdsa.Curve.ScalarBaseMult(d)
	return &ecdsa.PublicKey{Curve: tecdsa.Curve, X: x, Y: y}
}
