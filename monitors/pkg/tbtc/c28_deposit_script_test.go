//go:build verif

package tbtc

// C28 — the deposit script, locked behind P2SH and P2WSH, is spent in btcd's
// script engine by hand-made spending transactions (the builder is not used:
// it fixes locktime 0 / final sequences): the wallet key is accepted for any
// transaction locktime and sequence, the refund key exactly when BIP-65
// allows it for the embedded locktime, nobody else ever; and the script has
// the Bridge's structure with depositor, extra data and blinding factor as
// inert pushes.

import (
	"bytes"
	"encoding/binary"
	"encoding/hex"
	"fmt"
	"math/big"
	"math/rand"
	"strings"
	"testing"

	"github.com/btcsuite/btcd/btcec"
	"github.com/btcsuite/btcd/chaincfg/chainhash"
	"github.com/btcsuite/btcd/txscript"
	"github.com/btcsuite/btcd/wire"

	"github.com/keep-network/keep-core/internal/verifkit"
)

const c28LockTimeThreshold = 500_000_000

type c28Token struct {
	Op   byte
	Data []byte
}

// c28Parse splits a script into opcodes and direct pushes (the deposit script
// only uses pushes of at most 75 bytes).
func c28Parse(script []byte) ([]c28Token, error) {
	var out []c28Token
	for i := 0; i < len(script); {
		op := script[i]
		i++
		if op >= 0x01 && op <= 0x4b {
			if i+int(op) > len(script) {
				return nil, fmt.Errorf("push of %d bytes at offset %d runs past the end", op, i-1)
			}
			out = append(out, c28Token{Op: op, Data: script[i : i+int(op)]})
			i += int(op)
			continue
		}
		if op >= 0x4c && op <= 0x4e {
			return nil, fmt.Errorf("unexpected PUSHDATA opcode at offset %d", i-1)
		}
		out = append(out, c28Token{Op: op})
	}
	return out, nil
}

// c28ExpectedTokens is the Bridge's deposit script:
// <depositor> DROP [<extra> DROP] <blinding> DROP DUP HASH160 <walletPKH> EQUAL
// IF CHECKSIG ELSE DUP HASH160 <refundPKH> EQUALVERIFY <locktime> CLTV DROP CHECKSIG ENDIF
func c28ExpectedTokens(depositor []byte, d *Deposit) []c28Token {
	push := func(b []byte) c28Token { return c28Token{Op: byte(len(b)), Data: b} }
	op := func(o byte) c28Token { return c28Token{Op: o} }
	t := []c28Token{push(depositor), op(0x75)}
	if d.ExtraData != nil {
		t = append(t, push(d.ExtraData[:]), op(0x75))
	}
	t = append(t, push(d.BlindingFactor[:]), op(0x75), op(0x76), op(0xa9), push(d.WalletPublicKeyHash[:]), op(0x87),
		op(0x63), op(0xac), op(0x67), op(0x76), op(0xa9), push(d.RefundPublicKeyHash[:]), op(0x88),
		push(d.RefundLocktime[:]), op(0xb1), op(0x75), op(0xac), op(0x68))
	return t
}

// c28Locktime draws a refund locktime and names its class.
func c28Locktime(rng *rand.Rand) (uint32, string) {
	switch rng.Intn(16) {
	case 0:
		return 0, "zero"
	case 1:
		return 1 + uint32(rng.Intn(1<<23)), "small-nonminimal" // top byte 00, third byte < 0x80
	case 2:
		return 0x00800000 + uint32(rng.Intn(1<<23)), "three-byte-padded" // top byte 00 needed as sign padding: minimal
	case 3:
		return 0x80000000 + uint32(rng.Int63n(1<<31)), "negative"
	case 4:
		return c28LockTimeThreshold - 1 - uint32(rng.Intn(3)), "height-boundary"
	case 5:
		return c28LockTimeThreshold + uint32(rng.Intn(3)), "time-boundary"
	case 6:
		return 0x7fffffff - uint32(rng.Intn(3)), "max-positive"
	case 7, 8, 9:
		return 0x01000000 + uint32(rng.Intn(c28LockTimeThreshold-0x01000000)), "height"
	default:
		return 1_500_000_000 + uint32(rng.Intn(500_000_000)), "time"
	}
}

type c28Attempt struct {
	Who      string // wallet | refund | third | wallet-sig-refund-pub | refund-sig-wallet-pub
	LockTime uint32
	Sequence uint32
}

// c28Spend builds the spending transaction, signs with signer, presents
// pubkey, and executes the deposit input in the engine.
func c28Spend(rng *rand.Rand, script []byte, witness bool, value int64, a c28Attempt, signer, presented *c26kitKey, flags txscript.ScriptFlags) error {
	var pk []byte
	if witness {
		pk = c26kitP2WSH(script)
	} else {
		pk = c26kitP2SH(script)
	}
	tx := wire.NewMsgTx(int32(1 + rng.Intn(2)))
	tx.LockTime = a.LockTime
	idx := 0
	nin := 1 + rng.Intn(2)
	if nin == 2 {
		idx = rng.Intn(2)
	}
	for i := 0; i < nin; i++ {
		var h chainhash.Hash
		rng.Read(h[:])
		in := wire.NewTxIn(wire.NewOutPoint(&h, uint32(rng.Intn(3))), nil, nil)
		if i == idx {
			in.Sequence = a.Sequence
		} else {
			in.Sequence = rng.Uint32()
		}
		tx.AddTxIn(in)
	}
	tx.AddTxOut(wire.NewTxOut(value/2, c26kitP2WPKH(c26kitRand20(rng))))

	var digest []byte
	var err error
	if witness {
		digest, err = txscript.CalcWitnessSigHash(script, txscript.NewTxSigHashes(tx), txscript.SigHashAll, tx, idx, value)
	} else {
		digest, err = txscript.CalcSignatureHash(script, txscript.SigHashAll, tx, idx)
	}
	if err != nil {
		return fmt.Errorf("monitor: cannot compute sighash: %v", err)
	}
	r, s := c26kitSign(signer, new(big.Int).SetBytes(digest), rng, c26kitSigMode{LongR: -1})
	sig := append((&btcec.Signature{R: r, S: s}).Serialize(), byte(txscript.SigHashAll))
	if witness {
		tx.TxIn[idx].Witness = wire.TxWitness{sig, presented.Ser, script}
	} else {
		ss, err := txscript.NewScriptBuilder().AddData(sig).AddData(presented.Ser).AddData(script).Script()
		if err != nil {
			return fmt.Errorf("monitor: cannot build scriptSig: %v", err)
		}
		tx.TxIn[idx].SignatureScript = ss
	}
	return c26kitExecute(tx, txscript.NewTxSigHashes(tx), idx, pk, value, flags)
}

func TestVerif_C28_DepositScript(t *testing.T) {
	r := verifkit.Start(t, "C28", "depositscript")
	defer r.Finish()
	r.SetRule("PRNG deposits (depositor, blinding factor, extra data present/absent, fresh wallet/refund/third keys, refund locktime from both BIP-65 classes, class boundaries, 0x7fffffff, and encodings that are not minimal positive script numbers), locked behind P2SH or P2WSH; spends by the wallet key (random locktime/sequence), by the refund key over {L-1, L, L+1, 0, other class, 0xffffffff} x sequence {0, 0xfffffffe, 0xffffffff}, by a third key, and with mismatched signature/public key. non-trivial = spend attempt by refund or third key, or deposit with extra data")
	r.Assume("btcd v0.22.3 txscript engine is the reference interpreter (StandardVerifyFlags; for locktime encodings that are non-minimal the same flags without MINIMALDATA, i.e. consensus behaviour). Refund-spendability is asserted only where the 4-byte locktime is a positive script number (Bitcoin cannot satisfy CHECKLOCKTIMEVERIFY with a negative operand)")
	consensusLike := txscript.StandardVerifyFlags &^ txscript.ScriptVerifyMinimalData
	n := r.N(2000, 40000)
	verifkit.Parallel(n, 0, func(i int) {
		rng := r.SubRand("deposit", i)
		wallet, refund, third := c26kitNewKey(rng), c26kitNewKey(rng), c26kitNewKey(rng)
		L, lclass := c28Locktime(rng)
		extra := rng.Intn(2) == 0
		witness := rng.Intn(2) == 0
		value := c26kitAmount(rng)
		d := c26kitDeposit(rng, wallet.PKH, refund.PKH, c26kitLocktimeBytes(L), extra)
		behind := "P2SH"
		if witness {
			behind = "P2WSH"
		}
		ddesc := fmt.Sprintf("#%d depositor=%s blinding=%x extra=%v locktime=%d(%s,%x) behind=%s value=%d wallet=%x refund=%x",
			i, d.Depositor, d.BlindingFactor, extra, L, lclass, d.RefundLocktime, behind, value, wallet.PKH, refund.PKH)
		var script []byte
		var err error
		if r.Guard("script:", ddesc, func() { script, err = d.Script() }) {
			return
		}
		if err != nil {
			r.Case(ddesc, extra)
			r.Violation("script:error", "Script() failed for well-formed deposit parameters: "+err.Error(), ddesc, nil)
			return
		}
		// ---- structure
		depositor, _ := hex.DecodeString(strings.TrimPrefix(strings.TrimPrefix(d.Depositor.String(), "0x"), "0X"))
		r.Case(ddesc+" | structure", extra)
		toks, perr := c28Parse(script)
		want := c28ExpectedTokens(depositor, d)
		if perr != nil {
			r.Violation("structure:unparsable", perr.Error(), ddesc, verifkit.Hex(script))
		} else if len(toks) != len(want) {
			r.Violation("structure:shape", fmt.Sprintf("script has %d elements, expected %d", len(toks), len(want)), ddesc, verifkit.Hex(script))
		} else {
			for k := range want {
				if toks[k].Op != want[k].Op || !bytes.Equal(toks[k].Data, want[k].Data) {
					r.Violation("structure:element", fmt.Sprintf("element %d is %02x %x, expected %02x %x", k, toks[k].Op, toks[k].Data, want[k].Op, want[k].Data), ddesc, verifkit.Hex(script))
					break
				}
			}
		}
		if i < 2 {
			r.Sample(map[string]interface{}{"deposit": ddesc, "script": verifkit.Hex(script)})
		}

		lb := d.RefundLocktime
		negative := lb[3]&0x80 != 0
		nonMinimal := !negative && lb[3] == 0 && lb[2]&0x80 == 0
		scriptL := binary.LittleEndian.Uint32(lb[:]) // value of the operand when it is positive
		otherClass := uint32(1_700_000_000)
		if L >= c28LockTimeThreshold {
			otherClass = 400_000_000
		}
		lockSet := []uint32{L, 0, otherClass, 0xffffffff, c28LockTimeThreshold - 1, c28LockTimeThreshold}
		if L > 0 {
			lockSet = append(lockSet, L-1)
		}
		if L < 0xffffffff {
			lockSet = append(lockSet, L+1)
		}
		{
			seen := map[uint32]bool{}
			uniq := lockSet[:0]
			for _, v := range lockSet {
				if !seen[v] {
					seen[v] = true
					uniq = append(uniq, v)
				}
			}
			lockSet = uniq
		}
		seqSet := []uint32{0, 0xfffffffe, 0xffffffff}

		try := func(a c28Attempt, signer, presented *c26kitKey, expect int, flags txscript.ScriptFlags, flagName string) {
			// expect: 1 accept, 0 reject, -1 no assertion (recorded only)
			adesc := fmt.Sprintf("%s | %s locktime=%d sequence=%#x flags=%s", ddesc, a.Who, a.LockTime, a.Sequence, flagName)
			var eerr error
			if r.Guard("spend:", adesc, func() {
				eerr = c28Spend(rng, script, witness, value, a, signer, presented, flags)
			}) {
				return
			}
			r.Case(adesc, a.Who != "wallet" || extra)
			accepted := eerr == nil
			if accepted {
				r.Count("accepted_"+a.Who, 1)
			} else {
				r.Count("rejected_"+a.Who, 1)
			}
			if eerr != nil && strings.HasPrefix(eerr.Error(), "monitor:") {
				r.Inconclusive(eerr.Error())
				return
			}
			switch {
			case expect == 1 && !accepted:
				r.Violation(a.Who+":rejected:"+behind, fmt.Sprintf("spend that must be valid was rejected: %v", eerr), adesc, verifkit.Hex(script))
			case expect == 0 && accepted:
				r.Violation(a.Who+":accepted:"+behind, "spend that must be invalid was accepted by the script engine", adesc, verifkit.Hex(script))
			case expect == -1:
				if accepted {
					r.Count("unasserted_accepted_"+lclass, 1)
				} else {
					r.Count("unasserted_rejected_"+lclass, 1)
				}
			}
		}

		// ---- wallet: any locktime / sequence
		for k := 0; k < 4; k++ {
			a := c28Attempt{"wallet", lockSet[rng.Intn(len(lockSet))], seqSet[rng.Intn(len(seqSet))]}
			if k == 0 {
				a.LockTime, a.Sequence = 0, 0xffffffff // what the wallet's builder produces
			}
			if k == 3 {
				a.LockTime, a.Sequence = rng.Uint32(), rng.Uint32()
			}
			try(a, wallet, wallet, 1, txscript.StandardVerifyFlags, "standard")
		}
		// ---- refund: BIP-65
		for _, lt := range lockSet {
			for _, sq := range seqSet {
				a := c28Attempt{"refund", lt, sq}
				ok := (scriptL < c28LockTimeThreshold) == (lt < c28LockTimeThreshold) && lt >= scriptL && sq != 0xffffffff
				switch {
				case negative:
					// CHECKLOCKTIMEVERIFY fails on a negative operand: the refund path is dead.
					// The property cannot be met by any script for such a locktime; recorded only.
					try(a, refund, refund, -1, txscript.StandardVerifyFlags, "standard")
				case nonMinimal:
					try(a, refund, refund, -1, txscript.StandardVerifyFlags, "standard")
					exp := 0
					if ok {
						exp = 1
					}
					try(a, refund, refund, exp, consensusLike, "no-minimaldata")
				default:
					exp := 0
					if ok {
						exp = 1
					}
					try(a, refund, refund, exp, txscript.StandardVerifyFlags, "standard")
				}
			}
		}
		// ---- nobody else, and no mixing of signature and key
		far := uint32(0xffffffff)
		if scriptL < c28LockTimeThreshold {
			far = c28LockTimeThreshold - 1
		}
		for _, lt := range []uint32{L, far} {
			try(c28Attempt{"third", lt, 0}, third, third, 0, consensusLike, "no-minimaldata")
			try(c28Attempt{"wallet-sig-refund-pub", lt, 0}, wallet, refund, 0, consensusLike, "no-minimaldata")
			try(c28Attempt{"refund-sig-wallet-pub", lt, 0}, refund, wallet, 0, consensusLike, "no-minimaldata")
			try(c28Attempt{"third-sig-wallet-pub", lt, 0}, third, wallet, 0, consensusLike, "no-minimaldata")
		}
		try(c28Attempt{"third", far, 0xfffffffe}, third, third, 0, txscript.StandardVerifyFlags, "standard")
		r.Count("locktime_"+lclass, 1)
	})
}
