//go:build verif

package tbtc

// C46 — wallet action deadlines nest inside the proposal validity window.
//
// The numbers the oracle uses are the DOCUMENTED ones, typed in here from the
// comments / declarations in the sources (never read from the constants):
//
//   heartbeat.go         total proposal validity 600 blocks ("roughly 2 hours"),
//                        300 blocks preserved for the inactivity claim,
//                        safety margin 25 blocks ("roughly 5 minutes")
//   deposit_sweep.go     validity 1200 blocks ("roughly 4 hours"), signing
//                        safety margin 300 blocks ("roughly 1 hour"), broadcast
//                        timeout = 25% of that margin (15 minutes)
//   redemption.go        validity 600, margin 300
//   moving_funds.go      validity 650 ("2 hours and 10 minutes"), margin 300
//   moved_funds_sweep.go validity 600, margin 300
//   block time           12 seconds (every one of those comments)
//
// Three monitors:
//   Loop    runs the real signingExecutor (as configured by node.
//           getSigningExecutor) for one message on a virtual block counter and
//           observes the block at which it gives up: the length of one
//           complete signing retry loop.
//   Actions executes every action type (newXAction(...).execute()) for every
//           start block of the grid with recording stubs: the signing executor
//           stub records startBlock and its context, learns from the action's
//           own waitForBlockFn call which block cancels that context, moves
//           the virtual chain there and sees the context end; the broadcast
//           step runs for real (its timeout is read from the action after
//           construction); the heartbeat's inactivity claim context likewise.
//   Node    feeds node.processCoordinationResult with a coordination result
//           for every action type; the real signing executor (one local
//           signer, so every attempt ends with a minority) runs the retry
//           loop to exhaustion; observed: the deadline the action waits for
//           on the chain's block counter, every block the executor waits for.

import (
	"context"
	"fmt"
	"math/big"
	"reflect"
	"runtime"
	"sort"
	"sync"
	"testing"
	"time"

	"github.com/keep-network/keep-core/internal/verifkit"
	"github.com/keep-network/keep-core/pkg/bitcoin"
	"github.com/keep-network/keep-core/pkg/generator"
	"github.com/keep-network/keep-core/pkg/net/local"
	"github.com/keep-network/keep-core/pkg/protocol/group"
	"github.com/keep-network/keep-core/pkg/tbtc/internal/test"
	"github.com/keep-network/keep-core/pkg/tecdsa"
)

// ---- documented numbers (see the header)

type c46Doc struct {
	validity   uint64 // proposal validity, blocks
	signMargin uint64 // blocks that must remain after the signing deadline
}

var c46Docs = map[WalletActionType]c46Doc{
	ActionHeartbeat:       {600, 300},
	ActionDepositSweep:    {1200, 300},
	ActionRedemption:      {600, 300},
	ActionMovingFunds:     {650, 300},
	ActionMovedFundsSweep: {600, 300},
}

const (
	c46HeartbeatClaimMargin = 25               // blocks between the claim deadline and the expiry
	c46BlockTime            = 12 * time.Second // nominal host chain block time
	c46Watchdog             = 40 * time.Second
)

var c46Actions = []WalletActionType{ActionHeartbeat, ActionDepositSweep, ActionRedemption, ActionMovingFunds, ActionMovedFundsSweep}

// ---- chain / bitcoin wrappers

type c46CounterCall struct {
	Method string `json:"method"`
	Block  uint64 `json:"block"`
	At     uint64 `json:"at_height"`
}

// c46Counter is the chain's block counter: a virtual clock that records how
// it is used. WaitForBlockHeight (the blocking form, used by
// WaitForBlockConfirmations) lets the chain reach the block.
type c46Counter struct {
	clk *verifkit.Clock
	mu  sync.Mutex
	log []c46CounterCall
}

func (c *c46Counter) rec(m string, b uint64) {
	c.mu.Lock()
	c.log = append(c.log, c46CounterCall{m, b, c.clk.Height()})
	c.mu.Unlock()
}
func (c *c46Counter) calls() []c46CounterCall {
	c.mu.Lock()
	defer c.mu.Unlock()
	return append([]c46CounterCall(nil), c.log...)
}
func (c *c46Counter) WaitForBlockHeight(b uint64) error {
	c.rec("WaitForBlockHeight", b)
	c.clk.Set(b, false)
	return nil
}
func (c *c46Counter) BlockHeightWaiter(b uint64) (<-chan uint64, error) {
	c.rec("BlockHeightWaiter", b)
	return c.clk.BlockHeightWaiter(b)
}
func (c *c46Counter) CurrentBlock() (uint64, error)                 { return c.clk.Height(), nil }
func (c *c46Counter) WatchBlocks(ctx context.Context) <-chan uint64 { return c.clk.WatchBlocks(ctx) }

type c46Chain struct {
	*localChain
}

// whatever look-back filter the action computes from the current block, no
// other wallet has committed to move funds to this one
func (c *c46Chain) PastMovingFundsCommitmentSubmittedEvents(filter *MovingFundsCommitmentSubmittedEventFilter) ([]*MovingFundsCommitmentSubmittedEvent, error) {
	return []*MovingFundsCommitmentSubmittedEvent{}, nil
}

type c46Btc struct {
	*localBitcoinChain
}

// every known transaction is deeply confirmed
func (b *c46Btc) GetTransactionConfirmations(h bitcoin.Hash) (uint, error) {
	n, err := b.localBitcoinChain.GetTransactionConfirmations(h)
	if err != nil {
		return 0, err
	}
	return n + 100, nil
}

// ---- scenario set-up (mirrors the package's own action tests)

type c46Setup struct {
	kind     WalletActionType
	host     *c46Chain
	counter  *c46Counter
	clk      *verifkit.Clock
	btc      *c46Btc
	wallet   wallet
	proposal CoordinationProposal
	sigs     []*tecdsa.Signature
	wantTx   bitcoin.Hash
	tune     func(a walletAction)
}

func c46RawSigs(cs ...*bitcoin.SignatureContainer) []*tecdsa.Signature {
	var out []*tecdsa.Signature
	for _, c := range cs {
		out = append(out, &tecdsa.Signature{R: c.R, S: c.S})
	}
	return out
}

func c46NewSetup(kind WalletActionType, height uint64) (*c46Setup, error) {
	s := &c46Setup{kind: kind}
	s.clk = verifkit.NewClock(height)
	s.counter = &c46Counter{clk: s.clk}
	lc := Connect()
	lc.blockCounter = s.counter
	s.host = &c46Chain{lc}
	s.btc = &c46Btc{newLocalBitcoinChain()}
	switch kind {
	case ActionHeartbeat:
		p := &HeartbeatProposal{Message: [16]byte{0xff, 0xff, 0xff, 0xff, 0xff, 0xff, 0xff, 0xff, 0, 0, 0, 0, 0, 0, 0, 1}}
		lc.setOperatorsEligibleStake(big.NewInt(100000))
		lc.setHeartbeatProposalValidationResult(p, true)
		s.proposal = p
	case ActionDepositSweep:
		scs, err := test.LoadDepositSweepTestScenarios()
		if err != nil || len(scs) == 0 {
			return nil, fmt.Errorf("deposit sweep scenarios: %v", err)
		}
		sc := scs[0]
		s.wallet = wallet{publicKey: sc.WalletPublicKey}
		pkh := bitcoin.PublicKeyHash(sc.WalletPublicKey)
		for _, tx := range sc.InputTransactions {
			if err := s.btc.BroadcastTransaction(tx); err != nil {
				return nil, err
			}
		}
		keys := make([]struct {
			FundingTxHash      bitcoin.Hash
			FundingOutputIndex uint32
		}, len(sc.Deposits))
		extra := make([]struct {
			*Deposit
			FundingTx *bitcoin.Transaction
		}, len(sc.Deposits))
		reveal := make([]*big.Int, len(sc.Deposits))
		for i, d := range sc.Deposits {
			h, idx := d.Utxo.Outpoint.TransactionHash, d.Utxo.Outpoint.OutputIndex
			ftx, err := s.btc.GetTransaction(h)
			if err != nil {
				return nil, err
			}
			keys[i].FundingTxHash, keys[i].FundingOutputIndex = h, idx
			extra[i].Deposit, extra[i].FundingTx = (*Deposit)(d), ftx
			rb := uint64(100 * i)
			reveal[i] = big.NewInt(int64(rb))
			if err := lc.setPastDepositRevealedEvents(&DepositRevealedEventFilter{StartBlock: rb, EndBlock: &rb, WalletPublicKeyHash: [][20]byte{pkh}},
				[]*DepositRevealedEvent{{FundingTxHash: h, FundingOutputIndex: idx, Depositor: d.Depositor, Amount: uint64(d.Utxo.Value),
					BlindingFactor: d.BlindingFactor, WalletPublicKeyHash: d.WalletPublicKeyHash, RefundPublicKeyHash: d.RefundPublicKeyHash,
					RefundLocktime: d.RefundLocktime, Vault: d.Vault, BlockNumber: rb}}); err != nil {
				return nil, err
			}
			lc.setDepositRequest(h, idx, &DepositChainRequest{Depositor: d.Depositor, Amount: uint64(d.Utxo.Value), Vault: d.Vault, ExtraData: d.ExtraData})
		}
		p := &DepositSweepProposal{DepositsKeys: keys, SweepTxFee: big.NewInt(sc.Fee), DepositsRevealBlocks: reveal}
		if err := lc.setDepositSweepProposalValidationResult(pkh, p, extra, true); err != nil {
			return nil, err
		}
		var mh [32]byte
		if sc.WalletMainUtxo != nil {
			mh = lc.ComputeMainUtxoHash(sc.WalletMainUtxo)
		}
		lc.setWallet(pkh, &WalletChainData{MainUtxoHash: mh})
		s.proposal, s.sigs, s.wantTx = p, c46RawSigs(sc.Signatures...), sc.ExpectedSweepTransactionHash
	case ActionRedemption:
		scs, err := test.LoadRedemptionTestScenarios()
		if err != nil || len(scs) == 0 {
			return nil, fmt.Errorf("redemption scenarios: %v", err)
		}
		sc := scs[0]
		s.wallet = wallet{publicKey: sc.WalletPublicKey}
		pkh := bitcoin.PublicKeyHash(sc.WalletPublicKey)
		if err := s.btc.BroadcastTransaction(sc.InputTransaction); err != nil {
			return nil, err
		}
		scripts := make([]bitcoin.Script, len(sc.RedemptionRequests))
		for i, q := range sc.RedemptionRequests {
			lc.setPendingRedemptionRequest(pkh, &RedemptionRequest{Redeemer: q.Redeemer, RedeemerOutputScript: q.RedeemerOutputScript,
				RequestedAmount: q.RequestedAmount, TreasuryFee: q.TreasuryFee, TxMaxFee: q.TxMaxFee, RequestedAt: q.RequestedAt})
			scripts[i] = q.RedeemerOutputScript
		}
		total := int64(0)
		for _, f := range sc.FeeShares {
			total += f
		}
		p := &RedemptionProposal{RedeemersOutputScripts: scripts, RedemptionTxFee: big.NewInt(total)}
		if err := lc.setRedemptionProposalValidationResult(pkh, p, true); err != nil {
			return nil, err
		}
		var mh [32]byte
		if sc.WalletMainUtxo != nil {
			mh = lc.ComputeMainUtxoHash(sc.WalletMainUtxo)
		}
		lc.setWallet(pkh, &WalletChainData{MainUtxoHash: mh})
		s.proposal, s.sigs, s.wantTx = p, c46RawSigs(sc.Signature), sc.ExpectedRedemptionTransactionHash
		shares := sc.FeeShares
		s.tune = func(a walletAction) {
			ra := a.(*redemptionAction)
			ra.feeDistribution = func([]*RedemptionRequest) []int64 { return shares }
			ra.transactionShape = RedemptionChangeLast
		}
	case ActionMovingFunds:
		scs, err := test.LoadMovingFundsTestScenarios()
		if err != nil || len(scs) == 0 {
			return nil, fmt.Errorf("moving funds scenarios: %v", err)
		}
		sc := scs[0]
		s.wallet = wallet{publicKey: sc.WalletPublicKey}
		pkh := bitcoin.PublicKeyHash(sc.WalletPublicKey)
		if err := s.btc.BroadcastTransaction(sc.InputTransaction); err != nil {
			return nil, err
		}
		p := &MovingFundsProposal{TargetWallets: sc.TargetWallets, MovingFundsTxFee: big.NewInt(sc.Fee)}
		lc.SetMovingFundsParameters(0, 0, 0, 604800, big.NewInt(0), 0, 0, 0, 0, big.NewInt(0), 0)
		if err := lc.setMovingFundsProposalValidationResult(pkh, sc.WalletMainUtxo, p, true); err != nil {
			return nil, err
		}
		lc.setWallet(pkh, &WalletChainData{MainUtxoHash: lc.ComputeMainUtxoHash(sc.WalletMainUtxo),
			MovingFundsTargetWalletsCommitmentHash: lc.ComputeMovingFundsCommitmentHash(sc.TargetWallets)})
		s.proposal, s.sigs, s.wantTx = p, c46RawSigs(sc.Signature), sc.ExpectedMovingFundsTransactionHash
	case ActionMovedFundsSweep:
		scs, err := test.LoadMovedFundsSweepTestScenarios()
		if err != nil || len(scs) == 0 {
			return nil, fmt.Errorf("moved funds sweep scenarios: %v", err)
		}
		sc := scs[0]
		s.wallet = wallet{publicKey: sc.WalletPublicKey}
		pkh := bitcoin.PublicKeyHash(sc.WalletPublicKey)
		for _, tx := range sc.InputTransactions {
			if err := s.btc.BroadcastTransaction(tx); err != nil {
				return nil, err
			}
		}
		p := &MovedFundsSweepProposal{SweepTxFee: big.NewInt(sc.Fee), MovingFundsTxHash: sc.MovedFundsUtxo.Outpoint.TransactionHash,
			MovingFundsTxOutputIndex: sc.MovedFundsUtxo.Outpoint.OutputIndex}
		if err := lc.setMovedFundsSweepProposalValidationResult(pkh, p, true); err != nil {
			return nil, err
		}
		var mh [32]byte
		if sc.WalletMainUtxo != nil {
			mh = lc.ComputeMainUtxoHash(sc.WalletMainUtxo)
		}
		lc.setWallet(pkh, &WalletChainData{MainUtxoHash: mh})
		s.proposal, s.sigs, s.wantTx = p, c46RawSigs(sc.Signatures...), sc.ExpectedMovedFundsSweepTransactionHash
	}
	return s, nil
}

// ---- block waits of the code under test

type c46WaitRec struct {
	ctx    context.Context
	Target uint64 `json:"target"`
	At     uint64 `json:"at_height"`
}

// c46Waits is a waitForBlockFn that reports each call and then behaves like
// node.waitForBlockHeight on the virtual clock.
type c46Waits struct {
	clk *verifkit.Clock
	ch  chan uint64 // registrations, for the stub that follows the go statement
	mu  sync.Mutex
	log []c46WaitRec
}

func c46NewWaits(clk *verifkit.Clock) *c46Waits {
	return &c46Waits{clk: clk, ch: make(chan uint64, 1024)}
}

func (w *c46Waits) wait(ctx context.Context, b uint64) error {
	w.mu.Lock()
	w.log = append(w.log, c46WaitRec{ctx, b, w.clk.Height()})
	w.mu.Unlock()
	select {
	case w.ch <- b:
	default:
	}
	c, _ := w.clk.BlockHeightWaiter(b)
	select {
	case <-c:
	case <-ctx.Done():
	}
	return nil
}

func (w *c46Waits) records() []c46WaitRec {
	w.mu.Lock()
	defer w.mu.Unlock()
	return append([]c46WaitRec(nil), w.log...)
}

// c46Deadline is what a stub saw of the context it was given.
type c46Deadline struct {
	Called        bool   `json:"called"`
	StartBlock    uint64 `json:"start_block_argument"`
	HeightAtCall  uint64 `json:"height_at_call"`
	WaitTarget    uint64 `json:"block_that_cancels_the_context"`
	EarlyCancel   bool   `json:"cancelled_before_that_block"`
	CancelledAt   uint64 `json:"context_seen_done_at_height"`
	ContextEnded  bool   `json:"context_ended"`
	RegistrationOK bool  `json:"wait_registered"`
}

// observe is run inside a stub: the action registered (with `go`) the wait
// that cancels ctx just before calling the stub. The stub moves the chain to
// one block before that target, then onto it, and sees the context end.
func (w *c46Waits) observe(ctx context.Context, d *c46Deadline) {
	d.Called = true
	d.HeightAtCall = w.clk.Height()
	select {
	case T := <-w.ch:
		d.WaitTarget, d.RegistrationOK = T, true
	case <-time.After(c46Watchdog):
		return
	}
	T := d.WaitTarget
	if T > 0 && T-1 > d.HeightAtCall {
		w.clk.Set(T-1, false)
	}
	if w.clk.Height() < T {
		for i := 0; i < 200; i++ {
			runtime.Gosched()
		}
		if ctx.Err() != nil {
			d.EarlyCancel = true
		}
	}
	w.clk.Set(T, false)
	select {
	case <-ctx.Done():
		d.ContextEnded = true
		d.CancelledAt = w.clk.Height()
	case <-time.After(c46Watchdog):
	}
}

type c46TxExecutor struct {
	w    *c46Waits
	sigs []*tecdsa.Signature
	d    c46Deadline
	msgs int
}

func (e *c46TxExecutor) signBatch(ctx context.Context, messages []*big.Int, startBlock uint64) ([]*tecdsa.Signature, error) {
	e.d.StartBlock = startBlock
	e.msgs = len(messages)
	e.w.observe(ctx, &e.d)
	// signing "completes" at the last possible moment
	return e.sigs, nil
}

type c46HbExecutor struct {
	w *c46Waits
	d c46Deadline
}

func (e *c46HbExecutor) sign(ctx context.Context, message *big.Int, startBlock uint64) (*tecdsa.Signature, *signingActivityReport, uint64, error) {
	e.d.StartBlock = startBlock
	e.w.observe(ctx, &e.d)
	// signature produced, but nobody else was active: an inactivity failure
	rep := &signingActivityReport{activeMembers: []group.MemberIndex{1}}
	for i := 2; i <= 100; i++ {
		rep.inactiveMembers = append(rep.inactiveMembers, group.MemberIndex(i))
	}
	return &tecdsa.Signature{R: big.NewInt(1), S: big.NewInt(1)}, rep, e.w.clk.Height(), nil
}

type c46ClaimExecutor struct {
	w *c46Waits
	d c46Deadline
}

func (e *c46ClaimExecutor) claimInactivity(ctx context.Context, inactive []group.MemberIndex, heartbeatFailed bool, sessionID *big.Int) error {
	e.w.observe(ctx, &e.d)
	return nil
}

func c46Blocks(d time.Duration) uint64 {
	return uint64((d + c46BlockTime - 1) / c46BlockTime)
}

// ------------------------------------------------------------- Loop monitor

type c46Node struct {
	node    *node
	signer  *signer
	exec    *signingExecutor
	execRec *c46Waits
}

type c46AlwaysBusy struct{}

func (c46AlwaysBusy) IsExecuting() bool { return true }

var (
	c46SchedOnce sync.Once
	c46Sched     *generator.Scheduler
)

// c46Scheduler returns one scheduler shared by all nodes of the test, kept in
// the "stopped" state by a protocol that is always executing: otherwise every
// node would start generating tECDSA pre-parameters (minutes of CPU) in the
// background. The sleep lets the scheduler's one-second check loop notice the
// protocol; it is set-up only, no verdict depends on it.
func c46Scheduler() *generator.Scheduler {
	c46SchedOnce.Do(func() {
		c46Sched = generator.StartScheduler()
		c46Sched.RegisterProtocol(c46AlwaysBusy{})
		time.Sleep(1500 * time.Millisecond)
	})
	return c46Sched
}

// c46BuildNode makes a node that controls one signer (member 1 of 5) of the
// set-up's wallet, with the chain's block counter being the recording counter.
// The node's own signing executor is created by node.getSigningExecutor (so
// its attempt limit is the node's), then its two block functions are pointed
// at a recorder on the same clock.
func c46BuildNode(t *testing.T, s *c46Setup) (*c46Node, error) {
	sg := createMockSigner(t)
	if s.wallet.publicKey != nil {
		sg.wallet.publicKey = s.wallet.publicKey
	}
	s.wallet = sg.wallet
	pub := sg.wallet.publicKey
	pkh := bitcoin.PublicKeyHash(pub)
	id, err := s.host.CalculateWalletID(pub)
	if err != nil {
		return nil, err
	}
	s.host.walletsMutex.Lock()
	wd := s.host.wallets[pkh]
	if wd == nil {
		wd = &WalletChainData{}
		s.host.wallets[pkh] = wd
	}
	wd.EcdsaWalletID = id
	wd.State = StateLive
	s.host.walletsMutex.Unlock()
	gp := &GroupParameters{GroupSize: 5, GroupQuorum: 4, HonestThreshold: 3}
	n, err := newNode(gp, s.host, s.btc, local.Connect(), createMockKeyStorePersistence(t, sg), &mockPersistenceHandle{},
		c46Scheduler(), &mockCoordinationProposalGenerator{}, Config{})
	if err != nil {
		return nil, err
	}
	exec, ok, err := n.getSigningExecutor(pub)
	if err != nil || !ok {
		return nil, fmt.Errorf("no signing executor: ok=%v err=%v", ok, err)
	}
	rec := c46NewWaits(s.clk)
	exec.waitForBlockFn = rec.wait
	exec.getCurrentBlockFn = func() (uint64, error) { return s.clk.Height(), nil }
	return &c46Node{n, sg, exec, rec}, nil
}

// c46Drive advances the virtual chain to the next block somebody waits for,
// each time the registrations have been quiet for a moment, until done()
// (liveness only; no judged value depends on when this happens).
func c46Drive(clk *verifkit.Clock, regs func() int, done func() bool) bool {
	limit := time.Now().Add(3 * c46Watchdog)
	for !done() {
		if time.Now().After(limit) {
			return false
		}
		n := regs()
		time.Sleep(time.Millisecond)
		if regs() != n || done() {
			continue
		}
		if b, ok := clk.NextWaited(); ok {
			// a far target right after a quiet moment may only mean that the
			// loop has not registered its next wait yet: walk, do not jump
			if h := clk.Height(); b > h+64 {
				b = h + 1
			}
			clk.Set(b, false)
		}
	}
	return true
}

// c46Flush releases the waits that are still parked (contexts derived from
// context.Background are only released by the chain reaching their block).
func c46Flush(clk *verifkit.Clock) {
	for i := 0; i < 100; i++ {
		b, ok := clk.NextWaited()
		if !ok {
			time.Sleep(time.Millisecond)
			if _, ok = clk.NextWaited(); !ok {
				return
			}
			continue
		}
		clk.Set(b, false)
	}
}

// c46LoopTimeout finds, among the executor's waits, the one made with the
// context the executor was GIVEN (sign() waits on it exactly once per signer:
// the loop timeout); all the retry loop's waits use the derived loop context.
func c46LoopTimeout(recs []c46WaitRec, outer context.Context) (lt uint64, minLoopWait uint64, loopWaits int, ok bool) {
	cnt := map[context.Context]int{}
	for _, x := range recs {
		cnt[x.ctx]++
	}
	if outer == nil {
		// the loop context is context.WithCancel(<context given to sign>):
		// the given context is the one that is the parent of another
		// recorded context
		for c := range cnt {
			if p := c46Parent(c); p != nil && cnt[p] > 0 {
				if outer != nil && outer != p {
					return 0, 0, 0, false
				}
				outer = p
			}
		}
	}
	if outer == nil || cnt[outer] != 1 || len(cnt) != 2 {
		return 0, 0, 0, false
	}
	first := true
	for _, x := range recs {
		if x.ctx == outer {
			lt = x.Target
			continue
		}
		loopWaits++
		if first || x.Target < minLoopWait {
			minLoopWait, first = x.Target, false
		}
	}
	return lt, minLoopWait, loopWaits, loopWaits >= 1
}

// c46Parent returns the parent of a context made by context.WithCancel (the
// embedded, exported Context field of the standard library's cancel context).
func c46Parent(c context.Context) (parent context.Context) {
	defer func() {
		if recover() != nil {
			parent = nil
		}
	}()
	v := reflect.ValueOf(c)
	if v.Kind() != reflect.Ptr || v.Elem().Kind() != reflect.Struct {
		return nil
	}
	f := v.Elem().FieldByName("Context")
	if !f.IsValid() || !f.CanInterface() {
		return nil
	}
	p, _ := f.Interface().(context.Context)
	return p
}

func c46MeasureLoop(t *testing.T, r *verifkit.Run, S uint64) (L uint64, recs []c46WaitRec, ok bool) {
	s, err := c46NewSetup(ActionHeartbeat, S)
	if err != nil {
		r.Inconclusive("set-up: " + err.Error())
		return 0, nil, false
	}
	cn, err := c46BuildNode(t, s)
	if err != nil {
		r.Inconclusive("node: " + err.Error())
		return 0, nil, false
	}
	outer, cancel := context.WithCancel(context.Background())
	defer cancel()
	var done bool
	var dmu sync.Mutex
	go func() {
		r.Guard("loop:", fmt.Sprintf("sign start=%d", S), func() {
			_, _, _, _ = cn.exec.sign(outer, big.NewInt(0x5eed), S)
		})
		dmu.Lock()
		done = true
		dmu.Unlock()
	}()
	finished := c46Drive(s.clk, func() int { return len(cn.execRec.records()) }, func() bool { dmu.Lock(); defer dmu.Unlock(); return done })
	recs = cn.execRec.records()
	if !finished {
		r.Inconclusive(fmt.Sprintf("real signing executor did not give up (start %d)", S))
		return 0, recs, false
	}
	lt, minW, _, ok := c46LoopTimeout(recs, outer)
	if !ok {
		r.Inconclusive(fmt.Sprintf("could not identify the loop timeout wait of the signing executor (start %d, %d waits)", S, len(recs)))
		return 0, recs, false
	}
	if lt2, _, _, ok2 := c46LoopTimeout(recs, nil); !ok2 || lt2 != lt {
		r.Inconclusive("loop timeout identification by context identity and by parent link disagree")
		return 0, recs, false
	}
	if minW < S {
		r.Violation("loop:waits-before-start", fmt.Sprintf("the signing executor started at block %d waits for block %d", S, minW), fmt.Sprintf("sign start=%d", S), nil)
	}
	if lt < S {
		r.Violation("loop:timeout-before-start", fmt.Sprintf("the signing executor started at block %d gives up at block %d", S, lt), fmt.Sprintf("sign start=%d", S), nil)
		return 0, recs, false
	}
	return lt - S, recs, true
}

func c46Targets(recs []c46WaitRec) []uint64 {
	var out []uint64
	for _, x := range recs {
		out = append(out, x.Target)
	}
	return out
}

var c46LoopStarts = []uint64{0, 1000000, 1 << 40}

// c46LoopLength returns the loop length measured at the first start block.
func c46LoopLength(t *testing.T, r *verifkit.Run) (uint64, bool) {
	L, _, ok := c46MeasureLoop(t, r, 0)
	return L, ok
}

func TestVerif_C46_Loop(t *testing.T) {
	r := verifkit.Start(t, "C46", "loop")
	defer r.Finish()
	r.SetRule("the node's own signing executor (attempt limit as configured by node.getSigningExecutor, one local signer of five so that every attempt ends in a minority) signs one message from start blocks {0,1e6,2^40} on a virtual chain; observed: the block of the wait made on the context given to sign() (the loop gives up there) and all waits of the retry loop. non-trivial = the loop ran to exhaustion")
	var Ls []uint64
	for _, S := range c46LoopStarts {
		L, recs, ok := c46MeasureLoop(t, r, S)
		if !ok {
			continue
		}
		r.Case(fmt.Sprintf("loop start=%d", S), len(recs) >= 3)
		Ls = append(Ls, L)
		tg := c46Targets(recs)
		for i := range tg {
			tg[i] -= S
		}
		sort.Slice(tg, func(i, j int) bool { return tg[i] < tg[j] })
		r.Sample(map[string]interface{}{"start": S, "gives_up_after_blocks": L, "waits_relative_to_start": tg})
	}
	for _, L := range Ls {
		if L != Ls[0] {
			r.Violation("loop:length-depends-on-start", fmt.Sprintf("one complete signing retry loop takes %v blocks depending on the start block", Ls), "loop", nil)
		}
	}
	// every documented signing window must hold one complete loop
	if len(Ls) > 0 {
		for _, a := range c46Actions {
			d := c46Docs[a]
			if d.validity-d.signMargin < Ls[0] {
				r.Violation("loop:longer-than-documented-window:"+a.String(), fmt.Sprintf("one complete signing retry loop takes %d blocks, the documented signing window of %s is %d-%d=%d blocks", Ls[0], a, d.validity, d.signMargin, d.validity-d.signMargin), "loop", nil)
			}
		}
		r.Count("loop_blocks", int64(Ls[0]))
	}
}

// ---------------------------------------------------------- Actions monitor

var c46StartGrid = []uint64{0, 1, 899, 1000000, 1 << 40, (1 << 63) - 1300}

func TestVerif_C46_Actions(t *testing.T) {
	r := verifkit.Start(t, "C46", "actions")
	defer r.Finish()
	r.SetRule("exhaustive grid: 5 action types x start blocks {0,1,899,1e6,2^40,2^63-1300}; expiry = start + documented validity; each action is executed for real against the package's local chains with recording signing/claim executor stubs on a virtual chain. non-trivial = the stub was reached, the context it was given ended exactly when the chain reached the block the action waits for, and the post-signing step ran")
	r.SetExhaustive(true)
	L, okL := c46LoopLength(t, r)
	if !okL {
		r.Inconclusive("loop length not measurable")
		return
	}
	r.Count("loop_blocks", int64(L))
	for _, kind := range c46Actions {
		for _, start := range c46StartGrid {
			doc := c46Docs[kind]
			expiry := start + doc.validity
			desc := fmt.Sprintf("action=%s start=%d expiry=%d", kind, start, expiry)
			s, err := c46NewSetup(kind, start)
			if err != nil {
				r.Inconclusive("set-up: " + err.Error())
				continue
			}
			w := c46NewWaits(s.clk)
			var signD, claimD *c46Deadline
			var bt time.Duration
			var act walletAction
			var hasClaim bool
			switch kind {
			case ActionHeartbeat:
				sg := createMockSigner(t)
				s.wallet = sg.wallet
				he, ce := &c46HbExecutor{w: w}, &c46ClaimExecutor{w: w}
				fc := newHeartbeatFailureCounter()
				kb, _ := marshalPublicKey(sg.wallet.publicKey)
				for i := 0; i < 16; i++ { // far beyond any consecutive-failure threshold
					fc.increment(fmt.Sprintf("%x", kb))
				}
				act = newHeartbeatAction(logger, s.host, s.wallet, he, s.proposal.(*HeartbeatProposal), fc, ce, start, expiry, w.wait)
				signD, claimD, hasClaim = &he.d, &ce.d, true
			default:
				ex := &c46TxExecutor{w: w, sigs: s.sigs}
				signD = &ex.d
				switch kind {
				case ActionDepositSweep:
					a := newDepositSweepAction(logger.With(), s.host, s.btc, s.wallet, ex, s.proposal.(*DepositSweepProposal), start, expiry, w.wait)
					bt = a.broadcastTimeout
					a.broadcastCheckDelay = time.Millisecond
					act = a
				case ActionRedemption:
					a := newRedemptionAction(logger.With(), s.host, s.btc, s.wallet, ex, s.proposal.(*RedemptionProposal), start, expiry, w.wait)
					bt = a.broadcastTimeout
					a.broadcastCheckDelay = time.Millisecond
					act = a
				case ActionMovingFunds:
					a := newMovingFundsAction(logger.With(), s.host, s.btc, s.wallet, ex, s.proposal.(*MovingFundsProposal), start, expiry, w.wait)
					bt = a.broadcastTimeout
					a.broadcastCheckDelay = time.Millisecond
					act = a
				case ActionMovedFundsSweep:
					a := newMovedFundsSweepAction(logger.With(), s.host, s.btc, s.wallet, ex, s.proposal.(*MovedFundsSweepProposal), start, expiry, w.wait)
					bt = a.broadcastTimeout
					a.broadcastCheckDelay = time.Millisecond
					act = a
				}
				if s.tune != nil {
					s.tune(act)
				}
			}
			var execErr error
			returned, panicked := r.Within(4*c46Watchdog, "actions:", desc, func() { execErr = act.execute() })
			c46Flush(s.clk)
			if panicked {
				continue
			}
			if !returned {
				r.Inconclusive("action did not return: " + desc)
				continue
			}
			if !signD.Called || !signD.RegistrationOK || !signD.ContextEnded {
				r.Inconclusive(fmt.Sprintf("%s: signing step not observed (err=%v, stub=%+v)", desc, execErr, *signD))
				r.Case(desc, false)
				continue
			}
			postOK := false
			if hasClaim {
				postOK = claimD.Called && claimD.RegistrationOK && claimD.ContextEnded
			} else if execErr == nil {
				if _, err := s.btc.GetTransaction(s.wantTx); err == nil {
					postOK = true
				}
			}
			if !postOK {
				r.Inconclusive(fmt.Sprintf("%s: post-signing step not observed (err=%v)", desc, execErr))
			}
			r.Case(desc, postOK)
			wit := map[string]interface{}{"signing": *signD, "documented_validity": doc.validity, "documented_signing_margin": doc.signMargin,
				"loop_blocks": L, "chain_counter_calls": s.counter.calls()}
			if hasClaim {
				wit["claim"] = *claimD
			} else {
				wit["broadcast_timeout"] = bt.String()
			}
			name := kind.String()
			// 1. signing does not start before the action
			if signD.StartBlock < start {
				r.Violation("actions:"+name+":signing-starts-before-action", fmt.Sprintf("signing start block %d is before the action start %d", signD.StartBlock, start), desc, wit)
			}
			// 2. signing ends at least the documented margin before expiry
			D := signD.WaitTarget
			if D > expiry-doc.signMargin || D > expiry {
				r.Violation("actions:"+name+":signing-deadline-inside-margin", fmt.Sprintf("signing context is cancelled at block %d; documented: at least %d blocks before the expiry %d, i.e. not after %d", D, doc.signMargin, expiry, expiry-doc.signMargin), desc, wit)
			}
			if signD.EarlyCancel {
				r.Violation("actions:"+name+":signing-context-cancelled-early", fmt.Sprintf("signing context was already cancelled one block before the block (%d) the action waits for", D), desc, wit)
			}
			// 3. room for one complete retry loop
			if D < signD.StartBlock || D-signD.StartBlock < L {
				r.Violation("actions:"+name+":no-room-for-one-signing-loop", fmt.Sprintf("signing may run from block %d to %d, one complete signing retry loop takes %d blocks", signD.StartBlock, D, L), desc, wit)
			}
			// 4. post-signing steps end before expiry
			if hasClaim {
				if claimD.Called && claimD.RegistrationOK {
					C := claimD.WaitTarget
					if C > expiry-c46HeartbeatClaimMargin || C > expiry {
						r.Violation("actions:"+name+":claim-deadline-inside-margin", fmt.Sprintf("inactivity claim context is cancelled at block %d; documented: %d blocks before the expiry %d", C, c46HeartbeatClaimMargin, expiry), desc, wit)
					}
					if claimD.EarlyCancel {
						r.Violation("actions:"+name+":claim-context-cancelled-early", "inactivity claim context ended before the block the action waits for", desc, wit)
					}
				}
			} else {
				end := D + c46Blocks(bt)
				if end > expiry || end < D {
					r.Violation("actions:"+name+":broadcast-overruns-expiry", fmt.Sprintf("signing may end at block %d and the broadcast step may take %v = %d blocks of 12 s: block %d is after the expiry %d", D, bt, c46Blocks(bt), end, expiry), desc, wit)
				}
			}
			if start == 899 {
				smp := map[string]interface{}{"action": name, "start": start, "expiry": expiry, "signing_start": signD.StartBlock, "signing_deadline": D, "loop_blocks": L}
				if hasClaim {
					smp["claim_deadline"] = claimD.WaitTarget
				} else {
					smp["broadcast_timeout"] = bt.String()
				}
				r.Sample(smp)
			}
		}
	}
}

// ------------------------------------------------------------- Node monitor

var c46CoordinationBlocks = []uint64{0, 900, 999900, 1 << 40, (1 << 63) - 1400}

func TestVerif_C46_Node(t *testing.T) {
	r := verifkit.Start(t, "C46", "node")
	defer r.Finish()
	r.SetRule("exhaustive grid: 5 action types x coordination blocks {0,900,999900,2^40,2^63-1400}; node.processCoordinationResult dispatches the real action with the node's real signing executor (one local signer: every attempt is a minority, the loop runs to exhaustion) on a virtual chain. non-trivial = the action's deadline wait and the executor's loop-timeout wait were both observed")
	r.SetExhaustive(true)
	for _, kind := range c46Actions {
		for _, cb := range c46CoordinationBlocks {
			doc := c46Docs[kind]
			window := newCoordinationWindow(cb)
			start := window.endBlock() // the action start, by definition the end of the window
			desc := fmt.Sprintf("node action=%s coordinationBlock=%d start=%d", kind, cb, start)
			s, err := c46NewSetup(kind, start)
			if err != nil {
				r.Inconclusive("set-up: " + err.Error())
				continue
			}
			cn, err := c46BuildNode(t, s)
			if err != nil {
				r.Inconclusive("node: " + err.Error())
				continue
			}
			busy := func() bool {
				cn.node.walletDispatcher.actionsMutex.Lock()
				defer cn.node.walletDispatcher.actionsMutex.Unlock()
				return len(cn.node.walletDispatcher.actions) > 0
			}
			if r.Guard("node:", desc, func() {
				processCoordinationResult(cn.node, &coordinationResult{wallet: s.wallet, window: window, proposal: s.proposal})
			}) {
				continue
			}
			if !busy() && len(cn.execRec.records()) == 0 {
				r.Inconclusive("action was not dispatched: " + desc)
				continue
			}
			finished := c46Drive(s.clk, func() int { return len(cn.execRec.records()) + len(s.counter.calls()) }, func() bool { return !busy() })
			c46Flush(s.clk)
			if !finished {
				r.Inconclusive("dispatched action did not end: " + desc)
				continue
			}
			// the action's own waits go through node.waitForBlockHeight, i.e.
			// BlockHeightWaiter of the chain's block counter
			var deadlines []uint64
			for _, c := range s.counter.calls() {
				if c.Method == "BlockHeightWaiter" {
					deadlines = append(deadlines, c.Block)
				}
			}
			recs := cn.execRec.records()
			lt, minW, loopWaits, okLT := c46LoopTimeout(recs, nil)
			if len(deadlines) != 1 || !okLT {
				r.Case(desc, false)
				r.Inconclusive(fmt.Sprintf("%s: expected one deadline wait of the action and an identifiable executor loop timeout; got deadlines=%v executor waits=%v", desc, deadlines, c46Targets(recs)))
				continue
			}
			r.Case(desc, true)
			D := deadlines[0]
			name := kind.String()
			wit := map[string]interface{}{"action_start": start, "deadline_wait": D, "executor_loop_timeout_wait": lt, "executor_first_wait": minW,
				"executor_waits": c46Targets(recs), "chain_counter_calls": s.counter.calls(), "documented_validity": doc.validity, "documented_signing_margin": doc.signMargin}
			if minW < start || lt < start {
				r.Violation("node:"+name+":signing-starts-before-action", fmt.Sprintf("the signing executor waits for block %d, before the action start %d", minW, start), desc, wit)
			}
			limit := start + doc.validity - doc.signMargin
			if D > limit {
				r.Violation("node:"+name+":signing-deadline-inside-margin", fmt.Sprintf("signing context is cancelled at block %d; documented: validity %d blocks from the start %d, signing ends %d blocks earlier, i.e. not after %d", D, doc.validity, start, doc.signMargin, limit), desc, wit)
			}
			if lt > D {
				r.Violation("node:"+name+":no-room-for-one-signing-loop", fmt.Sprintf("the signing executor would give up at block %d, after the signing deadline %d: one complete retry loop does not fit", lt, D), desc, wit)
			}
			if cb == 900 {
				r.Sample(map[string]interface{}{"action": name, "coordination_block": cb, "action_start": start, "signing_deadline_wait": D,
					"executor_first_wait": minW, "executor_gives_up_at": lt, "executor_loop_waits": loopWaits})
			}
		}
	}
}
