//go:build verif

package tbtc

// C46 — wallet action deadlines nest inside the proposal validity window.
//
// The numbers the oracle uses are the DOCUMENTED ones, typed in here from the
// comments / declarations in the sources (never read from the constants):
//
//   heartbeat.go         total proposal validity 600 blocks ("roughly 2 hours"),
//                        300 blocks preserved for the inactivity claim,
//                        safety margin 25 blocks ("roughly 5 minutes")
//   deposit_sweep.go     validity 1200 blocks ("roughly 4 hours"), signing
//                        safety margin 300 blocks ("roughly 1 hour"), broadcast
//                        timeout = 25% of that margin (15 minutes)
//   redemption.go        validity 600, margin 300
//   moving_funds.go      validity 650 ("2 hours and 10 minutes"), margin 300
//   moved_funds_sweep.go validity 600, margin 300
//   block time           12 seconds (every one of those comments)
//
// Three monitors:
//   Loop    runs the real signingExecutor (as configured by node.
//           getSigningExecutor) for one message on a virtual block counter and
//           observes the block at which it gives up: the length of one
//           complete signing retry loop.
//   Actions executes every action type (newXAction(...).execute()) for every
//           start block of the grid with recording stubs: the signing executor
//           stub records startBlock and its context, learns from the action's
//           own waitForBlockFn call which block cancels that context, moves
//           the virtual chain there and sees the context end; the broadcast
//           step runs for real (its timeout is read from the action after
//           construction); the heartbeat's inactivity claim context likewise.
//   Node    feeds node.processCoordinationResult with a coordination result
//           for every action type; the real signing executor (one local
//           signer, so every attempt ends with a minority) runs the retry
//           loop to exhaustion; observed: the deadline the action waits for
//           on the chain's block counter, every block the executor waits for.

import (
	"bytes"
	"context"
	"fmt"
	"math/big"
	"runtime"
	"sort"
	"strings"
	"sync"
	"testing"
	"time"

	"github.com/keep-network/keep-core/internal/verifkit"
	"github.com/keep-network/keep-core/pkg/bitcoin"
	"github.com/keep-network/keep-core/pkg/generator"
	"github.com/keep-network/keep-core/pkg/net/local"
	"github.com/keep-network/keep-core/pkg/protocol/group"
	"github.com/keep-network/keep-core/pkg/tbtc/internal/test"
	"github.com/keep-network/keep-core/pkg/tecdsa"
)

// ---- documented numbers (see the header)

type c46Doc struct {
	validity   uint64 // proposal validity, blocks
	signMargin uint64 // blocks that must remain after the signing deadline
}

var c46Docs = map[WalletActionType]c46Doc{
	ActionHeartbeat:       {600, 300},
	ActionDepositSweep:    {1200, 300},
	ActionRedemption:      {600, 300},
	ActionMovingFunds:     {650, 300},
	ActionMovedFundsSweep: {600, 300},
}

const (
	c46HeartbeatClaimMargin = 25               // blocks between the claim deadline and the expiry
	c46BlockTime            = 12 * time.Second // nominal host chain block time
	c46Watchdog             = 40 * time.Second
)

var c46Actions = []WalletActionType{ActionHeartbeat, ActionDepositSweep, ActionRedemption, ActionMovingFunds, ActionMovedFundsSweep}

// ---- chain / bitcoin wrappers

type c46CounterCall struct {
	Method string `json:"method"`
	Block  uint64 `json:"block"`
	At     uint64 `json:"at_height"`
}

// c46Counter is the chain's block counter: a virtual clock that records how
// it is used. WaitForBlockHeight (the blocking form, used by
// WaitForBlockConfirmations) lets the chain reach the block.
type c46Counter struct {
	clk *verifkit.Clock
	mu  sync.Mutex
	log []c46CounterCall
}

func (c *c46Counter) rec(m string, b uint64) {
	c.mu.Lock()
	c.log = append(c.log, c46CounterCall{m, b, c.clk.Height()})
	c.mu.Unlock()
}
func (c *c46Counter) calls() []c46CounterCall {
	c.mu.Lock()
	defer c.mu.Unlock()
	return append([]c46CounterCall(nil), c.log...)
}
func (c *c46Counter) WaitForBlockHeight(b uint64) error {
	c.rec("WaitForBlockHeight", b)
	c.clk.Set(b, false)
	return nil
}
func (c *c46Counter) BlockHeightWaiter(b uint64) (<-chan uint64, error) {
	c.rec("BlockHeightWaiter", b)
	return c.clk.BlockHeightWaiter(b)
}
func (c *c46Counter) CurrentBlock() (uint64, error)                 { return c.clk.Height(), nil }
func (c *c46Counter) WatchBlocks(ctx context.Context) <-chan uint64 { return c.clk.WatchBlocks(ctx) }

type c46Chain struct {
	*localChain
}

// whatever look-back filter the action computes from the current block, no
// other wallet has committed to move funds to this one
func (c *c46Chain) PastMovingFundsCommitmentSubmittedEvents(filter *MovingFundsCommitmentSubmittedEventFilter) ([]*MovingFundsCommitmentSubmittedEvent, error) {
	return []*MovingFundsCommitmentSubmittedEvent{}, nil
}

type c46Btc struct {
	*localBitcoinChain
}

// every known transaction is deeply confirmed
func (b *c46Btc) GetTransactionConfirmations(h bitcoin.Hash) (uint, error) {
	n, err := b.localBitcoinChain.GetTransactionConfirmations(h)
	if err != nil {
		return 0, err
	}
	return n + 100, nil
}

// ---- scenario set-up (mirrors the package's own action tests)

type c46Setup struct {
	kind     WalletActionType
	host     *c46Chain
	counter  *c46Counter
	clk      *verifkit.Clock
	btc      *c46Btc
	wallet   wallet
	proposal CoordinationProposal
	sigs     []*tecdsa.Signature
	wantTx   bitcoin.Hash
	tune     func(a walletAction)
}

func c46RawSigs(cs ...*bitcoin.SignatureContainer) []*tecdsa.Signature {
	var out []*tecdsa.Signature
	for _, c := range cs {
		out = append(out, &tecdsa.Signature{R: c.R, S: c.S})
	}
	return out
}

func c46NewSetup(kind WalletActionType, height uint64) (*c46Setup, error) {
	s := &c46Setup{kind: kind}
	s.clk = verifkit.NewClock(height)
	s.counter = &c46Counter{clk: s.clk}
	lc := Connect()
	lc.blockCounter = s.counter
	s.host = &c46Chain{lc}
	s.btc = &c46Btc{newLocalBitcoinChain()}
	switch kind {
	case ActionHeartbeat:
		p := &HeartbeatProposal{Message: [16]byte{0xff, 0xff, 0xff, 0xff, 0xff, 0xff, 0xff, 0xff, 0, 0, 0, 0, 0, 0, 0, 1}}
		lc.setOperatorsEligibleStake(big.NewInt(100000))
		lc.setHeartbeatProposalValidationResult(p, true)
		s.proposal = p
	case ActionDepositSweep:
		scs, err := test.LoadDepositSweepTestScenarios()
		if err != nil || len(scs) == 0 {
			return nil, fmt.Errorf("deposit sweep scenarios: %v", err)
		}
		sc := scs[0]
		s.wallet = wallet{publicKey: sc.WalletPublicKey}
		pkh := bitcoin.PublicKeyHash(sc.WalletPublicKey)
		for _, tx := range sc.InputTransactions {
			if err := s.btc.BroadcastTransaction(tx); err != nil {
				return nil, err
			}
		}
		keys := make([]struct {
			FundingTxHash      bitcoin.Hash
			FundingOutputIndex uint32
		}, len(sc.Deposits))
		extra := make([]struct {
			*Deposit
			FundingTx *bitcoin.Transaction
		}, len(sc.Deposits))
		reveal := make([]*big.Int, len(sc.Deposits))
		for i, d := range sc.Deposits {
			h, idx := d.Utxo.Outpoint.TransactionHash, d.Utxo.Outpoint.OutputIndex
			ftx, err := s.btc.GetTransaction(h)
			if err != nil {
				return nil, err
			}
			keys[i].FundingTxHash, keys[i].FundingOutputIndex = h, idx
			extra[i].Deposit, extra[i].FundingTx = (*Deposit)(d), ftx
			rb := uint64(100 * i)
			reveal[i] = big.NewInt(int64(rb))
			if err := lc.setPastDepositRevealedEvents(&DepositRevealedEventFilter{StartBlock: rb, EndBlock: &rb, WalletPublicKeyHash: [][20]byte{pkh}},
				[]*DepositRevealedEvent{{FundingTxHash: h, FundingOutputIndex: idx, Depositor: d.Depositor, Amount: uint64(d.Utxo.Value),
					BlindingFactor: d.BlindingFactor, WalletPublicKeyHash: d.WalletPublicKeyHash, RefundPublicKeyHash: d.RefundPublicKeyHash,
					RefundLocktime: d.RefundLocktime, Vault: d.Vault, BlockNumber: rb}}); err != nil {
				return nil, err
			}
			lc.setDepositRequest(h, idx, &DepositChainRequest{Depositor: d.Depositor, Amount: uint64(d.Utxo.Value), Vault: d.Vault, ExtraData: d.ExtraData})
		}
		p := &DepositSweepProposal{DepositsKeys: keys, SweepTxFee: big.NewInt(sc.Fee), DepositsRevealBlocks: reveal}
		if err := lc.setDepositSweepProposalValidationResult(pkh, p, extra, true); err != nil {
			return nil, err
		}
		var mh [32]byte
		if sc.WalletMainUtxo != nil {
			mh = lc.ComputeMainUtxoHash(sc.WalletMainUtxo)
		}
		lc.setWallet(pkh, &WalletChainData{MainUtxoHash: mh})
		s.proposal, s.sigs, s.wantTx = p, c46RawSigs(sc.Signatures...), sc.ExpectedSweepTransactionHash
	case ActionRedemption:
		scs, err := test.LoadRedemptionTestScenarios()
		if err != nil || len(scs) == 0 {
			return nil, fmt.Errorf("redemption scenarios: %v", err)
		}
		sc := scs[0]
		s.wallet = wallet{publicKey: sc.WalletPublicKey}
		pkh := bitcoin.PublicKeyHash(sc.WalletPublicKey)
		if err := s.btc.BroadcastTransaction(sc.InputTransaction); err != nil {
			return nil, err
		}
		scripts := make([]bitcoin.Script, len(sc.RedemptionRequests))
		for i, q := range sc.RedemptionRequests {
			lc.setPendingRedemptionRequest(pkh, &RedemptionRequest{Redeemer: q.Redeemer, RedeemerOutputScript: q.RedeemerOutputScript,
				RequestedAmount: q.RequestedAmount, TreasuryFee: q.TreasuryFee, TxMaxFee: q.TxMaxFee, RequestedAt: q.RequestedAt})
			scripts[i] = q.RedeemerOutputScript
		}
		total := int64(0)
		for _, f := range sc.FeeShares {
			total += f
		}
		p := &RedemptionProposal{RedeemersOutputScripts: scripts, RedemptionTxFee: big.NewInt(total)}
		if err := lc.setRedemptionProposalValidationResult(pkh, p, true); err != nil {
			return nil, err
		}
		var mh [32]byte
		if sc.WalletMainUtxo != nil {
			mh = lc.ComputeMainUtxoHash(sc.WalletMainUtxo)
		}
		lc.setWallet(pkh, &WalletChainData{MainUtxoHash: mh})
		s.proposal, s.sigs, s.wantTx = p, c46RawSigs(sc.Signature), sc.ExpectedRedemptionTransactionHash
		shares := sc.FeeShares
		s.tune = func(a walletAction) {
			ra := a.(*redemptionAction)
			ra.feeDistribution = func([]*RedemptionRequest) []int64 { return shares }
			ra.transactionShape = RedemptionChangeLast
		}
	case ActionMovingFunds:
		scs, err := test.LoadMovingFundsTestScenarios()
		if err != nil || len(scs) == 0 {
			return nil, fmt.Errorf("moving funds scenarios: %v", err)
		}
		sc := scs[0]
		s.wallet = wallet{publicKey: sc.WalletPublicKey}
		pkh := bitcoin.PublicKeyHash(sc.WalletPublicKey)
		if err := s.btc.BroadcastTransaction(sc.InputTransaction); err != nil {
			return nil, err
		}
		p := &MovingFundsProposal{TargetWallets: sc.TargetWallets, MovingFundsTxFee: big.NewInt(sc.Fee)}
		lc.SetMovingFundsParameters(0, 0, 0, 604800, big.NewInt(0), 0, 0, 0, 0, big.NewInt(0), 0)
		if err := lc.setMovingFundsProposalValidationResult(pkh, sc.WalletMainUtxo, p, true); err != nil {
			return nil, err
		}
		lc.setWallet(pkh, &WalletChainData{MainUtxoHash: lc.ComputeMainUtxoHash(sc.WalletMainUtxo),
			MovingFundsTargetWalletsCommitmentHash: lc.ComputeMovingFundsCommitmentHash(sc.TargetWallets)})
		s.proposal, s.sigs, s.wantTx = p, c46RawSigs(sc.Signature), sc.ExpectedMovingFundsTransactionHash
	case ActionMovedFundsSweep:
		scs, err := test.LoadMovedFundsSweepTestScenarios()
		if err != nil || len(scs) == 0 {
			return nil, fmt.Errorf("moved funds sweep scenarios: %v", err)
		}
		sc := scs[0]
		s.wallet = wallet{publicKey: sc.WalletPublicKey}
		pkh := bitcoin.PublicKeyHash(sc.WalletPublicKey)
		for _, tx := range sc.InputTransactions {
			if err := s.btc.BroadcastTransaction(tx); err != nil {
				return nil, err
			}
		}
		p := &MovedFundsSweepProposal{SweepTxFee: big.NewInt(sc.Fee), MovingFundsTxHash: sc.MovedFundsUtxo.Outpoint.TransactionHash,
			MovingFundsTxOutputIndex: sc.MovedFundsUtxo.Outpoint.OutputIndex}
		if err := lc.setMovedFundsSweepProposalValidationResult(pkh, p, true); err != nil {
			return nil, err
		}
		var mh [32]byte
		if sc.WalletMainUtxo != nil {
			mh = lc.ComputeMainUtxoHash(sc.WalletMainUtxo)
		}
		lc.setWallet(pkh, &WalletChainData{MainUtxoHash: mh})
		s.proposal, s.sigs, s.wantTx = p, c46RawSigs(sc.Signatures...), sc.ExpectedMovedFundsSweepTransactionHash
	}
	return s, nil
}

// ---- block waits of the code under test

type c46WaitRec struct {
	ctx    context.Context
	Target uint64 `json:"target"`
	At     uint64 `json:"at_height"`
}

// c46Waits is a waitForBlockFn that reports each call and then behaves like
// node.waitForBlockHeight on the virtual clock.
type c46Waits struct {
	clk *verifkit.Clock
	ch  chan uint64 // registrations, for the stub that follows the go statement
	mu  sync.Mutex
	log []c46WaitRec
}

func c46NewWaits(clk *verifkit.Clock) *c46Waits {
	return &c46Waits{clk: clk, ch: make(chan uint64, 1024)}
}

func (w *c46Waits) wait(ctx context.Context, b uint64) error {
	w.mu.Lock()
	w.log = append(w.log, c46WaitRec{ctx, b, w.clk.Height()})
	w.mu.Unlock()
	select {
	case w.ch <- b:
	default:
	}
	c, _ := w.clk.BlockHeightWaiter(b)
	select {
	case <-c:
	case <-ctx.Done():
	}
	return nil
}

func (w *c46Waits) records() []c46WaitRec {
	w.mu.Lock()
	defer w.mu.Unlock()
	return append([]c46WaitRec(nil), w.log...)
}

// c46Deadline is what a stub saw of the context it was given.
type c46Deadline struct {
	Called         bool   `json:"called"`
	StartBlock     uint64 `json:"start_block_argument"`
	HeightAtCall   uint64 `json:"height_at_call"`
	WaitTarget     uint64 `json:"block_that_cancels_the_context"`
	EarlyCancel    bool   `json:"cancelled_before_that_block"`
	CancelledAt    uint64 `json:"context_seen_done_at_height"`
	ContextEnded   bool   `json:"context_ended"`
	RegistrationOK bool   `json:"wait_registered"`
}

// observe is run inside a stub: the action registered (with `go`) the wait
// that cancels ctx just before calling the stub. The stub moves the chain to
// one block before that target, then onto it, and sees the context end.
func (w *c46Waits) observe(ctx context.Context, d *c46Deadline) {
	d.Called = true
	d.HeightAtCall = w.clk.Height()
	select {
	case T := <-w.ch:
		d.WaitTarget, d.RegistrationOK = T, true
	case <-time.After(c46Watchdog):
		return
	}
	T := d.WaitTarget
	if T > 0 && T-1 > d.HeightAtCall {
		w.clk.Set(T-1, false)
	}
	if w.clk.Height() < T {
		for i := 0; i < 200; i++ {
			runtime.Gosched()
		}
		if ctx.Err() != nil {
			d.EarlyCancel = true
		}
	}
	w.clk.Set(T, false)
	select {
	case <-ctx.Done():
		d.ContextEnded = true
		d.CancelledAt = w.clk.Height()
	case <-time.After(c46Watchdog):
	}
}

type c46TxExecutor struct {
	w    *c46Waits
	sigs []*tecdsa.Signature
	d    c46Deadline
	msgs int
}

func (e *c46TxExecutor) signBatch(ctx context.Context, messages []*big.Int, startBlock uint64) ([]*tecdsa.Signature, error) {
	e.d.StartBlock = startBlock
	e.msgs = len(messages)
	e.w.observe(ctx, &e.d)
	// signing "completes" at the last possible moment
	return e.sigs, nil
}

type c46HbExecutor struct {
	w *c46Waits
	d c46Deadline
}

func (e *c46HbExecutor) sign(ctx context.Context, message *big.Int, startBlock uint64) (*tecdsa.Signature, *signingActivityReport, uint64, error) {
	e.d.StartBlock = startBlock
	e.w.observe(ctx, &e.d)
	// signature produced, but nobody else was active: an inactivity failure
	rep := &signingActivityReport{activeMembers: []group.MemberIndex{1}}
	for i := 2; i <= 100; i++ {
		rep.inactiveMembers = append(rep.inactiveMembers, group.MemberIndex(i))
	}
	return &tecdsa.Signature{R: big.NewInt(1), S: big.NewInt(1)}, rep, e.w.clk.Height(), nil
}

type c46ClaimExecutor struct {
	w *c46Waits
	d c46Deadline
}

func (e *c46ClaimExecutor) claimInactivity(ctx context.Context, inactive []group.MemberIndex, heartbeatFailed bool, sessionID *big.Int) error {
	e.w.observe(ctx, &e.d)
	return nil
}

func c46Blocks(d time.Duration) uint64 {
	return uint64((d + c46BlockTime - 1) / c46BlockTime)
}

// ------------------------------------------------------------- Loop monitor

type c46Node struct {
	node    *node
	signer  *signer
	exec    *signingExecutor
	execRec *c46Waits
}

type c46AlwaysBusy struct{}

func (c46AlwaysBusy) IsExecuting() bool { return true }

var (
	c46SchedOnce sync.Once
	c46Sched     *generator.Scheduler
)

// c46Scheduler returns one scheduler shared by all nodes of the test, kept in
// the "stopped" state by a protocol that is always executing: otherwise every
// node would start generating tECDSA pre-parameters (minutes of CPU) in the
// background. The sleep lets the scheduler's one-second check loop notice the
// protocol; it is set-up only, no verdict depends on it.
func c46Scheduler() *generator.Scheduler {
	c46SchedOnce.Do(func() {
		c46Sched = generator.StartScheduler()
		c46Sched.RegisterProtocol(c46AlwaysBusy{})
		time.Sleep(1500 * time.Millisecond)
	})
	return c46Sched
}

// c46BuildNode makes a node that controls one signer (member 1 of 5) of the
// set-up's wallet, with the chain's block counter being the recording counter.
// The node's own signing executor is created by node.getSigningExecutor (so
// its attempt limit is the node's), then its two block functions are pointed
// at a recorder on the same clock.
func c46BuildNode(t *testing.T, s *c46Setup) (*c46Node, error) {
	sg := createMockSigner(t)
	if s.wallet.publicKey != nil {
		sg.wallet.publicKey = s.wallet.publicKey
	}
	s.wallet = sg.wallet
	pub := sg.wallet.publicKey
	pkh := bitcoin.PublicKeyHash(pub)
	id, err := s.host.CalculateWalletID(pub)
	if err != nil {
		return nil, err
	}
	s.host.walletsMutex.Lock()
	wd := s.host.wallets[pkh]
	if wd == nil {
		wd = &WalletChainData{}
		s.host.wallets[pkh] = wd
	}
	wd.EcdsaWalletID = id
	wd.State = StateLive
	s.host.walletsMutex.Unlock()
	gp := &GroupParameters{GroupSize: 5, GroupQuorum: 4, HonestThreshold: 3}
	n, err := newNode(gp, s.host, s.btc, local.Connect(), createMockKeyStorePersistence(t, sg), &mockPersistenceHandle{},
		c46Scheduler(), &mockCoordinationProposalGenerator{}, Config{})
	if err != nil {
		return nil, err
	}
	exec, ok, err := n.getSigningExecutor(pub)
	if err != nil || !ok {
		return nil, fmt.Errorf("no signing executor: ok=%v err=%v", ok, err)
	}
	rec := c46NewWaits(s.clk)
	exec.waitForBlockFn = rec.wait
	exec.getCurrentBlockFn = func() (uint64, error) { return s.clk.Height(), nil }
	return &c46Node{n, sg, exec, rec}, nil
}

// c46AllBlocked reports whether every goroutine of the process other than
// the caller is blocked (channel, select, mutex, sleep, ...): a stop-the-world
// snapshot of the goroutine states. When it is true nothing is in flight: the
// code under test can only continue when the virtual chain moves (or a
// real-time timer of an unrelated background goroutine fires).
func c46AllBlocked() bool {
	buf := make([]byte, 1<<20)
	for {
		n := runtime.Stack(buf, true)
		if n < len(buf) {
			buf = buf[:n]
			break
		}
		buf = make([]byte, 2*len(buf))
	}
	for k, g := range bytes.Split(buf, []byte("\n\n")) {
		if k == 0 || !bytes.HasPrefix(g, []byte("goroutine ")) {
			continue // k == 0: the caller itself
		}
		i, j := bytes.IndexByte(g, '['), bytes.IndexByte(g, ']')
		if i < 0 || j < i {
			return false
		}
		st := string(g[i+1 : j])
		if c := strings.IndexByte(st, ','); c >= 0 { // "select, 2 minutes"
			st = st[:c]
		}
		blocked := false
		for _, p := range c46BlockedStates {
			if strings.HasPrefix(st, p) {
				blocked = true
				break
			}
		}
		if !blocked && st == "syscall" && bytes.Contains(g, []byte("os/signal.")) {
			blocked = true // the signal watcher sits in a syscall for ever
		}
		if st == "semacquire" && !bytes.Contains(g, []byte("sync.runtime_Sem")) {
			// a semaphore of the runtime itself, e.g. a goroutine that wants to
			// start a GC cycle and waits for THIS stop-the-world to end: it is
			// in flight, not parked by the code under test
			blocked = false
		}
		if !blocked {
			return false // running, runnable, in a (logging) syscall, ...
		}
	}
	return true
}

// goroutine wait reasons that mean "parked until somebody else acts"
var c46BlockedStates = []string{"chan receive", "chan send", "select", "sleep", "semacquire", "sync.", "IO wait",
	"finalizer wait", "GC worker (idle)", "GC sweep wait", "GC scavenge wait", "force gc (idle)", "trace reader", "timer goroutine (idle)", "cleanup wait"}

// c46Drive moves the virtual chain to the next block somebody waits for, but
// only at instants at which every goroutine is blocked, until done(). The
// chain therefore never moves while a consequence of the previous block is
// still being computed: the height at which something happens (a function
// returns, a wait is registered) is exact, not "at least".
func c46Drive(clk *verifkit.Clock, done func() bool) bool {
	limit := time.Now().Add(3 * c46Watchdog)
	for !done() {
		if time.Now().After(limit) {
			return false
		}
		if !c46AllBlocked() {
			time.Sleep(50 * time.Microsecond)
			continue
		}
		if done() {
			break
		}
		if b, ok := clk.NextWaited(); ok {
			clk.Set(b, false)
		} else {
			time.Sleep(200 * time.Microsecond)
		}
	}
	return true
}

// c46Flush releases the waits that are still parked (contexts derived from
// context.Background are only released by the chain reaching their block).
func c46Flush(clk *verifkit.Clock) {
	for i := 0; i < 100; i++ {
		b, ok := clk.NextWaited()
		if !ok {
			time.Sleep(time.Millisecond)
			if _, ok = clk.NextWaited(); !ok {
				return
			}
			continue
		}
		clk.Set(b, false)
	}
}

// c46Loop is what one run of the real signing executor for one message showed.
type c46Loop struct {
	L        uint64 // blocks from the start block to the block at which sign() returned its failure
	firstRel uint64 // first block the executor waits for, relative to the start block
	recs     []c46WaitRec
}

// c46MeasureLoop runs the node's real signing executor for one message from
// block S on a virtual chain (one local signer of five: every attempt is a
// minority) and observes at which block sign() gives up. The chain only moves
// when everything is blocked (c46Drive), so that block is exact.
func c46MeasureLoop(t *testing.T, r *verifkit.Run, S uint64) (c46Loop, bool) {
	var out c46Loop
	s, err := c46NewSetup(ActionHeartbeat, S)
	if err != nil {
		r.Inconclusive("set-up: " + err.Error())
		return out, false
	}
	cn, err := c46BuildNode(t, s)
	if err != nil {
		r.Inconclusive("node: " + err.Error())
		return out, false
	}
	var done bool
	var retAt uint64
	var signErr error
	var dmu sync.Mutex
	go func() {
		r.Guard("loop:", fmt.Sprintf("sign start=%d", S), func() {
			_, _, _, signErr = cn.exec.sign(context.Background(), big.NewInt(0x5eed), S)
		})
		h := s.clk.Height()
		dmu.Lock()
		retAt, done = h, true
		dmu.Unlock()
	}()
	finished := c46Drive(s.clk, func() bool { dmu.Lock(); defer dmu.Unlock(); return done })
	out.recs = cn.execRec.records()
	c46Flush(s.clk)
	if !finished {
		r.Inconclusive(fmt.Sprintf("real signing executor did not give up (start %d)", S))
		return out, false
	}
	if signErr == nil || len(out.recs) == 0 {
		r.Inconclusive(fmt.Sprintf("real signing executor run not usable (start %d, err=%v, %d waits)", S, signErr, len(out.recs)))
		return out, false
	}
	minW := out.recs[0].Target
	for _, x := range out.recs {
		if x.Target < minW {
			minW = x.Target
		}
	}
	if minW < S || retAt < S {
		r.Violation("loop:before-start", fmt.Sprintf("the signing executor started at block %d waits for block %d / returns at block %d", S, minW, retAt), fmt.Sprintf("sign start=%d", S), nil)
		return out, false
	}
	out.L, out.firstRel = retAt-S, minW-S
	return out, true
}

func c46Targets(recs []c46WaitRec) []uint64 {
	var out []uint64
	for _, x := range recs {
		out = append(out, x.Target)
	}
	return out
}

var c46LoopStarts = []uint64{0, 1000000, 1 << 40}

// c46LoopLength returns the loop measured at the first start block.
// A late observation can only make the loop look longer, never shorter, so
// the minimum of repeated measurements is taken.
func c46LoopLength(t *testing.T, r *verifkit.Run) (c46Loop, bool) {
	return c46MeasureLoopMin(t, r, 0, 2)
}

func c46MeasureLoopMin(t *testing.T, r *verifkit.Run, S uint64, times int) (c46Loop, bool) {
	var best c46Loop
	got := false
	for i := 0; i < times; i++ {
		lp, ok := c46MeasureLoop(t, r, S)
		if ok && (!got || lp.L < best.L) {
			best, got = lp, true
		}
	}
	return best, got
}

func TestVerif_C46_Loop(t *testing.T) {
	r := verifkit.Start(t, "C46", "loop")
	defer r.Finish()
	r.SetRule("the node's own signing executor (attempt limit as configured by node.getSigningExecutor, one local signer of five so that every attempt ends in a minority) signs one message from start blocks {0,1e6,2^40} on a virtual chain; observed: the block at which sign() returns its failure (the chain only moves while every goroutine is blocked, so the block is exact) and all block waits of the executor. non-trivial = the loop ran to exhaustion")
	var Ls []uint64
	for _, S := range c46LoopStarts {
		lp, ok := c46MeasureLoopMin(t, r, S, 2)
		if !ok {
			continue
		}
		L, recs := lp.L, lp.recs
		r.Case(fmt.Sprintf("loop start=%d", S), len(recs) >= 3)
		Ls = append(Ls, L)
		tg := c46Targets(recs)
		for i := range tg {
			tg[i] -= S
		}
		sort.Slice(tg, func(i, j int) bool { return tg[i] < tg[j] })
		r.Sample(map[string]interface{}{"start": S, "gives_up_after_blocks": L, "waits_relative_to_start": tg})
	}
	for _, L := range Ls {
		if L != Ls[0] {
			r.Violation("loop:length-depends-on-start", fmt.Sprintf("one complete signing retry loop takes %v blocks depending on the start block", Ls), "loop", nil)
		}
	}
	// every documented signing window must hold one complete loop
	if len(Ls) > 0 {
		for _, a := range c46Actions {
			d := c46Docs[a]
			if d.validity-d.signMargin < Ls[0] {
				r.Violation("loop:longer-than-documented-window:"+a.String(), fmt.Sprintf("one complete signing retry loop takes %d blocks, the documented signing window of %s is %d-%d=%d blocks", Ls[0], a, d.validity, d.signMargin, d.validity-d.signMargin), "loop", nil)
			}
		}
		r.Count("loop_blocks", int64(Ls[0]))
	}
}

// ---------------------------------------------------------- Actions monitor

var c46StartGrid = []uint64{0, 1, 899, 1000000, 1 << 40, (1 << 63) - 1300}

func TestVerif_C46_Actions(t *testing.T) {
	r := verifkit.Start(t, "C46", "actions")
	defer r.Finish()
	r.SetRule("exhaustive grid: 5 action types x start blocks {0,1,899,1e6,2^40,2^63-1300}; expiry = start + documented validity; each action is executed for real against the package's local chains with recording signing/claim executor stubs on a virtual chain. non-trivial = the stub was reached, the context it was given ended exactly when the chain reached the block the action waits for, and the post-signing step ran")
	r.SetExhaustive(true)
	lp, okL := c46LoopLength(t, r)
	if !okL {
		r.Inconclusive("loop length not measurable")
		return
	}
	L := lp.L
	r.Count("loop_blocks", int64(L))
	for _, kind := range c46Actions {
		for _, start := range c46StartGrid {
			doc := c46Docs[kind]
			expiry := start + doc.validity
			desc := fmt.Sprintf("action=%s start=%d expiry=%d", kind, start, expiry)
			s, err := c46NewSetup(kind, start)
			if err != nil {
				r.Inconclusive("set-up: " + err.Error())
				continue
			}
			w := c46NewWaits(s.clk)
			var signD, claimD *c46Deadline
			var bt time.Duration
			var act walletAction
			var hasClaim bool
			switch kind {
			case ActionHeartbeat:
				sg := createMockSigner(t)
				s.wallet = sg.wallet
				he, ce := &c46HbExecutor{w: w}, &c46ClaimExecutor{w: w}
				fc := newHeartbeatFailureCounter()
				kb, _ := marshalPublicKey(sg.wallet.publicKey)
				for i := 0; i < 16; i++ { // far beyond any consecutive-failure threshold
					fc.increment(fmt.Sprintf("%x", kb))
				}
				act = newHeartbeatAction(logger, s.host, s.wallet, he, s.proposal.(*HeartbeatProposal), fc, ce, start, expiry, w.wait)
				signD, claimD, hasClaim = &he.d, &ce.d, true
			default:
				ex := &c46TxExecutor{w: w, sigs: s.sigs}
				signD = &ex.d
				switch kind {
				case ActionDepositSweep:
					a := newDepositSweepAction(logger.With(), s.host, s.btc, s.wallet, ex, s.proposal.(*DepositSweepProposal), start, expiry, w.wait)
					bt = a.broadcastTimeout
					a.broadcastCheckDelay = time.Millisecond
					act = a
				case ActionRedemption:
					a := newRedemptionAction(logger.With(), s.host, s.btc, s.wallet, ex, s.proposal.(*RedemptionProposal), start, expiry, w.wait)
					bt = a.broadcastTimeout
					a.broadcastCheckDelay = time.Millisecond
					act = a
				case ActionMovingFunds:
					a := newMovingFundsAction(logger.With(), s.host, s.btc, s.wallet, ex, s.proposal.(*MovingFundsProposal), start, expiry, w.wait)
					bt = a.broadcastTimeout
					a.broadcastCheckDelay = time.Millisecond
					act = a
				case ActionMovedFundsSweep:
					a := newMovedFundsSweepAction(logger.With(), s.host, s.btc, s.wallet, ex, s.proposal.(*MovedFundsSweepProposal), start, expiry, w.wait)
					bt = a.broadcastTimeout
					a.broadcastCheckDelay = time.Millisecond
					act = a
				}
				if s.tune != nil {
					s.tune(act)
				}
			}
			var execErr error
			returned, panicked := r.Within(4*c46Watchdog, "actions:", desc, func() { execErr = act.execute() })
			c46Flush(s.clk)
			if panicked {
				continue
			}
			if !returned {
				r.Inconclusive("action did not return: " + desc)
				continue
			}
			if !signD.Called || !signD.RegistrationOK || !signD.ContextEnded {
				r.Inconclusive(fmt.Sprintf("%s: signing step not observed (err=%v, stub=%+v)", desc, execErr, *signD))
				r.Case(desc, false)
				continue
			}
			postOK := false
			if hasClaim {
				postOK = claimD.Called && claimD.RegistrationOK && claimD.ContextEnded
			} else if execErr == nil {
				if _, err := s.btc.GetTransaction(s.wantTx); err == nil {
					postOK = true
				}
			}
			if !postOK {
				r.Inconclusive(fmt.Sprintf("%s: post-signing step not observed (err=%v)", desc, execErr))
			}
			r.Case(desc, postOK)
			wit := map[string]interface{}{"signing": *signD, "documented_validity": doc.validity, "documented_signing_margin": doc.signMargin,
				"loop_blocks": L, "chain_counter_calls": s.counter.calls()}
			if hasClaim {
				wit["claim"] = *claimD
			} else {
				wit["broadcast_timeout"] = bt.String()
			}
			name := kind.String()
			// 1. signing does not start before the action
			if signD.StartBlock < start {
				r.Violation("actions:"+name+":signing-starts-before-action", fmt.Sprintf("signing start block %d is before the action start %d", signD.StartBlock, start), desc, wit)
			}
			// 2. signing ends at least the documented margin before expiry
			D := signD.WaitTarget
			if D > expiry-doc.signMargin || D > expiry {
				r.Violation("actions:"+name+":signing-deadline-inside-margin", fmt.Sprintf("signing context is cancelled at block %d; documented: at least %d blocks before the expiry %d, i.e. not after %d", D, doc.signMargin, expiry, expiry-doc.signMargin), desc, wit)
			}
			if signD.EarlyCancel {
				r.Violation("actions:"+name+":signing-context-cancelled-early", fmt.Sprintf("signing context was already cancelled one block before the block (%d) the action waits for", D), desc, wit)
			}
			// 3. room for one complete retry loop
			if D < signD.StartBlock || D-signD.StartBlock < L {
				r.Violation("actions:"+name+":no-room-for-one-signing-loop", fmt.Sprintf("signing may run from block %d to %d, one complete signing retry loop takes %d blocks", signD.StartBlock, D, L), desc, wit)
			}
			// 4. post-signing steps end before expiry
			if hasClaim {
				if claimD.Called && claimD.RegistrationOK {
					C := claimD.WaitTarget
					if C > expiry-c46HeartbeatClaimMargin || C > expiry {
						r.Violation("actions:"+name+":claim-deadline-inside-margin", fmt.Sprintf("inactivity claim context is cancelled at block %d; documented: %d blocks before the expiry %d", C, c46HeartbeatClaimMargin, expiry), desc, wit)
					}
					if claimD.EarlyCancel {
						r.Violation("actions:"+name+":claim-context-cancelled-early", "inactivity claim context ended before the block the action waits for", desc, wit)
					}
				}
			} else {
				end := D + c46Blocks(bt)
				if end > expiry || end < D {
					r.Violation("actions:"+name+":broadcast-overruns-expiry", fmt.Sprintf("signing may end at block %d and the broadcast step may take %v = %d blocks of 12 s: block %d is after the expiry %d", D, bt, c46Blocks(bt), end, expiry), desc, wit)
				}
			}
			if start == 899 {
				smp := map[string]interface{}{"action": name, "start": start, "expiry": expiry, "signing_start": signD.StartBlock, "signing_deadline": D, "loop_blocks": L}
				if hasClaim {
					smp["claim_deadline"] = claimD.WaitTarget
				} else {
					smp["broadcast_timeout"] = bt.String()
				}
				r.Sample(smp)
			}
		}
	}
}

// ------------------------------------------------------------- Node monitor

var c46CoordinationBlocks = []uint64{0, 900, 999900, 1 << 40, (1 << 63) - 1400}

// c46MinTarget returns the lowest block among the executor's waits.
func c46MinTarget(recs []c46WaitRec) (uint64, bool) {
	if len(recs) == 0 {
		return 0, false
	}
	m := recs[0].Target
	for _, x := range recs {
		if x.Target < m {
			m = x.Target
		}
	}
	return m, true
}

func c46ActionDeadlines(c *c46Counter) []uint64 {
	// the action's own waits go through node.waitForBlockHeight, i.e.
	// BlockHeightWaiter of the chain's block counter (the executor's waits go
	// to the executor's recorder instead)
	var out []uint64
	for _, x := range c.calls() {
		if x.Method == "BlockHeightWaiter" {
			out = append(out, x.Block)
		}
	}
	return out
}

// c46RealAction builds the action of the given kind around the node's REAL
// signing executor and the node's own waitForBlockHeight.
func c46RealAction(cn *c46Node, s *c46Setup, start, expiry uint64) (walletAction, error) {
	wf := cn.node.waitForBlockHeight
	switch s.kind {
	case ActionHeartbeat:
		ice, ok, err := cn.node.getInactivityClaimExecutor(s.wallet.publicKey)
		if err != nil || !ok {
			return nil, fmt.Errorf("no inactivity claim executor: %v", err)
		}
		return newHeartbeatAction(logger, s.host, s.wallet, cn.exec, s.proposal.(*HeartbeatProposal), cn.node.heartbeatFailureCounter, ice, start, expiry, wf), nil
	case ActionDepositSweep:
		return newDepositSweepAction(logger.With(), s.host, s.btc, s.wallet, cn.exec, s.proposal.(*DepositSweepProposal), start, expiry, wf), nil
	case ActionRedemption:
		return newRedemptionAction(logger.With(), s.host, s.btc, s.wallet, cn.exec, s.proposal.(*RedemptionProposal), start, expiry, wf), nil
	case ActionMovingFunds:
		return newMovingFundsAction(logger.With(), s.host, s.btc, s.wallet, cn.exec, s.proposal.(*MovingFundsProposal), start, expiry, wf), nil
	case ActionMovedFundsSweep:
		return newMovedFundsSweepAction(logger.With(), s.host, s.btc, s.wallet, cn.exec, s.proposal.(*MovedFundsSweepProposal), start, expiry, wf), nil
	}
	return nil, fmt.Errorf("unknown action")
}

// blocks between the action start and the signing deadline in the
// "deadline arrives while signing is in progress" scenario: inside the first
// announcement, between attempts, inside a later announcement, late in the loop
var c46ShortWindows = []uint64{36, 45, 88, 100, 170}

func TestVerif_C46_Node(t *testing.T) {
	r := verifkit.Start(t, "C46", "node")
	defer r.Finish()
	r.SetRule("exhaustive grids. (a) 5 action types x coordination blocks {0,900,999900,2^40,2^63-1400}: node.processCoordinationResult dispatches the real action with the node's real signing executor (one local signer of five: every attempt is a minority, the loop runs to exhaustion) on a virtual chain that only moves while every goroutine is blocked. (b) 5 action types x signing windows {36,45,88,100,170} blocks: the real action around the same real executor with an expiry so close that its signing deadline arrives while the retry loop of the (first) message is still running. non-trivial = (a) the action's deadline wait and the executor's waits were observed and the action ended; (b) signing was still in progress when the chain reached the deadline")
	r.SetExhaustive(true)
	lp, okL := c46LoopLength(t, r)
	if !okL {
		r.Inconclusive("loop length not measurable")
		return
	}
	r.Count("loop_blocks", int64(lp.L))
	type gridRun struct {
		deadlines []uint64
		recs      []c46WaitRec
		calls     []c46CounterCall
		endedAt   uint64
	}
	gridOnce := func(kind WalletActionType, window *coordinationWindow, start uint64, desc string) (gridRun, bool) {
		var out gridRun
		s, err := c46NewSetup(kind, start)
		if err != nil {
			r.Inconclusive("set-up: " + err.Error())
			return out, false
		}
		cn, err := c46BuildNode(t, s)
		if err != nil {
			r.Inconclusive("node: " + err.Error())
			return out, false
		}
		busy := func() bool {
			cn.node.walletDispatcher.actionsMutex.Lock()
			defer cn.node.walletDispatcher.actionsMutex.Unlock()
			return len(cn.node.walletDispatcher.actions) > 0
		}
		if r.Guard("node:", desc, func() {
			processCoordinationResult(cn.node, &coordinationResult{wallet: s.wallet, window: window, proposal: s.proposal})
		}) {
			return out, false
		}
		if !busy() && len(cn.execRec.records()) == 0 {
			r.Inconclusive("action was not dispatched: " + desc)
			return out, false
		}
		finished := c46Drive(s.clk, func() bool { return !busy() })
		out.endedAt = s.clk.Height()
		out.deadlines = c46ActionDeadlines(s.counter)
		out.recs = cn.execRec.records()
		out.calls = s.counter.calls()
		c46Flush(s.clk)
		if !finished {
			r.Inconclusive("dispatched action did not end: " + desc)
			return out, false
		}
		return out, true
	}
	for _, kind := range c46Actions {
		for _, cb := range c46CoordinationBlocks {
			doc := c46Docs[kind]
			window := newCoordinationWindow(cb)
			start := window.endBlock() // the action start, by definition the end of the window
			desc := fmt.Sprintf("node action=%s coordinationBlock=%d start=%d", kind, cb, start)
			limit := start + doc.validity - doc.signMargin
			var g gridRun
			var ok, usable bool
			var D, minW, signStart uint64
			// a late observation can only make the executor's first wait look
			// later: a suspected violation is repeated and reported only when
			// it shows every time
			for try := 0; try < 3; try++ {
				g, ok = gridOnce(kind, window, start, desc)
				if !ok {
					break
				}
				var okW bool
				minW, okW = c46MinTarget(g.recs)
				usable = len(g.deadlines) == 1 && okW
				if !usable {
					break
				}
				D = g.deadlines[0]
				signStart = minW - lp.firstRel
				if !(minW < start || minW < lp.firstRel || signStart < start || D > limit || signStart+lp.L > D) {
					break
				}
				r.Count("grid_runs_repeated", 1)
			}
			if !ok {
				continue
			}
			recs, endedAt := g.recs, g.endedAt
			if !usable {
				r.Case(desc, false)
				r.Inconclusive(fmt.Sprintf("%s: expected one deadline wait of the action and block waits of the executor; got deadlines=%v executor waits=%v", desc, g.deadlines, c46Targets(recs)))
				continue
			}
			r.Case(desc, true)
			name := kind.String()
			// the executor's first wait is lp.firstRel blocks after the
			// start block it was given (measured on the same executor)
			wit := map[string]interface{}{"action_start": start, "deadline_wait": D, "executor_first_wait": minW, "signing_start": signStart,
				"one_retry_loop_blocks": lp.L, "action_ended_at_block": endedAt,
				"executor_waits": c46Targets(recs), "chain_counter_calls": g.calls, "documented_validity": doc.validity, "documented_signing_margin": doc.signMargin}
			if minW < start || minW < lp.firstRel || signStart < start {
				r.Violation("node:"+name+":signing-starts-before-action", fmt.Sprintf("the signing executor waits for block %d (signing start %d), before the action start %d", minW, signStart, start), desc, wit)
			}
			if D > limit {
				r.Violation("node:"+name+":signing-deadline-inside-margin", fmt.Sprintf("signing context is cancelled at block %d; documented: validity %d blocks from the start %d, signing ends %d blocks earlier, i.e. not after %d", D, doc.validity, start, doc.signMargin, limit), desc, wit)
			}
			if signStart+lp.L > D {
				r.Violation("node:"+name+":no-room-for-one-signing-loop", fmt.Sprintf("signing starts at block %d and one complete retry loop takes %d blocks, the signing deadline is block %d", signStart, lp.L, D), desc, wit)
			}
			if cb == 900 {
				r.Sample(map[string]interface{}{"action": name, "coordination_block": cb, "action_start": start, "signing_deadline_wait": D,
					"executor_first_wait": minW, "action_ended_at_block": endedAt, "executor_waits": len(recs)})
			}
		}
	}

	// (b) the signing deadline arrives while signing is in progress
	type dlRun struct {
		T, retAt uint64
		execErr  error
		recs     []c46WaitRec
		late     []c46WaitRec
		state    string // "", "not-reached", "over-before-deadline"
		note     string
	}
	runOnce := func(kind WalletActionType, start, expiry uint64, desc string) (dlRun, bool) {
		var out dlRun
		s, err := c46NewSetup(kind, start)
		if err != nil {
			r.Inconclusive("set-up: " + err.Error())
			return out, false
		}
		cn, err := c46BuildNode(t, s)
		if err != nil {
			r.Inconclusive("node: " + err.Error())
			return out, false
		}
		act, err := c46RealAction(cn, s, start, expiry)
		if err != nil {
			r.Inconclusive(desc + ": " + err.Error())
			return out, false
		}
		var mu sync.Mutex
		var done bool
		go func() {
			var e error
			r.Guard("node:", desc, func() { e = act.execute() })
			h := s.clk.Height()
			mu.Lock()
			out.retAt, out.execErr, done = h, e, true
			mu.Unlock()
		}()
		finished := c46Drive(s.clk, func() bool { mu.Lock(); defer mu.Unlock(); return done })
		deadlines := c46ActionDeadlines(s.counter)
		out.recs = cn.execRec.records()
		c46Flush(s.clk)
		if !finished {
			r.Inconclusive("action did not end: " + desc)
			return out, false
		}
		if len(deadlines) != 1 || len(out.recs) == 0 {
			out.state = "not-reached"
			out.note = fmt.Sprintf("err=%v, deadlines=%v, %d executor waits", out.execErr, deadlines, len(out.recs))
			return out, true
		}
		out.T = deadlines[0]
		if out.retAt < out.T {
			out.state = "over-before-deadline"
			return out, true
		}
		for _, x := range out.recs {
			if x.At > out.T {
				out.late = append(out.late, x)
			}
		}
		return out, true
	}
	var inProgress int64
	for _, kind := range c46Actions {
		for _, w := range c46ShortWindows {
			doc := c46Docs[kind]
			start := uint64(1000)
			expiry := start + w + doc.signMargin
			desc := fmt.Sprintf("node deadline-during-signing action=%s start=%d expiry=%d", kind, start, expiry)
			// A late observation (the chain moved although something was still
			// in flight) can only make things look later than they are. A
			// suspected overrun is therefore repeated and reported only when
			// it shows every time; a real defect is deterministic.
			var res dlRun
			ok := false
			for try := 0; try < 3; try++ {
				res, ok = runOnce(kind, start, expiry, desc)
				if !ok || res.state != "" || (res.retAt <= res.T && len(res.late) == 0) {
					break
				}
				r.Count("deadline_scenarios_repeated", 1)
			}
			if !ok {
				continue
			}
			if res.state == "not-reached" {
				r.Case(desc, false)
				r.Inconclusive(fmt.Sprintf("%s: signing step not reached (%s)", desc, res.note))
				continue
			}
			if res.state == "over-before-deadline" {
				// signing was over before the deadline: not the situation wanted
				r.Case(desc, false)
				r.Count("deadline_scenarios_signing_over_before_deadline", 1)
				continue
			}
			r.Case(desc, true)
			inProgress++
			name := kind.String()
			T, retAt, execErr, recs, late := res.T, res.retAt, res.execErr, res.recs, res.late
			wit := map[string]interface{}{"action_start": start, "expiry": expiry, "signing_deadline": T, "action_returned_at_block": retAt,
				"action_error": fmt.Sprint(execErr), "executor_waits": recs, "executor_waits_started_after_deadline": late}
			// Allowed: what the unchanged executor does when its context ends
			// at block T - waits registered while the chain is AT block T
			// (the loop, woken by the cancellation, still sets up the
			// announcement of the attempt it was about to start and drops
			// it at once) and a return at block T. Not allowed: anything
			// started at a later block, or a return at a later block.
			if retAt > T || len(late) > 0 {
				r.Violation("node:"+name+":signing-continues-after-deadline", fmt.Sprintf("the signing deadline of the action is block %d; the action returned at block %d and the signing executor started %d block wait(s) after the chain had passed the deadline", T, retAt, len(late)), desc, wit)
			}
			if execErr == nil {
				r.Violation("node:"+name+":no-failure-after-deadline", "signing was cut by the deadline but the action reported success", desc, wit)
			}
			if w == 100 {
				r.Sample(map[string]interface{}{"scenario": "deadline during signing", "action": name, "action_start": start, "signing_deadline": T,
					"action_returned_at_block": retAt, "action_error": fmt.Sprint(execErr), "executor_waits": c46Targets(recs)})
			}
		}
	}
	r.Count("deadline_scenarios_signing_in_progress", inProgress)
}
