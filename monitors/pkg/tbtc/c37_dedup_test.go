//go:build verif

package tbtc

import (
	"encoding/hex"
	"fmt"
	"math/big"
	"math/rand"
	"runtime"
	"strconv"
	"strings"
	"sync"
	"sync/atomic"
	"testing"
	"time"

	"github.com/keep-network/keep-core/internal/verifkit"
)

// C37 (tbtc part) — each distinct DKG-started / DKG-result-submitted /
// wallet-closed event is handled exactly once even when delivered
// concurrently, and two different events are never mistaken for one another.

type c37Event struct {
	Fn    string `json:"fn"`
	Seed  string `json:"seed,omitempty"` // hex, no prefix
	Hash  string `json:"hash,omitempty"` // 64 hex digits
	Block uint64 `json:"block,omitempty"`
	ID    string `json:"wallet_id,omitempty"` // 64 hex digits
}

func (e c37Event) String() string { return verifkit.JSON(e) }

const (
	c37FnStarted   = "tbtc.notifyDKGStarted"
	c37FnSubmitted = "tbtc.notifyDKGResultSubmitted"
	c37FnClosed    = "tbtc.notifyWalletClosed"
)

// c37Deliver performs one delivery of the event with freshly allocated
// arguments (as a chain subscription would).
func c37Deliver(d *deduplicator, e c37Event) bool {
	switch e.Fn {
	case c37FnStarted:
		s, _ := new(big.Int).SetString(e.Seed, 16)
		return d.notifyDKGStarted(s)
	case c37FnSubmitted:
		s, _ := new(big.Int).SetString(e.Seed, 16)
		var h DKGChainResultHash
		b, _ := hex.DecodeString(e.Hash)
		copy(h[:], b)
		return d.notifyDKGResultSubmitted(s, h, e.Block)
	case c37FnClosed:
		var id [32]byte
		b, _ := hex.DecodeString(e.ID)
		copy(id[:], b)
		return d.notifyWalletClosed(id)
	}
	panic("c37: unknown function " + e.Fn)
}

func c37RandSeedHex(rng *rand.Rand) string {
	switch rng.Intn(6) {
	case 0:
		return big.NewInt(int64(rng.Intn(300))).Text(16)
	case 1:
		return new(big.Int).Lsh(big.NewInt(1), uint(rng.Intn(256))).Text(16)
	default:
		b := make([]byte, 1+rng.Intn(32))
		rng.Read(b)
		return new(big.Int).SetBytes(b).Text(16)
	}
}

func c37RandHex32(rng *rand.Rand) string {
	b := make([]byte, 32)
	rng.Read(b)
	if rng.Intn(8) == 0 {
		for i := 0; i < 28; i++ {
			b[i] = 0
		}
	}
	return hex.EncodeToString(b)
}

func c37RandBlock(rng *rand.Rand) uint64 {
	switch rng.Intn(4) {
	case 0:
		return uint64(rng.Intn(100))
	case 1:
		return uint64(rng.Int63())
	default:
		return uint64(15_000_000 + rng.Intn(10_000_000))
	}
}

func c37RandEvent(rng *rand.Rand, fn string) c37Event {
	switch fn {
	case c37FnStarted:
		return c37Event{Fn: fn, Seed: c37RandSeedHex(rng)}
	case c37FnSubmitted:
		return c37Event{Fn: fn, Seed: c37RandSeedHex(rng), Hash: c37RandHex32(rng), Block: c37RandBlock(rng)}
	default:
		return c37Event{Fn: fn, ID: c37RandHex32(rng)}
	}
}

// c37Args are the parsed arguments of one event (shared read-only by the
// delivering goroutines).
type c37Args struct {
	seed  *big.Int
	hash  DKGChainResultHash
	block uint64
	id    [32]byte
}

func c37Parse(e c37Event) c37Args {
	var a c37Args
	if e.Seed != "" {
		a.seed, _ = new(big.Int).SetString(e.Seed, 16)
	}
	if e.Hash != "" {
		b, _ := hex.DecodeString(e.Hash)
		copy(a.hash[:], b)
	}
	if e.ID != "" {
		b, _ := hex.DecodeString(e.ID)
		copy(a.id[:], b)
	}
	a.block = e.Block
	return a
}

func c37Call(d *deduplicator, fn string, a *c37Args) bool {
	switch fn {
	case c37FnStarted:
		return d.notifyDKGStarted(a.seed)
	case c37FnSubmitted:
		return d.notifyDKGResultSubmitted(a.seed, a.hash, a.block)
	default:
		return d.notifyWalletClosed(a.id)
	}
}

// c37Stream lets k goroutines (parallel handlers) deliver the same sequence
// of fresh events, each in sequence order, starting together. The handler
// that is first on an event does the insertion while the others only look
// up, so the followers keep catching up with the leader and every event is
// delivered by several handlers at about the same time — without any timing
// assumption in the harness. Results and stamps go to per-goroutine slots.
func c37Stream(d *deduplicator, fn string, evs []c37Event, k int, stamps bool) (trues []int, overlap []bool) {
	m := len(evs)
	args := make([]c37Args, m)
	for j := range evs {
		args[j] = c37Parse(evs[j])
	}
	res := make([][]bool, k)
	call := make([][]int64, k)
	ret := make([][]int64, k)
	var clock int64
	t0 := time.Now()
	var ready, wg sync.WaitGroup
	start := make(chan struct{})
	for g := 0; g < k; g++ {
		res[g] = make([]bool, m)
		call[g] = make([]int64, m)
		ret[g] = make([]int64, m)
		ready.Add(1)
		wg.Add(1)
		go func(g int) {
			defer wg.Done()
			myRes, myCall, myRet := res[g], call[g], ret[g]
			ready.Done()
			<-start
			for j := 0; j < m; j++ {
				if stamps {
					myCall[j] = atomic.AddInt64(&clock, 1)
				} else {
					// race pass: monotonic clock, no synchronisation, evidence only
					myCall[j] = int64(time.Since(t0))
				}
				if (g+j)%5 == 1 {
					runtime.Gosched() // inside the stamped interval
				}
				myRes[j] = c37Call(d, fn, &args[j])
				if stamps {
					myRet[j] = atomic.AddInt64(&clock, 1)
				} else {
					myRet[j] = int64(time.Since(t0))
				}
				if (g+j)%7 == 3 {
					runtime.Gosched()
				}
			}
		}(g)
	}
	ready.Wait()
	close(start)
	wg.Wait()
	trues = make([]int, m)
	overlap = make([]bool, m)
	for j := 0; j < m; j++ {
		for g := 0; g < k; g++ {
			if res[g][j] {
				trues[j]++
			}
			for h := g + 1; h < k; h++ {
				if call[g][j] < ret[h][j] && call[h][j] < ret[g][j] {
					overlap[j] = true
				}
			}
		}
	}
	return
}

func c37Concurrent(r *verifkit.Run, stamps bool, streamsPerFn, perStream int) {
	ks := []int{16, 4, 2, 16}
	for _, fn := range []string{c37FnStarted, c37FnSubmitted, c37FnClosed} {
		d := newDeduplicator()
		used := map[string]bool{}
		rng := r.Rand("streams/" + fn)
		for i := 0; i < streamsPerFn; i++ {
			evs := make([]c37Event, 0, perStream)
			for len(evs) < perStream {
				e := c37RandEvent(rng, fn)
				if !used[e.String()] {
					used[e.String()] = true
					evs = append(evs, e)
				}
			}
			k := ks[i%len(ks)]
			sdesc := fmt.Sprintf("stream=%d k=%d", i, k)
			var trues []int
			var overlap []bool
			if r.Guard("concurrent:", sdesc+" "+verifkit.JSON(evs), func() { trues, overlap = c37Stream(d, fn, evs, k, stamps) }) {
				continue
			}
			r.Count("deliveries", int64(k*len(evs)))
			for j, e := range evs {
				desc := fmt.Sprintf("%s pos=%d %s", sdesc, j, e)
				r.Case(desc, overlap[j])
				if overlap[j] {
					r.Count("events_with_overlapping_deliveries", 1)
				}
				switch {
				case trues[j] > 1:
					r.Count("events_double_handled:"+fn, 1)
					r.Violation("double-handled:"+fn,
						fmt.Sprintf("%d of %d concurrent deliveries of one event were told to proceed (expected exactly 1)", trues[j], k),
						desc, map[string]interface{}{"deliveries": k, "handled": trues[j], "event": e})
				case trues[j] == 0:
					r.Violation("never-handled:"+fn, "a new event was handled by none of its deliveries", desc, e)
				}
				if c37Deliver(d, e) {
					r.Violation("redelivery-handled:"+fn, "a redelivery after the stream was handled again", desc, e)
				}
			}
		}
	}
}

func TestVerif_C37_TbtcConcurrent(t *testing.T) {
	r := verifkit.Start(t, "C37", "tbtc-concurrent")
	defer r.Finish()
	r.SetRule("per notify function: streams of 2000 fresh PRNG events, each stream delivered in order by k in {16,4,2,16} goroutines (parallel handlers) that start together on one deduplicator; per event exactly one delivery must return true, a later redelivery false. One case = one event; non-trivial = two of its deliveries overlapped in the observed call/return stamps")
	c37Concurrent(r, true, r.N(12, 400), 2000)
}

func TestVerif_C37_TbtcConcurrentRace(t *testing.T) {
	r := verifkit.Start(t, "C37", "tbtc-concurrent-race")
	defer r.Finish()
	r.SetRule("the concurrent streams (1000 events each) under the Go race detector, results in per-goroutine slots, start barrier only. non-trivial = two deliveries of the event overlapped according to the monotonic clock (evidence only)")
	c37Concurrent(r, false, r.N(3, 100), 1000)
}

// ---------------------------------------------------------------------------
// distinct events
// ---------------------------------------------------------------------------

// c37Canonical reports whether (seed, hash, block) texts are what the
// notifier would itself print for some event: seed hex without leading
// zeros, 64-digit hash, decimal block without leading zeros that fits int64.
func c37Canonical(seed, hash, block string) (uint64, bool) {
	if seed == "" || (len(seed) > 1 && seed[0] == '0') || len(seed) > 64 {
		return 0, false
	}
	if len(hash) != 64 {
		return 0, false
	}
	if block == "" || (len(block) > 1 && block[0] == '0') {
		return 0, false
	}
	for _, c := range block {
		if c < '0' || c > '9' {
			return 0, false
		}
	}
	b, err := strconv.ParseUint(block, 10, 63)
	if err != nil {
		return 0, false
	}
	if _, ok := new(big.Int).SetString(seed, 16); !ok {
		return 0, false
	}
	if _, err := hex.DecodeString(hash); err != nil {
		return 0, false
	}
	return b, true
}

// c37ShiftPairs builds, from one event, every event obtained by moving the
// two field boundaries of seed|hash|block by s characters (s = ±1..±3) over
// the same character string: different (seed, hash, block), identical
// separator-less concatenation.
func c37ShiftPairs(e c37Event) []c37Event {
	t := e.Seed + e.Hash + strconv.FormatUint(e.Block, 10)
	a := len(e.Seed)
	var out []c37Event
	for _, s := range []int{1, 2, 3, -1, -2, -3} {
		na := a + s
		if na < 1 || na+64 >= len(t) {
			continue
		}
		seed, hash, block := t[:na], t[na:na+64], t[na+64:]
		b, ok := c37Canonical(seed, hash, block)
		if !ok {
			continue
		}
		out = append(out, c37Event{Fn: c37FnSubmitted, Seed: seed, Hash: hash, Block: b})
	}
	return out
}

func c37SameEvent(a, b c37Event) bool {
	return a.Seed == b.Seed && a.Hash == b.Hash && a.Block == b.Block && a.ID == b.ID
}

func TestVerif_C37_TbtcDistinct(t *testing.T) {
	r := verifkit.Start(t, "C37", "tbtc-distinct")
	defer r.Finish()
	r.SetRule("(1) adversarial pairs for DKG-result-submitted: from a PRNG event (seed hex of 1..64 digits, 32-byte hash, decimal block) every event obtained by shifting both field boundaries of seed|hash|block by 1..3 characters (both directions) over the same text, kept when all three fields stay canonical; both orders of delivery, each pair on a fresh deduplicator; both events must be handled. (2) PRNG streams of pairwise distinct events per notify function, including events differing in exactly one field. non-trivial = adversarial pair, or stream with single-field neighbours")
	nPairs := r.N(5000, 500000)
	var built int64
	verifkit.Parallel(nPairs, 0, func(i int) {
		rng := r.SubRand("pairs", i)
		var base c37Event
		var others []c37Event
		for try := 0; try < 200 && len(others) == 0; try++ {
			base = c37RandEvent(rng, c37FnSubmitted)
			// make the block's digits and the hash's last digits friendly to
			// a boundary shift half of the time (decimal digits only)
			if rng.Intn(2) == 0 {
				hb := []byte(base.Hash)
				for k := 61; k < 64; k++ {
					hb[k] = byte('1' + rng.Intn(9))
				}
				base.Hash = string(hb)
			}
			others = c37ShiftPairs(base)
		}
		if len(others) == 0 {
			return
		}
		for j, o := range others {
			if c37SameEvent(base, o) {
				continue
			}
			first, second := base, o
			if (i+j)%2 == 1 {
				first, second = o, base
			}
			desc := fmt.Sprintf("collision-pair first=%s second=%s", first, second)
			d := newDeduplicator()
			var r1, r2 bool
			if r.Guard("distinct:", desc, func() { r1 = c37Deliver(d, first); r2 = c37Deliver(d, second) }) {
				continue
			}
			r.Case(desc, true)
			atomic.AddInt64(&built, 1)
			if !r1 {
				r.Violation("distinct-dropped:"+c37FnSubmitted, "first event on a fresh deduplicator was not handled", desc, first)
			}
			if !r2 {
				r.Count("collision_pairs_confused", 1)
				r.Violation("key-collision:"+c37FnSubmitted,
					"two different DKG-result-submitted events (different seed, result hash and block) were mistaken for one another: the second was dropped as a duplicate of the first",
					desc, map[string]interface{}{"first": first, "second": second,
						"concatenation": first.Seed + first.Hash + strconv.FormatUint(first.Block, 10)})
			}
			if i < 40 && j == 0 {
				r.Sample(map[string]interface{}{"first": first, "second": second})
			}
		}
	})
	r.Count("collision_pairs", built)

	// (2) streams of distinct events
	nStreams := r.N(300, 5000)
	verifkit.Parallel(nStreams, 0, func(i int) {
		rng := r.SubRand("streams", i)
		fn := []string{c37FnStarted, c37FnSubmitted, c37FnClosed}[i%3]
		d := newDeduplicator()
		var evs []c37Event
		seen := map[string]bool{}
		add := func(e c37Event) {
			if !seen[e.String()] {
				seen[e.String()] = true
				evs = append(evs, e)
			}
		}
		near := false
		for len(evs) < 24 {
			e := c37RandEvent(rng, fn)
			add(e)
			if rng.Intn(2) == 0 {
				near = true
				switch fn {
				case c37FnSubmitted:
					x := e
					x.Block = e.Block + 1
					add(x)
					x = e
					x.Hash = c37FlipLast(e.Hash)
					add(x)
					x = e
					x.Seed = c37FlipLast(e.Seed)
					add(x)
					x = e
					x.Seed = strings.TrimLeft(e.Seed+"0", "0")
					if x.Seed != "" && len(x.Seed) <= 64 {
						add(x)
					}
				case c37FnStarted:
					x := e
					x.Seed = c37FlipLast(e.Seed)
					add(x)
					x = e
					x.Seed = strings.TrimLeft(e.Seed+"0", "0")
					if x.Seed != "" && len(x.Seed) <= 64 {
						add(x)
					}
				default:
					x := e
					x.ID = c37FlipLast(e.ID)
					add(x)
					x = e
					x.ID = e.ID[2:] + e.ID[:2] // rotated bytes
					add(x)
				}
			}
		}
		rng.Shuffle(len(evs), func(a, b int) { evs[a], evs[b] = evs[b], evs[a] })
		desc := fmt.Sprintf("distinct-stream %s", verifkit.JSON(evs))
		r.Case(desc, near)
		for j, e := range evs {
			if !c37Deliver(d, e) {
				r.Violation("distinct-dropped:"+fn, fmt.Sprintf("event %s (position %d) was treated as a duplicate although it had not been delivered", e, j), desc, nil)
			}
		}
		for j, e := range evs {
			if c37Deliver(d, e) {
				r.Violation("redelivery-handled:"+fn, fmt.Sprintf("second delivery of %s (position %d) was handled", e, j), desc, nil)
			}
		}
	})
}

func c37FlipLast(h string) string {
	b := []byte(h)
	c := b[len(b)-1]
	if c == '1' {
		b[len(b)-1] = '2'
	} else {
		b[len(b)-1] = '1'
	}
	return string(b)
}
