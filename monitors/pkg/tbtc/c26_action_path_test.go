//go:build verif

package tbtc

// C26, action path — from a *proposal* to the Bitcoin transaction.
//
// The conservation part (c26_conservation_test.go) hands the assemble*
// functions the deposit / request lists directly. Here the lists are produced
// by the production code itself: the real wallet actions are executed
// (depositSweepAction / redemptionAction / movedFundsSweepAction .execute():
// Validate*Proposal -> DetermineWalletMainUtxo -> EnsureWalletSyncedBetweenChains
// -> assemble* -> signTransaction -> broadcastTransaction; for moving funds the
// same steps are called one by one because execute() waits 32 blocks for the
// commitment) against
//   - a host chain that is the package's localChain with the look-up methods
//     replaced by ones with the real chain's semantics (events filtered by
//     block range and wallet, several events per block, requests keyed by
//     funding outpoint / by wallet and redeemer script, a deposit sweep
//     validator that, like the Bridge's WalletProposalValidator, checks the
//     revealed script against the funding output named by the proposal key),
//   - the package's localBitcoinChain holding the funding transactions,
//   - a signing executor that signs with the wallet key.
// The broadcast transaction is judged by the same oracle as the conservation
// part (c26Check); the intended UTXOs are derived by the monitor from the
// proposal's keys and the transactions on the Bitcoin chain, never from what
// the validation functions returned.

import (
	"bytes"
	"context"
	"encoding/hex"
	"fmt"
	"math/big"
	"math/rand"
	"sort"
	"strings"
	"sync"
	"testing"

	"github.com/keep-network/keep-core/internal/verifkit"
	"github.com/keep-network/keep-core/pkg/bitcoin"
	"github.com/keep-network/keep-core/pkg/chain"
	"github.com/keep-network/keep-core/pkg/tecdsa"
)

// ---------------------------------------------------------------- host chain

type c26apOutpoint struct {
	Hash  bitcoin.Hash
	Index uint32
}

// c26apChain is the host chain of one scenario.
type c26apChain struct {
	*localChain // everything not overridden below

	btc *localBitcoinChain

	mu             sync.Mutex
	wallets        map[[20]byte]*WalletChainData
	events         []*DepositRevealedEvent // ascending block number
	depositReqs    map[c26apOutpoint]*DepositChainRequest
	redemptionReqs map[string]*RedemptionRequest // walletPKH || script

	// observations at the chain boundary
	mismatches []string
	calls      map[string]int
}

func c26apNewChain(base *localChain, btc *localBitcoinChain) *c26apChain {
	return &c26apChain{
		localChain:     base,
		btc:            btc,
		wallets:        map[[20]byte]*WalletChainData{},
		depositReqs:    map[c26apOutpoint]*DepositChainRequest{},
		redemptionReqs: map[string]*RedemptionRequest{},
		calls:          map[string]int{},
	}
}

func (c *c26apChain) note(call string) {
	c.mu.Lock()
	c.calls[call]++
	c.mu.Unlock()
}

func (c *c26apChain) mismatch(format string, a ...interface{}) {
	c.mu.Lock()
	c.mismatches = append(c.mismatches, fmt.Sprintf(format, a...))
	c.mu.Unlock()
}

func (c *c26apChain) GetWallet(walletPublicKeyHash [20]byte) (*WalletChainData, error) {
	c.note("GetWallet")
	w, ok := c.wallets[walletPublicKeyHash]
	if !ok {
		return nil, fmt.Errorf("no wallet for given PKH")
	}
	cp := *w
	return &cp, nil
}

// PastDepositRevealedEvents has the semantics of the real chain: every event
// whose block lies in [StartBlock, EndBlock] and whose wallet / depositor is
// among the filter's (when given), ascending by block.
func (c *c26apChain) PastDepositRevealedEvents(filter *DepositRevealedEventFilter) ([]*DepositRevealedEvent, error) {
	c.note("PastDepositRevealedEvents")
	var out []*DepositRevealedEvent
	for _, e := range c.events {
		if e.BlockNumber < filter.StartBlock {
			continue
		}
		if filter.EndBlock != nil && e.BlockNumber > *filter.EndBlock {
			continue
		}
		if len(filter.WalletPublicKeyHash) > 0 {
			ok := false
			for _, w := range filter.WalletPublicKeyHash {
				if w == e.WalletPublicKeyHash {
					ok = true
				}
			}
			if !ok {
				continue
			}
		}
		if len(filter.Depositor) > 0 {
			ok := false
			for _, d := range filter.Depositor {
				if d == e.Depositor {
					ok = true
				}
			}
			if !ok {
				continue
			}
		}
		cp := *e
		out = append(out, &cp)
	}
	return out, nil
}

func (c *c26apChain) GetDepositRequest(fundingTxHash bitcoin.Hash, fundingOutputIndex uint32) (*DepositChainRequest, bool, error) {
	c.note("GetDepositRequest")
	r, ok := c.depositReqs[c26apOutpoint{fundingTxHash, fundingOutputIndex}]
	if !ok {
		return nil, false, nil
	}
	cp := *r
	return &cp, true, nil
}

func (c *c26apChain) GetMovedFundsSweepRequest(bitcoin.Hash, uint32) (*MovedFundsSweepRequest, bool, error) {
	return nil, false, nil
}

// c26apScript is the Bridge's deposit script written out by hand.
func c26apScript(depositor chain.Address, extra *[32]byte, blinding [8]byte, walletPKH, refundPKH [20]byte, locktime [4]byte) []byte {
	dep, _ := hex.DecodeString(strings.TrimPrefix(depositor.String(), "0x"))
	s := append([]byte{0x14}, dep...)
	s = append(s, 0x75)
	if extra != nil {
		s = append(s, 0x20)
		s = append(s, extra[:]...)
		s = append(s, 0x75)
	}
	s = append(s, 0x08)
	s = append(s, blinding[:]...)
	s = append(s, 0x75, 0x76, 0xa9, 0x14)
	s = append(s, walletPKH[:]...)
	s = append(s, 0x87, 0x63, 0xac, 0x67, 0x76, 0xa9, 0x14)
	s = append(s, refundPKH[:]...)
	s = append(s, 0x88, 0x04)
	s = append(s, locktime[:]...)
	return append(s, 0xb1, 0x75, 0xac, 0x68)
}

// ValidateDepositSweepProposal does what the Bridge's validator does with the
// data the client submits: the deposit must be revealed for the proposal's
// key, the funding transaction must be the one named by the key, and the
// script built from the on-chain depositor / extra data and the submitted
// blinding factor, wallet, refund key hash and locktime must be the one locked
// by the output the key points at. It also records (for the monitor) whether
// the Deposit the wallet attached to key i is deposit i.
func (c *c26apChain) ValidateDepositSweepProposal(
	walletPublicKeyHash [20]byte,
	proposal *DepositSweepProposal,
	depositsExtraInfo []struct {
		*Deposit
		FundingTx *bitcoin.Transaction
	},
) error {
	c.note("ValidateDepositSweepProposal")
	if len(depositsExtraInfo) != len(proposal.DepositsKeys) {
		return fmt.Errorf("extra info count mismatch")
	}
	var firstErr error
	fail := func(err error) {
		if firstErr == nil {
			firstErr = err
		}
	}
	for i, key := range proposal.DepositsKeys {
		ex := depositsExtraInfo[i]
		if ex.Deposit == nil || ex.Deposit.Utxo == nil || ex.FundingTx == nil {
			c.mismatch("key %d: no deposit attached", i)
			fail(fmt.Errorf("missing extra info"))
			continue
		}
		if op := ex.Deposit.Utxo.Outpoint; op.TransactionHash != key.FundingTxHash || op.OutputIndex != key.FundingOutputIndex {
			c.mismatch("key %d is %x:%d but the attached deposit is %x:%d", i, key.FundingTxHash[:6], key.FundingOutputIndex, op.TransactionHash[:6], op.OutputIndex)
		}
		for _, e := range c.events {
			if e.FundingTxHash != key.FundingTxHash || e.FundingOutputIndex != key.FundingOutputIndex {
				continue
			}
			d := ex.Deposit
			if d.Utxo.Value != int64(e.Amount) || d.BlindingFactor != e.BlindingFactor || d.Depositor != e.Depositor ||
				d.RefundPublicKeyHash != e.RefundPublicKeyHash || d.RefundLocktime != e.RefundLocktime || d.WalletPublicKeyHash != e.WalletPublicKeyHash {
				c.mismatch("key %d (%x:%d): the attached deposit's data (value %d, blinding %x) is not what was revealed for that key (value %d, blinding %x)",
					i, key.FundingTxHash[:6], key.FundingOutputIndex, d.Utxo.Value, d.BlindingFactor, e.Amount, e.BlindingFactor)
			}
		}
		req, ok := c.depositReqs[c26apOutpoint{key.FundingTxHash, key.FundingOutputIndex}]
		if !ok {
			fail(fmt.Errorf("deposit %d not revealed", i))
			continue
		}
		if ex.FundingTx.Hash() != key.FundingTxHash {
			fail(fmt.Errorf("deposit %d: funding tx hash mismatch", i))
			continue
		}
		if int(key.FundingOutputIndex) >= len(ex.FundingTx.Outputs) {
			fail(fmt.Errorf("deposit %d: output index out of range", i))
			continue
		}
		if ex.Deposit.WalletPublicKeyHash != walletPublicKeyHash {
			fail(fmt.Errorf("deposit %d: another wallet", i))
			continue
		}
		script := c26apScript(req.Depositor, req.ExtraData, ex.Deposit.BlindingFactor, ex.Deposit.WalletPublicKeyHash, ex.Deposit.RefundPublicKeyHash, ex.Deposit.RefundLocktime)
		locked := ex.FundingTx.Outputs[key.FundingOutputIndex].PublicKeyScript
		if !bytes.Equal(locked, c26kitP2SH(script)) && !bytes.Equal(locked, c26kitP2WSH(script)) {
			fail(fmt.Errorf("deposit %d: extra info does not match the funding output", i))
		}
	}
	return firstErr
}

func (c *c26apChain) ValidateRedemptionProposal(walletPublicKeyHash [20]byte, proposal *RedemptionProposal) error {
	c.note("ValidateRedemptionProposal")
	for i, s := range proposal.RedeemersOutputScripts {
		if _, ok := c.redemptionReqs[string(walletPublicKeyHash[:])+string(s)]; !ok {
			return fmt.Errorf("request %d is not pending", i)
		}
	}
	return nil
}

func (c *c26apChain) GetPendingRedemptionRequest(walletPublicKeyHash [20]byte, redeemerOutputScript bitcoin.Script) (*RedemptionRequest, bool, error) {
	c.note("GetPendingRedemptionRequest")
	r, ok := c.redemptionReqs[string(walletPublicKeyHash[:])+string(redeemerOutputScript)]
	if !ok {
		return nil, false, nil
	}
	cp := *r
	return &cp, true, nil
}

func (c *c26apChain) ValidateMovingFundsProposal(walletPublicKeyHash [20]byte, mainUTXO *bitcoin.UnspentTransactionOutput, proposal *MovingFundsProposal) error {
	c.note("ValidateMovingFundsProposal")
	return nil
}

func (c *c26apChain) PastMovingFundsCommitmentSubmittedEvents(*MovingFundsCommitmentSubmittedEventFilter) ([]*MovingFundsCommitmentSubmittedEvent, error) {
	return nil, nil
}

func (c *c26apChain) ValidateMovedFundsSweepProposal(walletPublicKeyHash [20]byte, proposal *MovedFundsSweepProposal) error {
	c.note("ValidateMovedFundsSweepProposal")
	return nil
}

// ---------------------------------------------------------------- bitcoin chain, signer

// c26apBtc records what the action broadcasts.
type c26apBtc struct {
	*localBitcoinChain
	mu        sync.Mutex
	broadcast []*bitcoin.Transaction
}

func (b *c26apBtc) BroadcastTransaction(tx *bitcoin.Transaction) error {
	b.mu.Lock()
	b.broadcast = append(b.broadcast, tx)
	b.mu.Unlock()
	return b.localBitcoinChain.BroadcastTransaction(tx)
}

type c26apSigner struct {
	key *c26kitKey
	rng *rand.Rand
}

func (s *c26apSigner) signBatch(ctx context.Context, messages []*big.Int, startBlock uint64) ([]*tecdsa.Signature, error) {
	out := make([]*tecdsa.Signature, len(messages))
	for i, m := range messages {
		r, ss := c26kitSign(s.key, m, s.rng, c26kitSigMode{LongR: -1})
		out[i] = &tecdsa.Signature{R: r, S: ss}
	}
	return out, nil
}

// ---------------------------------------------------------------- scenarios

type c26apScenario struct {
	kind   string
	host   *c26apChain
	btc    *c26apBtc
	wallet *c26kitKey
	desc   string

	// the proposal
	sweep      *DepositSweepProposal
	redemption *RedemptionProposal
	moving     *MovingFundsProposal
	movedSweep *MovedFundsSweepProposal

	// what the monitor registered as the wallet's main UTXO (nil = none)
	mainOutpoint *bitcoin.TransactionOutpoint
	// redemption requests the monitor created, by script
	requests map[string]*RedemptionRequest

	// traits for the non-triviality rule / counters
	sharedFundingTx bool
	sameBlock       bool
	twins           bool
	partial         bool
	remainder       bool
	zeroChange      bool
}

// c26apFundMany puts one transaction with the given outputs (in that order,
// possibly with extra outputs in between) on the chain.
func c26apFundMany(btc *localBitcoinChain, rng *rand.Rand, outs []*bitcoin.TransactionOutput, filler int) (bitcoin.Hash, []uint32) {
	for {
		tx := &bitcoin.Transaction{Version: int32(1 + rng.Intn(2))}
		var h bitcoin.Hash
		rng.Read(h[:])
		sig := make([]byte, rng.Intn(30))
		rng.Read(sig)
		tx.Inputs = append(tx.Inputs, &bitcoin.TransactionInput{
			Outpoint:        &bitcoin.TransactionOutpoint{TransactionHash: h, OutputIndex: uint32(rng.Intn(5))},
			SignatureScript: sig,
			Sequence:        0xffffffff,
		})
		total := len(outs) + filler
		slots := rng.Perm(total)[:len(outs)]
		sort.Ints(slots)
		idx := make([]uint32, len(outs))
		k := 0
		for i := 0; i < total; i++ {
			if k < len(slots) && slots[k] == i {
				tx.Outputs = append(tx.Outputs, outs[k])
				idx[k] = uint32(i)
				k++
			} else {
				tx.Outputs = append(tx.Outputs, &bitcoin.TransactionOutput{Value: c26kitAmount(rng), PublicKeyScript: c26kitRandomOutputScript(rng, rng.Intn(4))})
			}
		}
		if err := btc.BroadcastTransaction(tx); err != nil {
			continue
		}
		return tx.Hash(), idx
	}
}

// c26apMain registers a main UTXO for the wallet (kind 0 none, 1 P2PKH,
// 2 P2WPKH) with optional decoy outputs paying the wallet in the same and in
// other transactions. Returns the value.
func (s *c26apScenario) c26apMain(rng *rand.Rand, kind int, value int64, data *WalletChainData) {
	if kind == 0 {
		s.host.wallets[s.wallet.PKH] = data
		return
	}
	script := c26kitP2WPKH(s.wallet.PKH)
	if kind == 1 {
		script = c26kitP2PKH(s.wallet.PKH)
	}
	// an older wallet output in another transaction, and possibly a sibling
	// output of the same transaction paying the wallet a different amount
	if rng.Intn(2) == 0 {
		c26kitFund(s.btc.localBitcoinChain, rng, c26kitP2WPKH(s.wallet.PKH), value+1+rng.Int63n(1000))
	}
	outs := []*bitcoin.TransactionOutput{{Value: value, PublicKeyScript: script}}
	mainPos := 0
	if rng.Intn(3) == 0 {
		sib := &bitcoin.TransactionOutput{Value: value + 1 + rng.Int63n(5), PublicKeyScript: script}
		if rng.Intn(2) == 0 {
			outs = append(outs, sib)
		} else {
			outs = append([]*bitcoin.TransactionOutput{sib}, outs...)
			mainPos = 1
		}
	}
	hash, idx := c26apFundMany(s.btc.localBitcoinChain, rng, outs, rng.Intn(2))
	s.mainOutpoint = &bitcoin.TransactionOutpoint{TransactionHash: hash, OutputIndex: idx[mainPos]}
	data.MainUtxoHash = s.host.ComputeMainUtxoHash(&bitcoin.UnspentTransactionOutput{Outpoint: s.mainOutpoint, Value: value})
	s.host.wallets[s.wallet.PKH] = data
}

type c26apDeposit struct {
	op    c26apOutpoint
	value int64
	block uint64
}

func c26apSweep(rng *rand.Rand, base *localChain) *c26apScenario {
	btc := &c26apBtc{localBitcoinChain: newLocalBitcoinChain()}
	s := &c26apScenario{kind: "sweep", btc: btc, wallet: c26kitNewKey(rng)}
	s.host = c26apNewChain(base, btc.localBitcoinChain)
	other := c26kitNewKey(rng)
	var mine []c26apDeposit
	baseBlock := uint64(1000 + rng.Intn(1_000_000))

	reveal := func(hash bitcoin.Hash, idx uint32, d *Deposit, value int64, block uint64) {
		s.host.events = append(s.host.events, &DepositRevealedEvent{
			FundingTxHash: hash, FundingOutputIndex: idx, Depositor: d.Depositor, Amount: uint64(value),
			BlindingFactor: d.BlindingFactor, WalletPublicKeyHash: d.WalletPublicKeyHash,
			RefundPublicKeyHash: d.RefundPublicKeyHash, RefundLocktime: d.RefundLocktime, BlockNumber: block,
		})
		s.host.depositReqs[c26apOutpoint{hash, idx}] = &DepositChainRequest{Depositor: d.Depositor, Amount: uint64(value), ExtraData: d.ExtraData}
	}
	lockScript := func(d *Deposit) []byte {
		script, err := d.Script()
		if err != nil {
			panic(err)
		}
		if rng.Intn(2) == 0 {
			return c26kitP2SH(script)
		}
		return c26kitP2WSH(script)
	}
	newDeposit := func(walletPKH [20]byte) *Deposit {
		return c26kitDeposit(rng, walletPKH, c26kitRand20(rng), c26kitLocktimeBytes(1_600_000_000+uint32(rng.Intn(400_000_000))), rng.Intn(2) == 0)
	}

	// groups of 2-5 deposits funded by different outputs of ONE transaction
	groups := 1 + rng.Intn(2)
	if rng.Intn(6) == 0 {
		groups = 0
	}
	for g := 0; g < groups; g++ {
		k := 2 + rng.Intn(4)
		sameAmount := rng.Intn(2) == 0
		sameBlock := rng.Intn(2) == 0
		twinMode := rng.Intn(3) // 0: all distinct scripts, 1: all the same script, 2: some twins
		amount := c26kitAmount(rng)
		var outs []*bitcoin.TransactionOutput
		var deps []*Deposit
		var vals []int64
		var proto *Deposit
		for j := 0; j < k; j++ {
			var d *Deposit
			if proto != nil && (twinMode == 1 || (twinMode == 2 && rng.Intn(2) == 0)) {
				cp := *proto
				d = &cp
				s.twins = true
			} else {
				d = newDeposit(s.wallet.PKH)
				proto = d
			}
			v := amount
			if !sameAmount {
				v = c26kitAmount(rng)
			}
			pk := lockScript(d) // a twin may sit behind either script-hash kind
			outs = append(outs, &bitcoin.TransactionOutput{Value: v, PublicKeyScript: pk})
			deps = append(deps, d)
			vals = append(vals, v)
		}
		// a deposit of another wallet in the same transaction, revealed in the same block
		var foreign *Deposit
		if rng.Intn(2) == 0 {
			foreign = newDeposit(other.PKH)
			outs = append(outs, &bitcoin.TransactionOutput{Value: amount, PublicKeyScript: lockScript(foreign)})
		}
		// shuffle output order inside the transaction
		perm := rng.Perm(len(outs))
		shuffled := make([]*bitcoin.TransactionOutput, len(outs))
		for to, from := range perm {
			shuffled[to] = outs[from]
		}
		hash, idx := c26apFundMany(btc.localBitcoinChain, rng, shuffled, rng.Intn(3))
		posOf := make([]uint32, len(outs))
		for to, from := range perm {
			posOf[from] = idx[to]
		}
		block := baseBlock + uint64(g*50)
		for j, d := range deps {
			b := block
			if !sameBlock {
				b = block + uint64(j*(1+rng.Intn(3)))
			} else {
				s.sameBlock = true
			}
			reveal(hash, posOf[j], d, vals[j], b)
			mine = append(mine, c26apDeposit{c26apOutpoint{hash, posOf[j]}, vals[j], b})
		}
		if foreign != nil {
			reveal(hash, posOf[len(deps)], foreign, amount, block)
		}
		s.sharedFundingTx = true
	}
	// deposits from transactions of their own
	singles := rng.Intn(5)
	if groups == 0 && singles == 0 {
		singles = 1
	}
	for j := 0; j < singles; j++ {
		d := newDeposit(s.wallet.PKH)
		v := c26kitAmount(rng)
		hash, idx := c26apFundMany(btc.localBitcoinChain, rng, []*bitcoin.TransactionOutput{{Value: v, PublicKeyScript: lockScript(d)}}, rng.Intn(3))
		b := baseBlock + uint64(rng.Intn(120))
		reveal(hash, idx[0], d, v, b)
		mine = append(mine, c26apDeposit{c26apOutpoint{hash, idx[0]}, v, b})
	}
	// events in the order of the chain: ascending block, arbitrary inside a block
	rng.Shuffle(len(s.host.events), func(i, j int) { s.host.events[i], s.host.events[j] = s.host.events[j], s.host.events[i] })
	sort.SliceStable(s.host.events, func(i, j int) bool { return s.host.events[i].BlockNumber < s.host.events[j].BlockNumber })

	// the proposal: any order, possibly only some of the deposits
	rng.Shuffle(len(mine), func(i, j int) { mine[i], mine[j] = mine[j], mine[i] })
	take := len(mine)
	if take > 1 && rng.Intn(2) == 0 {
		take = 1 + rng.Intn(len(mine)-1)
		s.partial = true
	}
	mine = mine[:take]
	p := &DepositSweepProposal{}
	total := int64(0)
	for _, d := range mine {
		p.DepositsKeys = append(p.DepositsKeys, struct {
			FundingTxHash      bitcoin.Hash
			FundingOutputIndex uint32
		}{d.op.Hash, d.op.Index})
		p.DepositsRevealBlocks = append(p.DepositsRevealBlocks, new(big.Int).SetUint64(d.block))
		total += d.value
	}
	mainKind := rng.Intn(3)
	mainValue := c26kitAmount(rng)
	s.c26apMain(rng, mainKind, mainValue, &WalletChainData{State: StateLive})
	if mainKind != 0 {
		total += mainValue
	}
	p.SweepTxFee = big.NewInt(c26kitFee(rng, total))
	s.sweep = p
	var b strings.Builder
	fmt.Fprintf(&b, "sweep main=%d fee=%d groups=%d singles=%d twins=%v sameblock=%v keys=[", mainKind, p.SweepTxFee, groups, singles, s.twins, s.sameBlock)
	for i, k := range p.DepositsKeys {
		fmt.Fprintf(&b, "%x:%d@%d ", k.FundingTxHash[:3], k.FundingOutputIndex, p.DepositsRevealBlocks[i])
	}
	b.WriteString("]")
	s.desc = b.String()
	return s
}

func c26apRedemption(rng *rand.Rand, base *localChain) *c26apScenario {
	btc := &c26apBtc{localBitcoinChain: newLocalBitcoinChain()}
	s := &c26apScenario{kind: "redemption", btc: btc, wallet: c26kitNewKey(rng), requests: map[string]*RedemptionRequest{}}
	s.host = c26apNewChain(base, btc.localBitcoinChain)
	other := c26kitNewKey(rng)
	n := 1 + rng.Intn(20)
	if rng.Intn(4) == 0 {
		n = 1 + rng.Intn(3)
	}
	pending := n + rng.Intn(5) // some pending requests are not part of the proposal
	equalAmount := int64(2*n) + c26kitAmount(rng)
	var scripts [][]byte
	seen := map[string]bool{}
	for len(scripts) < pending {
		var sc []byte
		if len(scripts) > 0 && rng.Intn(3) == 0 {
			// a script that shares a long prefix with an earlier one
			prev := scripts[rng.Intn(len(scripts))]
			sc = append([]byte(nil), prev...)
			sc[len(sc)-1-rng.Intn(3)] ^= byte(1 + rng.Intn(255))
		} else {
			sc = c26kitRandomOutputScript(rng, rng.Intn(4))
		}
		if seen[string(sc)] || bitcoin.GetScriptType(sc) == bitcoin.NonStandardScript {
			continue
		}
		seen[string(sc)] = true
		scripts = append(scripts, sc)
	}
	minRedeemable := int64(-1)
	sum := int64(0)
	for i, sc := range scripts {
		redeemable := int64(2*n) + c26kitAmount(rng)
		if rng.Intn(3) == 0 {
			redeemable = equalAmount
		}
		treasury := int64(0)
		if rng.Intn(3) > 0 {
			treasury = rng.Int63n(redeemable/50 + 2)
		}
		red := c26kitRand20(rng)
		q := &RedemptionRequest{
			Redeemer:             chain.Address("0x" + hex.EncodeToString(red[:])),
			RedeemerOutputScript: sc,
			RequestedAmount:      uint64(redeemable + treasury),
			TreasuryFee:          uint64(treasury),
			TxMaxFee:             uint64(redeemable),
		}
		s.host.redemptionReqs[string(s.wallet.PKH[:])+string(sc)] = q
		s.requests[string(sc)] = q
		// the same redeemer script pending at another wallet, with other amounts
		if rng.Intn(3) == 0 {
			s.host.redemptionReqs[string(other.PKH[:])+string(sc)] = &RedemptionRequest{
				Redeemer: q.Redeemer, RedeemerOutputScript: sc,
				RequestedAmount: q.RequestedAmount + 1 + uint64(rng.Intn(1000)), TreasuryFee: q.TreasuryFee + 1,
			}
		}
		if i < n {
			sum += redeemable
			if minRedeemable < 0 || redeemable < minRedeemable {
				minRedeemable = redeemable
			}
		}
	}
	per := rng.Int63n(minRedeemable - int64(n) + 1)
	if per > 50_000 && rng.Intn(3) > 0 {
		per = rng.Int63n(50_000)
	}
	rem := int64(0)
	if n > 1 && rng.Intn(4) > 0 {
		rem = 1 + rng.Int63n(int64(n)-1)
	}
	fee := per*int64(n) + rem
	s.remainder = rem != 0
	change := int64(0)
	switch rng.Intn(4) {
	case 0:
	case 1:
		change = 1 + rng.Int63n(3)
	default:
		change = c26kitAmount(rng)
	}
	s.zeroChange = change == 0
	p := &RedemptionProposal{RedemptionTxFee: big.NewInt(fee)}
	for _, sc := range scripts[:n] {
		p.RedeemersOutputScripts = append(p.RedeemersOutputScripts, sc)
	}
	s.redemption = p
	s.partial = pending > n
	mainKind := 1 + rng.Intn(2)
	s.c26apMain(rng, mainKind, sum+change, &WalletChainData{State: StateLive})
	s.desc = fmt.Sprintf("redemption main=%d value=%d fee=%d change=%d requests=%d pending=%d", mainKind, sum+change, fee, change, n, pending)
	return s
}

func c26apMovingFunds(rng *rand.Rand, base *localChain) *c26apScenario {
	btc := &c26apBtc{localBitcoinChain: newLocalBitcoinChain()}
	s := &c26apScenario{kind: "movingfunds", btc: btc, wallet: c26kitNewKey(rng)}
	s.host = c26apNewChain(base, btc.localBitcoinChain)
	n := 1 + rng.Intn(10)
	p := &MovingFundsProposal{}
	seen := map[[20]byte]bool{}
	for len(p.TargetWallets) < n {
		h := c26kitRand20(rng)
		if !seen[h] {
			seen[h] = true
			p.TargetWallets = append(p.TargetWallets, h)
		}
	}
	per := c26kitAmount(rng)
	rem := int64(0)
	if n > 1 && rng.Intn(4) > 0 {
		rem = 1 + rng.Int63n(int64(n)-1)
	}
	fee := 1 + rng.Int63n(300_000)
	p.MovingFundsTxFee = big.NewInt(fee)
	s.remainder = rem != 0
	s.moving = p
	value := per*int64(n) + rem + fee
	mainKind := 1 + rng.Intn(2)
	s.c26apMain(rng, mainKind, value, &WalletChainData{State: StateMovingFunds, MovingFundsTargetWalletsCommitmentHash: [32]byte{1}})
	s.desc = fmt.Sprintf("movingfunds main=%d value=%d fee=%d targets=%d", mainKind, value, fee, n)
	return s
}

func c26apMovedSweep(rng *rand.Rand, base *localChain) *c26apScenario {
	btc := &c26apBtc{localBitcoinChain: newLocalBitcoinChain()}
	s := &c26apScenario{kind: "movedsweep", btc: btc, wallet: c26kitNewKey(rng)}
	s.host = c26apNewChain(base, btc.localBitcoinChain)
	// the moving funds transaction of the source wallet: one output per target
	// wallet; ours may appear twice with different amounts (index matters)
	script := c26kitP2WPKH(s.wallet.PKH)
	v := c26kitAmount(rng)
	outs := []*bitcoin.TransactionOutput{{Value: v, PublicKeyScript: script}}
	pick := 0
	if rng.Intn(3) == 0 {
		outs = append(outs, &bitcoin.TransactionOutput{Value: v + 1 + rng.Int63n(1000), PublicKeyScript: script})
		pick = rng.Intn(2)
	}
	hash, idx := c26apFundMany(btc.localBitcoinChain, rng, outs, rng.Intn(4))
	total := outs[pick].Value
	mainKind := rng.Intn(3)
	mainValue := c26kitAmount(rng)
	s.c26apMain(rng, mainKind, mainValue, &WalletChainData{State: StateLive})
	if mainKind != 0 {
		total += mainValue
	}
	fee := c26kitFee(rng, total)
	s.movedSweep = &MovedFundsSweepProposal{MovingFundsTxHash: hash, MovingFundsTxOutputIndex: idx[pick], SweepTxFee: big.NewInt(fee)}
	s.desc = fmt.Sprintf("movedsweep main=%d fee=%d moved=%x:%d value=%d siblings=%d", mainKind, fee, hash[:3], idx[pick], outs[pick].Value, len(outs)-1)
	return s
}

// ---------------------------------------------------------------- running the action

var c26apNoWait = func(ctx context.Context, blockHeight uint64) error { return nil }

// run executes the production action path and returns the broadcast
// transaction.
func (s *c26apScenario) run(rng *rand.Rand) (*bitcoin.Transaction, error) {
	w := wallet{publicKey: s.wallet.Pub}
	signer := &c26apSigner{key: s.wallet, rng: rng}
	const start, expiry = uint64(100), uint64(100 + 1200)
	var err error
	switch s.kind {
	case "sweep":
		a := newDepositSweepAction(logger.With(), s.host, s.btc, w, signer, s.sweep, start, expiry, c26apNoWait)
		a.requiredFundingTxConfirmations = 1
		a.broadcastCheckDelay = 0
		err = a.execute()
	case "redemption":
		a := newRedemptionAction(logger.With(), s.host, s.btc, w, signer, s.redemption, start, expiry, c26apNoWait)
		a.broadcastCheckDelay = 0
		err = a.execute()
	case "movedsweep":
		a := newMovedFundsSweepAction(logger.With(), s.host, s.btc, w, signer, s.movedSweep, start, expiry, c26apNoWait)
		a.broadcastCheckDelay = 0
		err = a.execute()
	case "movingfunds":
		// movingFundsAction.execute() step by step, without the 32-block wait
		pkh := bitcoin.PublicKeyHash(w.publicKey)
		var mainUtxo *bitcoin.UnspentTransactionOutput
		mainUtxo, err = DetermineWalletMainUtxo(pkh, s.host, s.btc)
		if err != nil {
			return nil, err
		}
		if mainUtxo == nil {
			return nil, fmt.Errorf("moving funds wallet has no main UTXO")
		}
		if err = ValidateMovingFundsProposal(logger.With(), pkh, mainUtxo, s.moving, s.host); err != nil {
			return nil, err
		}
		if err = EnsureWalletSyncedBetweenChains(pkh, mainUtxo, s.host, s.btc); err != nil {
			return nil, err
		}
		var b *bitcoin.TransactionBuilder
		b, err = assembleMovingFundsTransaction(s.btc, mainUtxo, s.moving.TargetWallets, s.moving.MovingFundsTxFee.Int64())
		if err != nil {
			return nil, err
		}
		te := newWalletTransactionExecutor(s.btc, w, signer, c26apNoWait)
		var tx *bitcoin.Transaction
		tx, err = te.signTransaction(logger.With(), b, start, expiry)
		if err != nil {
			return nil, err
		}
		if err = s.btc.BroadcastTransaction(tx); err != nil {
			return nil, err
		}
	}
	if err != nil {
		return nil, err
	}
	s.btc.mu.Lock()
	defer s.btc.mu.Unlock()
	if len(s.btc.broadcast) == 0 {
		return nil, fmt.Errorf("monitor: action returned without broadcasting a transaction")
	}
	return s.btc.broadcast[len(s.btc.broadcast)-1], nil
}

// intended derives the oracle's scenario from the proposal and the Bitcoin
// chain only.
func (s *c26apScenario) intended() (*c26kitScenario, error) {
	o := &c26kitScenario{Kind: s.kind, Chain: s.btc.localBitcoinChain, Wallet: s.wallet, Shape: 0}
	add := func(op *bitcoin.TransactionOutpoint) error {
		prev, err := c26kitPrevOut(s.btc.localBitcoinChain, op)
		if err != nil {
			return err
		}
		o.Inputs = append(o.Inputs, &bitcoin.UnspentTransactionOutput{Outpoint: op, Value: prev.Value})
		return nil
	}
	switch s.kind {
	case "sweep":
		if s.mainOutpoint != nil {
			if err := add(s.mainOutpoint); err != nil {
				return nil, err
			}
		}
		for _, k := range s.sweep.DepositsKeys {
			if err := add(&bitcoin.TransactionOutpoint{TransactionHash: k.FundingTxHash, OutputIndex: k.FundingOutputIndex}); err != nil {
				return nil, err
			}
		}
		o.Fee = s.sweep.SweepTxFee.Int64()
	case "redemption":
		if err := add(s.mainOutpoint); err != nil {
			return nil, err
		}
		for _, sc := range s.redemption.RedeemersOutputScripts {
			o.Requests = append(o.Requests, s.requests[string(sc)])
		}
		o.Fee = s.redemption.RedemptionTxFee.Int64()
	case "movingfunds":
		if err := add(s.mainOutpoint); err != nil {
			return nil, err
		}
		o.Targets = s.moving.TargetWallets
		o.Fee = s.moving.MovingFundsTxFee.Int64()
	case "movedsweep":
		if err := add(&bitcoin.TransactionOutpoint{TransactionHash: s.movedSweep.MovingFundsTxHash, OutputIndex: s.movedSweep.MovingFundsTxOutputIndex}); err != nil {
			return nil, err
		}
		if s.mainOutpoint != nil {
			if err := add(s.mainOutpoint); err != nil {
				return nil, err
			}
		}
		o.Fee = s.movedSweep.SweepTxFee.Int64()
	}
	return o, nil
}

func TestVerif_C26_ActionPath(t *testing.T) {
	r := verifkit.Start(t, "C26", "actionpath")
	defer r.Finish()
	r.SetRule("PRNG proposals executed by the production wallet actions (deposit sweep, redemption, moved funds sweep: execute(); moving funds: its steps without the 32-block wait) on a host chain with real look-up semantics and a localBitcoinChain. Deposit sweeps (half of the cases): 0-2 groups of 2-5 deposits funded by different outputs of ONE transaction (equal or different amounts, identical or different scripts, revealed in one block or in different blocks, another wallet's deposit in the same transaction and block) mixed with 0-4 deposits from their own transactions, proposal listing them in any order and possibly only some, main UTXO none/P2PKH/P2WPKH with decoy wallet outputs. Redemptions: requests resolved by (wallet, script) among extra pending requests, near-identical scripts, equal amounts, same script at another wallet. Moved funds sweeps: sibling output to the same wallet with another value. Intended UTXOs derived from proposal keys + Bitcoin chain. non-trivial = shared funding transaction, or request not in proposal, or remainder != 0, or zero change, or >= 2 inputs")
	r.Assume("host chain look-ups modelled on the Bridge: events by block range and wallet, deposit requests by funding outpoint, redemption requests by wallet and redeemer script; deposit sweep validator checks the submitted script data against the funding output of the key like WalletProposalValidator does")
	base := Connect()
	n := r.N(3000, 60000)
	verifkit.Parallel(n, 0, func(i int) {
		rng := r.SubRand("proposal", i)
		var s *c26apScenario
		switch i % 6 {
		case 0, 2, 4:
			s = c26apSweep(rng, base)
		case 1:
			s = c26apRedemption(rng, base)
		case 3:
			s = c26apMovingFunds(rng, base)
		default:
			s = c26apMovedSweep(rng, base)
		}
		desc := fmt.Sprintf("#%d %s", i, s.desc)
		var tx *bitcoin.Transaction
		var err error
		if r.Guard("actionpath:"+s.kind+":", desc, func() { tx, err = s.run(rng) }) {
			return
		}
		want, ierr := s.intended()
		if ierr != nil {
			r.Inconclusive("monitor could not derive the intended inputs: " + ierr.Error())
			return
		}
		nontrivial := s.sharedFundingTx || s.partial || s.remainder || s.zeroChange || len(want.Inputs) >= 2
		r.Case(desc, nontrivial)
		r.Count("proposals_"+s.kind, 1)
		if s.sharedFundingTx {
			r.Count("sweeps_with_shared_funding_tx", 1)
		}
		if s.twins {
			r.Count("sweeps_with_identical_scripts", 1)
		}
		if s.sameBlock {
			r.Count("sweeps_with_same_block_reveals", 1)
		}
		s.host.mu.Lock()
		mism := append([]string(nil), s.host.mismatches...)
		s.host.mu.Unlock()
		for _, m := range mism {
			r.Violation("actionpath:"+s.kind+":resolved-wrong-deposit", "the deposit attached to a proposal key for on-chain validation is not the deposit of that key: "+m, desc, nil)
		}
		if err != nil {
			if len(mism) == 0 {
				// no transaction to judge: the property is not violated, but nothing was observed either
				r.Inconclusive("the action failed on a proposal built to be valid (" + desc + "): " + err.Error())
			}
			return
		}
		r.Count("inputs", int64(len(tx.Inputs)))
		for _, p := range c26Check(want, tx) {
			ins := []string{}
			for _, in := range tx.Inputs {
				ins = append(ins, fmt.Sprintf("%x:%d", in.Outpoint.TransactionHash[:3], in.Outpoint.OutputIndex))
			}
			vals := []int64{}
			for _, o := range tx.Outputs {
				vals = append(vals, o.Value)
			}
			r.Violation("actionpath:"+p.fp, p.what, desc, map[string]interface{}{"tx_inputs": ins, "output_values": vals})
		}
		if i < 6 {
			r.Sample(map[string]interface{}{"case": desc, "inputs": len(tx.Inputs), "outputs": len(tx.Outputs)})
		}
	})
}
