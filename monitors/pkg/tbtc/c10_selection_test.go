//go:build verif

package tbtc

// C10 — attempt member selection: every member of a wallet derives the same
// participants, whatever the order in which the ready members were reported.
//
// Part "Select": performMembersSelection of the real signing / DKG retry loop
// objects (built by the real constructors, so the 8-byte seed derivation is
// the code's own) is evaluated for EVERY member index of the group on the
// same ready set, each member receiving its own permutation of the list.
//
// Part "Loop": the real start() loops of all members run through several
// attempts (the attempt counter is the code's own); the lists that reach the
// attempt function (excluded members) and the done-check listener (included
// members) are compared across members.

import (
	"context"
	"fmt"
	"math/big"
	"math/rand"
	"sort"
	"strings"
	"sync"
	"testing"

	"github.com/keep-network/keep-core/internal/testutils"
	"github.com/keep-network/keep-core/internal/verifkit"
	"github.com/keep-network/keep-core/pkg/chain"
	"github.com/keep-network/keep-core/pkg/protocol/group"
	"github.com/keep-network/keep-core/pkg/tecdsa/dkg"
	"github.com/keep-network/keep-core/pkg/tecdsa/signing"
)

// c10Case is one generated input.
type c10Case struct {
	kind      string // layout kind
	operators chain.Addresses
	opOfSeat  []int // operator number per seat (descriptor)
	multiSeat bool
	threshold int
	quorum    int
	groupSize int
	ready     []group.MemberIndex // sorted
	attempt   uint
	message   *big.Int
}

func (c *c10Case) desc(loop string) string {
	var sb strings.Builder
	fmt.Fprintf(&sb, "%s layout=%s seats=%v t=%d q=%d gs=%d ready=%v attempt=%d msg=%s",
		loop, c.kind, c.opOfSeat, c.threshold, c.quorum, c.groupSize, c.ready, c.attempt, c.message.Text(16))
	return sb.String()
}

// c10Layout returns the operator number of every seat.
func c10Layout(rng *rand.Rand) (kind string, seats []int) {
	switch rng.Intn(6) {
	case 0: // one seat per operator
		n := 5 + rng.Intn(96)
		for i := 0; i < n; i++ {
			seats = append(seats, i)
		}
		kind = "single"
	case 1: // 2/2/1 repeated
		n := 5 + rng.Intn(96)
		pat := []int{2, 2, 1}
		op := 0
		for len(seats) < n {
			for k := 0; k < pat[op%3] && len(seats) < n; k++ {
				seats = append(seats, op)
			}
			op++
		}
		kind = "2-2-1"
	case 2: // one whale
		n := 8 + rng.Intn(93)
		w := n/4 + rng.Intn(n/4+1)
		for i := 0; i < w; i++ {
			seats = append(seats, 0)
		}
		op := 1
		for len(seats) < n {
			c := 1 + rng.Intn(2)
			for k := 0; k < c && len(seats) < n; k++ {
				seats = append(seats, op)
			}
			op++
		}
		kind = "whale"
	case 3: // production like: 100 seats, 30 operators
		for i := 0; i < 100; i++ {
			if i < 30 {
				seats = append(seats, i)
			} else {
				// skewed: low-numbered operators get more
				seats = append(seats, int(float64(30)*rng.Float64()*rng.Float64()))
			}
		}
		kind = "prod-100-30"
	case 4: // few operators, many seats each
		n := 5 + rng.Intn(40)
		ops := 2 + rng.Intn(4)
		for i := 0; i < n; i++ {
			seats = append(seats, rng.Intn(ops))
		}
		kind = "few-ops"
	default: // random
		n := 5 + rng.Intn(96)
		ops := 1 + rng.Intn(n)
		for i := 0; i < n; i++ {
			seats = append(seats, rng.Intn(ops))
		}
		kind = "random"
	}
	rng.Shuffle(len(seats), func(i, j int) { seats[i], seats[j] = seats[j], seats[i] })
	return
}

func c10Gen(rng *rand.Rand, forDkg bool) *c10Case {
	kind, seats := c10Layout(rng)
	n := len(seats)
	c := &c10Case{kind: kind, opOfSeat: seats}
	cnt := map[int]int{}
	for _, o := range seats {
		// address strings of different lengths and not in numeric order,
		// so that the byte-wise operator sort is not the seat order
		c.operators = append(c.operators, chain.Address(fmt.Sprintf("0x%x-op", (o*7919+13)%1009*131+o)))
		cnt[o]++
		if cnt[o] > 1 {
			c.multiSeat = true
		}
	}
	c.threshold = n/2 + 1
	if rng.Intn(5) == 0 {
		c.threshold = 1 + rng.Intn(n)
	}
	c.groupSize = n
	min := c.threshold
	if forDkg {
		switch x := rng.Intn(10); {
		case x < 6:
			c.quorum = (9*n + 9) / 10
		case x < 7:
			c.quorum = n - 1
		default:
			c.quorum = c.threshold + rng.Intn(n-c.threshold+1)
		}
		if c.quorum < c.threshold {
			c.quorum = c.threshold
		}
		min = c.quorum
	} else {
		c.quorum = c.threshold
		// the wallet's signing group may be smaller than the nominal size
		c.groupSize = n + rng.Intn(4)
	}
	var r int
	switch x := rng.Intn(20); {
	case x < 2:
		r = min
	case x < 4:
		r = min + 1
	case x < 7:
		r = n
	case x < 10:
		r = n - 1
	default:
		r = min + rng.Intn(n-min+1)
	}
	if r > n {
		r = n
	}
	if r < min {
		r = min
	}
	perm := rng.Perm(n)
	for _, p := range perm[:r] {
		c.ready = append(c.ready, group.MemberIndex(p+1))
	}
	sort.Slice(c.ready, func(i, j int) bool { return c.ready[i] < c.ready[j] })
	c.attempt = uint(1 + rng.Intn(40))
	if rng.Intn(3) == 0 {
		c.attempt = uint(1 + rng.Intn(4))
	}
	if forDkg {
		// key-generation retries run out quickly when few operators can be
		// spared: keep most attempts low so that most selections succeed
		switch x := rng.Intn(10); {
		case x < 2:
			c.attempt = 1
		case x < 7:
			c.attempt = uint(2 + rng.Intn(4))
		}
	}
	b := make([]byte, 1+rng.Intn(32))
	rng.Read(b)
	c.message = new(big.Int).SetBytes(b)
	return c
}

func c10Shuffled(rng *rand.Rand, l []group.MemberIndex) []group.MemberIndex {
	o := append([]group.MemberIndex(nil), l...)
	rng.Shuffle(len(o), func(i, j int) { o[i], o[j] = o[j], o[i] })
	return o
}

func c10SortedCopy(l []group.MemberIndex) []group.MemberIndex {
	o := append([]group.MemberIndex{}, l...)
	sort.Slice(o, func(i, j int) bool { return o[i] < o[j] })
	return o
}

func c10EqualSets(a, b []group.MemberIndex) bool {
	a, b = c10SortedCopy(a), c10SortedCopy(b)
	if len(a) != len(b) {
		return false
	}
	for i := range a {
		if a[i] != b[i] {
			return false
		}
	}
	return true
}

// c10Judge checks one excluded list (already known to be the same for all
// members) against the statement. It returns (fingerprint suffix, text) pairs.
func c10Judge(c *c10Case, forDkg bool, excluded []group.MemberIndex) [][2]string {
	var out [][2]string
	n := len(c.operators)
	ex := map[group.MemberIndex]bool{}
	for _, m := range excluded {
		if m < 1 || int(m) > n {
			out = append(out, [2]string{"excluded-out-of-range", fmt.Sprintf("excluded list names member %d of a %d seat group", m, n)})
		}
		ex[m] = true
	}
	rd := map[group.MemberIndex]bool{}
	for _, m := range c.ready {
		rd[m] = true
	}
	var included []group.MemberIndex
	for i := 1; i <= n; i++ {
		if !ex[group.MemberIndex(i)] {
			included = append(included, group.MemberIndex(i))
		}
	}
	for _, m := range included {
		if !rd[m] {
			out = append(out, [2]string{"included-not-ready", fmt.Sprintf("member %d is included but did not announce readiness", m)})
			break
		}
	}
	if !forDkg {
		if len(included) != c.threshold {
			out = append(out, [2]string{"included-count", fmt.Sprintf("%d members included, honest threshold is %d", len(included), c.threshold)})
		}
		return out
	}
	if len(included) < c.quorum {
		out = append(out, [2]string{"below-quorum", fmt.Sprintf("%d members included, group quorum is %d", len(included), c.quorum)})
	}
	// ready seats of one operator are included all or none (the operator is
	// qualified or it is not)
	inc := map[chain.Address]int{}
	tot := map[chain.Address]int{}
	for _, m := range c.ready {
		op := c.operators[m-1]
		tot[op]++
		if !ex[m] {
			inc[op]++
		}
	}
	for op, t := range tot {
		if inc[op] != 0 && inc[op] != t {
			out = append(out, [2]string{"operator-split", fmt.Sprintf("operator %s has %d of its %d ready seats included", op, inc[op], t)})
			break
		}
	}
	return out
}

func TestVerif_C10_Select(t *testing.T) {
	r := verifkit.Start(t, "C10", "select")
	defer r.Finish()
	r.SetRule("random seat layouts (1 seat each, 2/2/1, one whale, 100 seats/30 operators, few operators, random; 5..100 seats), ready sets from threshold/quorum to all seats, attempts 1..40, random messages/seeds of 1..32 bytes; every member index evaluates performMembersSelection on its own permutation of the ready list. non-trivial = some operator holds > 1 seat, the ready set is not all seats and the selection succeeded")
	nSign := r.N(1500, 40000)
	nDkg := r.N(1500, 40000)
	total := nSign + nDkg
	var members, selErrs, attempt1 int64
	var mu sync.Mutex
	verifkit.Parallel(total, 0, func(i int) {
		forDkg := i >= nSign
		stream := "sign"
		if forDkg {
			stream = "dkg"
		}
		rng := r.SubRand(stream, i)
		c := c10Gen(rng, forDkg)
		n := len(c.operators)
		desc := c.desc(stream)
		gp := &GroupParameters{GroupSize: c.groupSize, GroupQuorum: c.quorum, HonestThreshold: c.threshold}
		type res struct {
			ex  []group.MemberIndex
			err error
		}
		results := make([]res, n)
		perms := make([][]group.MemberIndex, n)
		panicked := false
		for m := 1; m <= n; m++ {
			ready := c10Shuffled(rng, c.ready)
			if m == 1 {
				ready = append([]group.MemberIndex(nil), c.ready...) // one member sees the sorted list
			}
			perms[m-1] = ready
			in := append([]group.MemberIndex(nil), ready...)
			if r.Guard(stream+":", fmt.Sprintf("%s member=%d order=%v", desc, m, ready), func() {
				if forDkg {
					l := newDkgRetryLoop(&testutils.MockLogger{}, c.message, 0, group.MemberIndex(m),
						append(chain.Addresses(nil), c.operators...), gp, nil, 0)
					l.attemptCounter = c.attempt
					results[m-1].ex, results[m-1].err = l.performMembersSelection(in)
				} else {
					l := newSigningRetryLoop(&testutils.MockLogger{}, c.message, 0, group.MemberIndex(m),
						append(chain.Addresses(nil), c.operators...), gp, nil, nil)
					l.attemptCounter = c.attempt
					results[m-1].ex, results[m-1].err = l.performMembersSelection(in)
				}
			}) {
				panicked = true
				break
			}
		}
		if panicked {
			return
		}
		r.Case(desc, c.multiSeat && len(c.ready) != n && results[0].err == nil)
		mu.Lock()
		members += int64(n)
		if c.attempt == 1 {
			attempt1++
		}
		mu.Unlock()
		// agreement between members
		ref := results[0]
		for m := 2; m <= n; m++ {
			x := results[m-1]
			if (x.err != nil) != (ref.err != nil) {
				r.Violation(stream+":members-disagree-on-error", "one member's selection fails while another member's succeeds on the same ready set",
					desc, map[string]interface{}{"member_a": 1, "order_a": perms[0], "err_a": fmt.Sprint(ref.err), "member_b": m, "order_b": perms[m-1], "err_b": fmt.Sprint(x.err)})
				return
			}
			if x.err == nil && !c10EqualSets(x.ex, ref.ex) {
				r.Violation(stream+":members-disagree", "two members of the wallet compute different excluded member lists for the same ready set",
					desc, map[string]interface{}{"member_a": 1, "order_a": perms[0], "excluded_a": ref.ex, "member_b": m, "order_b": perms[m-1], "excluded_b": x.ex})
				return
			}
		}
		if ref.err != nil {
			mu.Lock()
			selErrs++
			mu.Unlock()
			if !forDkg {
				// the signing selection cannot legitimately fail when at least
				// the threshold is ready
				r.Violation("sign:selection-error", "signing member selection failed although at least the honest threshold announced readiness: "+ref.err.Error(), desc, nil)
			}
			return
		}
		for _, p := range c10Judge(c, forDkg, ref.ex) {
			r.Violation(stream+":"+p[0], p[1], desc, map[string]interface{}{"excluded": ref.ex})
		}
		if i%(total/4+1) == 0 || (forDkg && (i-nSign)%(nDkg/2+1) == 0) {
			r.Sample(map[string]interface{}{"loop": stream, "layout": c.kind, "seat_operators": c.opOfSeat, "threshold": c.threshold, "quorum": c.quorum,
				"ready": c.ready, "attempt": c.attempt, "message": c.message.Text(16), "excluded_by_all_members": ref.ex})
		}
	})
	r.Count("member_evaluations", members)
	r.Count("dkg_retry_exhausted_cases", selErrs)
	r.Count("attempt_1_cases", attempt1)
}

// ---------------------------------------------------------------- loop part

type c10Obs struct {
	mu       sync.Mutex
	excluded map[uint]map[int][]group.MemberIndex // attempt -> member -> excluded list given to the attempt fn
	included map[uint]map[int][]group.MemberIndex // attempt -> member -> included list given to the done check (signing)
	endedAt  map[int]uint                         // member -> attempt counter when start() returned with a selection error
}

type c10Announcer struct {
	member  int
	readyOf func(attempt uint, member int) []group.MemberIndex // nil => stop
	cancel  context.CancelFunc
}

func (a *c10Announcer) Announce(ctx context.Context, memberIndex group.MemberIndex, sessionID string) ([]group.MemberIndex, error) {
	k := strings.LastIndex(sessionID, "-")
	var att uint
	fmt.Sscanf(sessionID[k+1:], "%d", &att)
	l := a.readyOf(att, a.member)
	if l == nil {
		if a.cancel != nil {
			a.cancel()
		}
		return nil, fmt.Errorf("script over")
	}
	return l, nil
}

type c10DoneCheck struct {
	member int
	obs    *c10Obs
}

func (d *c10DoneCheck) listen(ctx context.Context, message *big.Int, attemptNumber uint64, attemptTimeoutBlock uint64, attemptMembersIndexes []group.MemberIndex) {
	d.obs.mu.Lock()
	defer d.obs.mu.Unlock()
	if d.obs.included[uint(attemptNumber)] == nil {
		d.obs.included[uint(attemptNumber)] = map[int][]group.MemberIndex{}
	}
	d.obs.included[uint(attemptNumber)][d.member] = append([]group.MemberIndex{}, attemptMembersIndexes...)
}
func (d *c10DoneCheck) signalDone(ctx context.Context, memberIndex group.MemberIndex, message *big.Int, attemptNumber uint64, result *signing.Result, endBlock uint64) error {
	return nil
}
func (d *c10DoneCheck) waitUntilAllDone(ctx context.Context) (*signing.Result, uint64, error) {
	return nil, 0, fmt.Errorf("scripted: nobody finishes")
}

func TestVerif_C10_Loop(t *testing.T) {
	r := verifkit.Start(t, "C10", "loop")
	defer r.Finish()
	r.SetRule("the real signingRetryLoop.start / dkgRetryLoop.start of ALL members of a group run through 2..6 failing attempts (block waits return at once); per attempt a fresh ready set, reported to each member in its own order; observed: excluded list handed to the attempt function, included list handed to the done check. non-trivial = multi-seat operators and some attempt with a ready set that is not all seats")
	nCases := r.N(160, 4000)
	var loops int64
	var mu sync.Mutex
	verifkit.Parallel(nCases, 0, func(i int) {
		forDkg := i%2 == 1
		stream := "sign-loop"
		if forDkg {
			stream = "dkg-loop"
		}
		rng := r.SubRand(stream, i)
		var c *c10Case
		for {
			c = c10Gen(rng, forDkg)
			if len(c.operators) <= 40 || i%16 < 2 {
				break
			}
		}
		n := len(c.operators)
		K := uint(2 + rng.Intn(5))
		min := c.threshold
		if forDkg {
			min = c.quorum
		}
		// ready set per attempt
		readySets := make([][]group.MemberIndex, K+1)
		partial := false
		for a := uint(1); a <= K; a++ {
			rsz := min + rng.Intn(n-min+1)
			if rng.Intn(4) == 0 {
				rsz = n
			}
			p := rng.Perm(n)
			var l []group.MemberIndex
			for _, x := range p[:rsz] {
				l = append(l, group.MemberIndex(x+1))
			}
			readySets[a] = c10SortedCopy(l)
			if rsz != n {
				partial = true
			}
		}
		// per member, per attempt permutation seeds (deterministic)
		permSeed := rng.Int63()
		readyOf := func(att uint, member int) []group.MemberIndex {
			if att < 1 || att > K {
				return nil
			}
			pr := rand.New(rand.NewSource(permSeed + int64(att)*1000 + int64(member)))
			return c10Shuffled(pr, readySets[att])
		}
		desc := fmt.Sprintf("%s layout=%s seats=%v t=%d q=%d attempts=%d ready=%v msg=%s permseed=%d",
			stream, c.kind, c.opOfSeat, c.threshold, c.quorum, K, readySets[1:], c.message.Text(16), permSeed)
		gp := &GroupParameters{GroupSize: c.groupSize, GroupQuorum: c.quorum, HonestThreshold: c.threshold}
		obs := &c10Obs{excluded: map[uint]map[int][]group.MemberIndex{}, included: map[uint]map[int][]group.MemberIndex{}, endedAt: map[int]uint{}}
		rec := func(att uint, member int, ex []group.MemberIndex) {
			obs.mu.Lock()
			defer obs.mu.Unlock()
			if obs.excluded[att] == nil {
				obs.excluded[att] = map[int][]group.MemberIndex{}
			}
			obs.excluded[att][member] = append([]group.MemberIndex{}, ex...)
		}
		var wg sync.WaitGroup
		anyPanic := false
		var pmu sync.Mutex
		for m := 1; m <= n; m++ {
			wg.Add(1)
			go func(m int) {
				defer wg.Done()
				p := r.Guard(stream+":", fmt.Sprintf("%s member=%d", desc, m), func() {
					noWait := func(context.Context, uint64) error { return nil }
					if forDkg {
						ann := &c10Announcer{member: m, readyOf: readyOf}
						l := newDkgRetryLoop(&testutils.MockLogger{}, c.message, 100, group.MemberIndex(m),
							append(chain.Addresses(nil), c.operators...), gp, ann, K)
						_, err := l.start(context.Background(), noWait, func(p *dkgAttemptParams) (*dkg.Result, error) {
							rec(p.number, m, p.excludedMembersIndexes)
							return nil, fmt.Errorf("scripted failure")
						})
						if err != nil && strings.Contains(err.Error(), "cannot select members") {
							obs.mu.Lock()
							obs.endedAt[m] = l.attemptCounter
							obs.mu.Unlock()
						}
					} else {
						ctx, cancel := context.WithCancel(context.Background())
						defer cancel()
						ann := &c10Announcer{member: m, readyOf: readyOf, cancel: cancel}
						l := newSigningRetryLoop(&testutils.MockLogger{}, c.message, 100, group.MemberIndex(m),
							append(chain.Addresses(nil), c.operators...), gp, ann, &c10DoneCheck{member: m, obs: obs})
						_, err := l.start(ctx, noWait, func() (uint64, error) { return 100, nil },
							func(p *signingAttemptParams) (*signing.Result, uint64, error) {
								rec(p.number, m, p.excludedMembersIndexes)
								return nil, 0, fmt.Errorf("scripted failure")
							})
						if err != nil && strings.Contains(err.Error(), "cannot select members") {
							obs.mu.Lock()
							obs.endedAt[m] = l.attemptCounter
							obs.mu.Unlock()
						}
					}
				})
				if p {
					pmu.Lock()
					anyPanic = true
					pmu.Unlock()
				}
			}(m)
		}
		wg.Wait()
		if anyPanic {
			return
		}
		r.Case(desc, c.multiSeat && partial)
		mu.Lock()
		loops += int64(n)
		mu.Unlock()
		// a selection error must hit every member at the same attempt
		var errAttempt uint
		if len(obs.endedAt) > 0 {
			for _, a := range obs.endedAt {
				errAttempt = a
				break
			}
			bad := len(obs.endedAt) != n
			for _, a := range obs.endedAt {
				if a != errAttempt {
					bad = true
				}
			}
			if bad {
				r.Violation(stream+":members-disagree-on-error", "the retry loop of some members ended with a selection error while others went on (or at another attempt)", desc, map[string]interface{}{"ended_with_selection_error_at": obs.endedAt, "members": n})
				return
			}
			if !forDkg {
				r.Violation("sign-loop:selection-error", "signing member selection failed although at least the honest threshold announced readiness", desc, obs.endedAt)
				return
			}
		}
		for a := uint(1); a <= K; a++ {
			if errAttempt != 0 && a >= errAttempt {
				if len(obs.excluded[a]) != 0 {
					r.Violation(stream+":members-disagree-on-error", "members executed an attempt that other members could not select members for", desc, map[string]interface{}{"attempt": a})
				}
				break
			}
			cc := *c
			cc.ready = readySets[a]
			adesc := fmt.Sprintf("%s @attempt=%d", desc, a)
			exBy := obs.excluded[a]
			var refEx []group.MemberIndex
			refM := 0
			var callers []group.MemberIndex
			for m := 1; m <= n; m++ {
				ex, ok := exBy[m]
				if !ok {
					continue
				}
				callers = append(callers, group.MemberIndex(m))
				if refM == 0 {
					refM, refEx = m, ex
					continue
				}
				if !c10EqualSets(ex, refEx) {
					r.Violation(stream+":members-disagree", "two members hand different excluded member lists to the attempt function of the same attempt",
						adesc, map[string]interface{}{"member_a": refM, "excluded_a": refEx, "member_b": m, "excluded_b": ex, "order_a": readyOf(a, refM), "order_b": readyOf(a, m)})
					return
				}
			}
			if refM == 0 {
				r.Violation(stream+":nobody-executes", "no member executed the attempt although enough members were ready and the selection did not fail", adesc, nil)
				continue
			}
			// those who execute are exactly those not excluded
			exSet := map[group.MemberIndex]bool{}
			for _, x := range refEx {
				exSet[x] = true
			}
			var notEx []group.MemberIndex
			for m := 1; m <= n; m++ {
				if !exSet[group.MemberIndex(m)] {
					notEx = append(notEx, group.MemberIndex(m))
				}
			}
			if !c10EqualSets(notEx, callers) {
				r.Violation(stream+":executors-differ-from-included", "the set of members that executed the attempt is not the complement of the excluded list the executors were given",
					adesc, map[string]interface{}{"executed": callers, "excluded": refEx})
			}
			if !forDkg {
				for m := 1; m <= n; m++ {
					inc, ok := obs.included[a][m]
					if !ok {
						r.Violation("sign-loop:no-listen", "a member did not set up the done check for an attempt whose selection succeeded", adesc, map[string]interface{}{"member": m})
						break
					}
					if !c10EqualSets(inc, notEx) {
						r.Violation("sign-loop:members-disagree", "a member's included list (done check) differs from the complement of the executors' excluded list",
							adesc, map[string]interface{}{"member": m, "included": inc, "excluded_by_executor": refEx})
						break
					}
				}
			}
			for _, p := range c10Judge(&cc, forDkg, refEx) {
				r.Violation(stream+":"+p[0], p[1], adesc, map[string]interface{}{"excluded": refEx})
			}
		}
		if i < 4 {
			ex1 := []group.MemberIndex{}
			for _, ex := range obs.excluded[1] {
				ex1 = ex
				break
			}
			r.Sample(map[string]interface{}{"loop": stream, "layout": c.kind, "seat_operators": c.opOfSeat, "threshold": c.threshold, "quorum": c.quorum,
				"attempts": K, "ready_attempt_1": readySets[1], "excluded_attempt_1": ex1, "executors_attempt_1": len(obs.excluded[1])})
		}
	})
	r.Count("member_loops", loops)
}
