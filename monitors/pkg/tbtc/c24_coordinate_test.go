//go:build verif

package tbtc

import (
	"context"
	"fmt"
	"runtime"
	"sync/atomic"
	"testing"
	"time"

	"github.com/keep-network/keep-core/internal/testutils"
	"github.com/keep-network/keep-core/internal/verifkit"
	"github.com/keep-network/keep-core/pkg/chain"
	"github.com/keep-network/keep-core/pkg/generator"
	"github.com/keep-network/keep-core/pkg/protocol/group"
)

// Phase lengths as documented in coordination.go ("number of blocks in the
// active phase" = 80, passive phase = 20, windows start every 900 blocks).
// Deliberately NOT taken from activePhaseEndBlock()/endBlock().
const (
	c24coFrequency = 900
	c24coActive    = 80
	c24coWindow    = 100
)

// c24coChain is what coordinate() needs from the chain: the safe block hash
// and Signing().
type c24coChain struct {
	Chain
	hashes  map[uint64][32]byte
	signing chain.Signing
}

func (c *c24coChain) GetBlockHashByNumber(n uint64) ([32]byte, error) {
	h, ok := c.hashes[n]
	if !ok {
		return [32]byte{}, fmt.Errorf("block not found")
	}
	return h, nil
}
func (c *c24coChain) Signing() chain.Signing { return c.signing }

func c24coWaitFn(clk *verifkit.Clock) waitForBlockFn {
	return func(ctx context.Context, b uint64) error {
		wait, err := clk.BlockHeightWaiter(b)
		if err != nil {
			return err
		}
		select {
		case <-wait:
		case <-ctx.Done():
		}
		return nil
	}
}

type c24coOutcome struct {
	result   *coordinationResult
	err      error
	panicked bool
}

type c24coCase struct {
	Mode       string   `json:"mode"` // "active", "passive", "silence"
	Seats      []string `json:"seats"`
	Follower   string   `json:"follower"`
	Leader     string   `json:"leader"` // as elected by the code for this window (C22's subject)
	Block      uint64   `json:"block"`
	Start      uint64   `json:"start_offset"`    // block offset at which coordinate() is called
	SendAt     uint64   `json:"send_at_offset"`  // block offset at which the leader's proposal is first sent
	Noise      []string `json:"noise_before"`    // peers impersonating the leader before the proposal
	RealLeader bool     `json:"real_leader"`     // proposal sent by the leader's own coordinate()
	Stepwise   bool     `json:"clock_stepwise"`
}

// TestVerif_C24_CoordinatePhase drives the real coordinate() of a follower on
// a virtual block clock: the bound "during the active phase" is whatever
// coordinate() itself derives from the window's block numbers.
func TestVerif_C24_CoordinatePhase(t *testing.T) {
	r := verifkit.Start(t, "C24", "coordinate-phase")
	defer r.Finish()
	r.SetRule("follower's real coordinate() (real net/local channel, real membership validator, virtual block clock) for windows 900*k; the leader's valid proposal is first sent (a) at a block offset 0..79 of the window (biased to 0, 78, 79), by a peer holding the leader's lowest seat or by the leader's own coordinate(), after 0-2 impersonations, (b) at offset 80..99 (biased to 80, 81, 99), (c) never. The clock is moved only after the follower is parked on a future block or has returned. non-trivial = the decisive observation was made: proposal sent while the follower was still listening, or the follower had already given up when the proposal was due, or silence ran to the follower's return")
	r.Assume("the active phase is the first 80 blocks of a window and the window is 100 blocks long (documentation comments of coordination.go); the elected leader is computed with getSeed/getLeader (C22's subject)")
	r.Assume("coordinate() drops the fault list when the follower routine fails, so 'leader recorded idle' is observed as its error return")

	n := r.N(3000, 100000)
	workers := runtime.NumCPU()
	if workers > 16 {
		workers = 16
	}
	pools := make(chan *c24Pool, workers)
	for w := 0; w < workers; w++ {
		p, err := c24NewPool(r.Rand("co-keys"), fmt.Sprintf("c24co-%d-%d", r.Seed(), w)) // same keys in every pool: the elected leader must not depend on which pool runs the case
		if err != nil {
			r.Inconclusive("cannot build peer pool: " + err.Error())
			return
		}
		pools <- p
	}
	deadCtx, kill := context.WithCancel(context.Background())
	kill()

	var nActiveReturned, nLateIgnored, nSilence, nParkedLate, nRealLeader int64
	var stuck int32 // set by the first watchdog expiry: the remaining cases are skipped (run is inconclusive anyway)
	verifkit.Parallel(n, workers, func(i int) {
		if atomic.LoadInt32(&stuck) != 0 {
			return
		}
		rng := r.SubRand("case", i)
		pool := <-pools
		defer func() { pools <- pool }()

		// ---- the case
		var c c24coCase
		nOps := 3 + rng.Intn(3)
		nSeats := 5 + rng.Intn(6)
		perm := rng.Perm(5)[:nOps]
		for _, k := range perm {
			c.Seats = append(c.Seats, fmt.Sprintf("op%d", k))
		}
		for len(c.Seats) < nSeats {
			c.Seats = append(c.Seats, fmt.Sprintf("op%d", perm[rng.Intn(nOps)]))
		}
		rng.Shuffle(len(c.Seats), func(a, b int) { c.Seats[a], c.Seats[b] = c.Seats[b], c.Seats[a] })
		c.Block = uint64(1+rng.Intn(60)) * c24coFrequency
		c.Start = uint64(rng.Intn(4))
		c.Stepwise = rng.Intn(2) == 0
		switch rng.Intn(5) {
		case 0:
			c.Mode = "silence"
		case 1, 2:
			c.Mode = "active"
			c.SendAt = []uint64{0, c24coActive - 1, c24coActive - 2, uint64(rng.Intn(c24coActive)), uint64(rng.Intn(c24coActive))}[rng.Intn(5)]
			c.RealLeader = rng.Intn(2) == 0
		default:
			c.Mode = "passive"
			c.SendAt = []uint64{c24coActive, c24coActive + 1, c24coWindow - 1, c24coActive + uint64(rng.Intn(c24coWindow-c24coActive)), c24coActive}[rng.Intn(5)]
		}
		if c.SendAt < c.Start {
			c.Start = c.SendAt
		}
		var safeHash [32]byte
		rng.Read(safeHash[:])

		peerByName := func(name string) *c24Peer {
			for _, p := range pool.ops {
				if p.name == name {
					return p
				}
			}
			return nil
		}
		nameOf := func(a chain.Address) string {
			for _, p := range pool.ops {
				if p.address == a {
					return p.name
				}
			}
			return "unknown:" + string(a)
		}
		seats := make([]chain.Address, len(c.Seats))
		for s, nm := range c.Seats {
			seats[s] = peerByName(nm).address
		}
		w := wallet{publicKey: pool.wallet, signingGroupOperators: seats}
		newChain := func() *c24coChain {
			return &c24coChain{hashes: map[uint64][32]byte{c.Block - coordinationSafeBlockShift: safeHash}, signing: pool.signing}
		}
		// who leads this window (C22's subject; used here only to pick the roles)
		probe := &coordinationExecutor{chain: newChain(), coordinatedWallet: w}
		seed, err := probe.getSeed(c.Block)
		if err != nil {
			r.Inconclusive("harness: getSeed: " + err.Error())
			return
		}
		leader := peerByName(nameOf(probe.getLeader(seed)))
		if leader == nil {
			r.Inconclusive("harness: elected leader is not a pool operator")
			return
		}
		c.Leader = leader.name
		var others []*c24Peer
		for _, k := range perm {
			if p := pool.ops[k]; p != leader {
				others = append(others, p)
			}
		}
		follower := others[rng.Intn(len(others))]
		c.Follower = follower.name
		var thirds []*c24Peer
		for _, p := range others {
			if p != follower {
				thirds = append(thirds, p)
			}
		}
		if c.Mode != "silence" && len(thirds) > 0 {
			for k := rng.Intn(3); k > 0; k-- {
				c.Noise = append(c.Noise, thirds[rng.Intn(len(thirds))].name)
			}
		}
		desc := verifkit.JSON(c)

		// ---- the follower under test: everything real except clock and chain stub
		clk := verifkit.NewClock(c.Block + c.Start)
		lclk := verifkit.NewClock(c.Block + c.SendAt) // the real leader's own clock
		defer clk.Set(c.Block+5000, false)            // releases coordinate()'s block waiters
		defer lclk.Set(c.Block+5000, false)
		vs := &c24ValidatorSigning{Signing: pool.signing, sentinelKey: pool.sentinel.pubRaw, seen: make(chan struct{}, 4)}
		ep := &c24Endpoint{BroadcastChannel: follower.channel, registered: make(chan struct{})}
		ex := newCoordinationExecutor(
			newChain(), w, w.membersByOperator(follower.address), follower.address,
			newMockCoordinationProposalGenerator(func([20]byte, []WalletActionType, uint) (CoordinationProposal, error) {
				return nil, fmt.Errorf("a follower must not generate proposals")
			}),
			ep,
			group.NewMembershipValidator(&testutils.MockLogger{}, seats, vs),
			generator.NewProtocolLatch(),
			c24coWaitFn(clk),
		)
		pkh := ex.walletPublicKeyHash()
		window := newCoordinationWindow(c.Block)
		resCh := make(chan c24coOutcome, 1)
		go func() {
			var o c24coOutcome
			o.panicked = r.Guard("coordinate:", desc, func() { o.result, o.err = ex.coordinate(window) })
			resCh <- o
		}()
		watchdog := time.NewTimer(30 * time.Second)
		defer watchdog.Stop()
		expired := func() bool {
			select {
			case <-watchdog.C:
				atomic.StoreInt32(&stuck, 1)
				return true
			default:
				return false
			}
		}

		// settle: wait until the follower has returned, or is parked waiting for
		// a block later than the current one (so it will not move by itself)
		var out *c24coOutcome
		settle := func() bool {
			for spins := 0; ; spins++ {
				select {
				case o := <-resCh:
					out = &o
					return true
				default:
				}
				if nb, ok := clk.NextWaited(); ok && nb > clk.Height() {
					select {
					case <-ep.registered:
						return true
					default: // parked, but the receive handler is not installed yet
					}
				}
				if spins < 100 {
					runtime.Gosched()
				} else {
					time.Sleep(20 * time.Microsecond)
				}
				if expired() {
					r.Inconclusive("watchdog: follower neither returned nor parked on a future block: " + desc)
					return false
				}
			}
		}
		waitReturn := func(what string) bool {
			select {
			case o := <-resCh:
				out = &o
				return true
			case <-watchdog.C:
				atomic.StoreInt32(&stuck, 1)
				r.Inconclusive("watchdog: " + what + ": " + desc)
				return false
			}
		}
		sendMsg := func(from *c24Peer, id group.MemberIndex, tag int64, action WalletActionType) bool {
			err := from.channel.Send(deadCtx, &coordinationMessage{
				senderID: id, coordinationBlock: c.Block, walletPublicKeyHash: pkh, proposal: c24Proposal(uint8(action), tag),
			})
			if err != nil {
				r.Inconclusive(fmt.Sprintf("harness: send failed: %v: %s", err, desc))
				return false
			}
			return true
		}
		leaderLowest := w.membersByOperator(leader.address)[0]
		const proposalTag = 4242
		sendProposal := func() bool {
			for k, nm := range c.Noise {
				p := peerByName(nm)
				if !sendMsg(p, w.membersByOperator(p.address)[0], int64(100+k), ActionRedemption) {
					return false
				}
			}
			if c.RealLeader {
				lex := newCoordinationExecutor(
					newChain(), w, w.membersByOperator(leader.address), leader.address,
					newMockCoordinationProposalGenerator(func([20]byte, []WalletActionType, uint) (CoordinationProposal, error) {
						return c24Proposal(uint8(ActionRedemption), proposalTag), nil
					}),
					leader.channel,
					group.NewMembershipValidator(&testutils.MockLogger{}, seats, pool.signing),
					generator.NewProtocolLatch(),
					c24coWaitFn(lclk),
				)
				var lres *coordinationResult
				var lerr error
				if r.Guard("coordinate-leader:", desc, func() { lres, lerr = lex.coordinate(window) }) {
					return false
				}
				if lerr != nil || lres == nil || lres.proposal == nil || c24Tag(lres.proposal) != proposalTag {
					r.Violation("leader:no-proposal", fmt.Sprintf("the elected leader's coordinate() did not broadcast its proposal: result=%v err=%v", lres, lerr), desc, nil)
					return false
				}
				atomic.AddInt64(&nRealLeader, 1)
				return true
			}
			return sendMsg(leader, leaderLowest, proposalTag, ActionRedemption)
		}
		describe := func(o *c24coOutcome) map[string]interface{} {
			m := map[string]interface{}{"error": fmt.Sprint(o.err), "clock_offset": clk.Height() - c.Block}
			if o.result != nil {
				m["leader"] = nameOf(o.result.leader)
				if o.result.proposal != nil {
					m["proposal"] = fmt.Sprintf("%s#%d", o.result.proposal.ActionType(), c24Tag(o.result.proposal))
				}
				var fs []string
				for _, f := range o.result.faults {
					fs = append(fs, nameOf(f.culprit)+":"+f.faultType.String())
				}
				m["faults"] = fs
			}
			return m
		}

		if !settle() {
			return
		}
		decisive := false
		switch c.Mode {
		case "active":
			if out == nil && c.SendAt > c.Start {
				clk.Set(c.Block+c.SendAt, c.Stepwise)
				if !settle() {
					return
				}
			}
			if out != nil {
				if out.panicked {
					break
				}
				r.Violation("active:follower-gave-up-early", fmt.Sprintf("coordinate() returned at window offset %d (< 80) before the leader's proposal was due; a proposal sent during the active phase must be returned", clk.Height()-c.Block), desc, describe(out))
				decisive = true
				break
			}
			if !sendProposal() || !waitReturn("follower did not return after the leader's valid proposal") {
				return
			}
			decisive = true
			if out.panicked {
				break
			}
			if out.err != nil || out.result == nil || out.result.proposal == nil || c24Tag(out.result.proposal) != proposalTag {
				r.Violation("active:proposal-not-returned", fmt.Sprintf("the leader's valid proposal was sent at window offset %d (active phase) but coordinate() did not return it", c.SendAt), desc, describe(out))
				break
			}
			atomic.AddInt64(&nActiveReturned, 1)
			if out.result.leader != leader.address {
				r.Violation("active:wrong-leader", "result names another leader than the elected one", desc, describe(out))
			}
			bad := len(out.result.faults) != len(c.Noise)
			for k := 0; !bad && k < len(c.Noise); k++ {
				f := out.result.faults[k]
				bad = f == nil || f.faultType != FaultLeaderImpersonation || nameOf(f.culprit) != c.Noise[k]
			}
			if bad {
				r.Violation("active:faults", "faults returned with the proposal are not the impersonations (by actual sender) that preceded it", desc, describe(out))
			}

		case "passive":
			if out == nil {
				clk.Set(c.Block+c.SendAt, c.Stepwise)
				if !settle() {
					return
				}
			}
			if out == nil {
				// still listening although the active phase is over: the late
				// proposal is due now
				atomic.AddInt64(&nParkedLate, 1)
				if !sendProposal() {
					return
				}
				if !sendMsg(pool.sentinel, leaderLowest, 1000, ActionNoop) {
					return
				}
				select {
				case <-vs.seen:
				case o := <-resCh:
					out = &o
				case <-watchdog.C:
					atomic.StoreInt32(&stuck, 1)
					r.Inconclusive("watchdog: follower neither returned nor reached the sentinel: " + desc)
					return
				}
				// run the clock on until the follower gives up
				for out == nil {
					nb, ok := clk.NextWaited()
					if !ok || nb > c.Block+4000 {
						if !waitReturn("follower parked on no block and not returning") {
							return
						}
						break
					}
					clk.Set(nb, false)
					if !settle() {
						return
					}
				}
			}
			decisive = true
			if out.panicked {
				break
			}
			if out.result != nil && out.err == nil {
				if out.result.proposal != nil && c24Tag(out.result.proposal) == proposalTag {
					r.Violation("passive:late-proposal-returned", fmt.Sprintf("the leader's proposal was first sent at window offset %d, after the 80-block active phase, and coordinate() returned it", c.SendAt), desc, describe(out))
				} else {
					r.Violation("passive:result-without-proposal", "coordinate() returned a result although no valid proposal was sent in the active phase", desc, describe(out))
				}
				break
			}
			atomic.AddInt64(&nLateIgnored, 1)

		case "silence":
			for out == nil {
				nb, ok := clk.NextWaited()
				if !ok || nb > c.Block+4000 {
					if !waitReturn("follower parked on no block and not returning") {
						return
					}
					break
				}
				clk.Set(nb, c.Stepwise)
				if !settle() {
					return
				}
			}
			decisive = true
			if out.panicked {
				break
			}
			if out.result != nil && out.err == nil {
				r.Violation("silence:result", "coordinate() returned a result although the leader sent nothing", desc, describe(out))
				break
			}
			atomic.AddInt64(&nSilence, 1)
		}
		r.Case(desc, decisive)
		r.SampleAt(i, n, func() interface{} {
			return map[string]interface{}{"case": c, "outcome": describe(out)}
		})
	})
	r.Count("active_phase_proposals_returned", nActiveReturned)
	r.Count("passive_phase_proposals_not_returned", nLateIgnored)
	r.Count("silence_idle_outcomes", nSilence)
	r.Count("followers_still_listening_after_block_80", nParkedLate)
	r.Count("proposals_sent_by_real_leader_coordinate", nRealLeader)
}
