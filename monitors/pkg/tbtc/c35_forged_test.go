//go:build verif

package tbtc

// C35 (forged sender after a genuine message) — two-step histories on the REAL
// signingDoneCheck with the real group.MembershipValidator and one operator
// key / local channel handle per seat. For an included seat X:
//   (1) a GENUINE message from X's own key that must not count for the current
//       attempt (other attempt number, other message digest, end block beyond
//       the timeout), or X's genuine confirmation of an EARLIER attempt of the
//       same done check that failed;
//   (2) a confirmation for the current attempt that claims sender X and is
//       valid in every field, but is sent under another operator's network key
//       (another included seat, an excluded seat, an outsider).
// All other included members confirm genuinely; X never confirms the current
// attempt. Also the mirrored order, and a control in which X does confirm.
// Messages are delivered in send order (the local channel queues them FIFO).

import (
	"context"
	"fmt"
	"math/big"
	"sync"
	"testing"
	"time"

	"github.com/keep-network/keep-core/internal/testutils"
	"github.com/keep-network/keep-core/internal/verifkit"
	"github.com/keep-network/keep-core/pkg/chain"
	"github.com/keep-network/keep-core/pkg/chain/local_v1"
	"github.com/keep-network/keep-core/pkg/net"
	"github.com/keep-network/keep-core/pkg/net/local"
	"github.com/keep-network/keep-core/pkg/operator"
	"github.com/keep-network/keep-core/pkg/protocol/group"
	"github.com/keep-network/keep-core/pkg/tecdsa"
)

var c35fSig = &tecdsa.Signature{R: big.NewInt(5200), S: big.NewInt(5300), RecoveryID: 0}

type c35fStep struct {
	What     string `json:"what"`
	Key      int    `json:"sent_with_key_of_seat"` // 6 = outsider
	Claimed  int    `json:"claimed_sender"`
	Attempt  uint64 `json:"attempt"`
	End      uint64 `json:"end_block"`
	OtherMsg bool   `json:"other_message,omitempty"`
}

func TestVerif_C35_Forged(t *testing.T) {
	r := verifkit.Start(t, "C35", "forged")
	defer r.Finish()
	r.SetRule("5 seats with own operator keys + 1 outsider key, 3 included seats, PRNG-chosen included seat X, checking seat, forger key (other included seat / excluded seat / outsider) and kind of the genuine non-counting message (other attempt / other digest / end block beyond the timeout / X's valid confirmation of an earlier failed attempt of the same done check); orders genuine-then-forged and forged-then-genuine; every 4th case is a control in which X confirms genuinely. non-trivial = both steps were sent and the done check was observed until it reported or its context ended")
	lc := Connect()
	sg := lc.Signing()
	nCases := r.N(64, 2000)
	var mu sync.Mutex
	cnt := map[string]int64{}
	verifkit.Parallel(nCases, 16, func(ci int) {
		rng := r.SubRand("case", ci)
		name := fmt.Sprintf("c35f-%d-%d", r.Seed(), ci)
		channels := make([]net.BroadcastChannel, 6)
		operators := make(chain.Addresses, 5)
		for i := 0; i < 6; i++ {
			_, pub, err := operator.GenerateKeyPair(local_v1.DefaultCurve)
			if err != nil {
				r.Inconclusive("key generation: " + err.Error())
				return
			}
			ch, err := local.ConnectWithKey(pub).BroadcastChannelFor(name)
			if err != nil {
				r.Inconclusive("channel: " + err.Error())
				return
			}
			ch.SetUnmarshaler(func() net.TaggedUnmarshaler { return &signingDoneMessage{} })
			channels[i] = ch
			if i < 5 {
				addr, err := sg.PublicKeyToAddress(pub)
				if err != nil {
					r.Inconclusive("address: " + err.Error())
					return
				}
				operators[i] = addr
			}
		}
		perm := rng.Perm(5)
		included := []group.MemberIndex{group.MemberIndex(perm[0] + 1), group.MemberIndex(perm[1] + 1), group.MemberIndex(perm[2] + 1)}
		X := int(included[rng.Intn(3)])
		checker := 1 + rng.Intn(5)
		variant := []string{"genuine-stale-then-forged", "genuine-in-earlier-failed-attempt-then-forged", "forged-then-genuine-stale", "control-genuine"}[ci%4]
		staleKind := rng.Intn(3)
		var forger int
		switch rng.Intn(3) {
		case 0: // another included seat
			for {
				forger = int(included[rng.Intn(3)])
				if forger != X {
					break
				}
			}
		case 1: // an excluded seat
			forger = perm[3+rng.Intn(2)] + 1
		default:
			forger = 6
		}
		attempt := uint64(2 + rng.Intn(3))
		T := uint64(1000 + rng.Intn(5000))
		mb := make([]byte, 8+rng.Intn(24))
		rng.Read(mb)
		msg := new(big.Int).SetBytes(mb)
		otherMsg := new(big.Int).Add(msg, big.NewInt(77))
		forgedEnd := T - 1 // no genuine confirmation uses this end block

		validator := group.NewMembershipValidator(&testutils.MockLogger{}, operators, sg)
		sdc := newSigningDoneCheck(5, channels[checker-1], validator)
		sendCtx, cancelSend := context.WithCancel(context.Background())
		cancelSend() // one transmission, no retransmissions
		var steps []c35fStep
		send := func(what string, key, claimed int, att, end uint64, other bool) {
			m := &signingDoneMessage{senderID: group.MemberIndex(claimed), message: msg, attemptNumber: att, signature: c35fSig, endBlock: end}
			if other {
				m.message = otherMsg
			}
			if err := channels[key-1].Send(sendCtx, m); err != nil {
				panic("send: " + err.Error())
			}
			steps = append(steps, c35fStep{what, key, claimed, att, end, other})
		}
		desc := fmt.Sprintf("%s included=%v X=%d checker=%d forger-key=%d stale-kind=%d attempt=%d T=%d msg=%s", variant, included, X, checker, forger, staleKind, attempt, T, msg.Text(16))
		genuineStale := func() {
			switch staleKind {
			case 0:
				send("genuine, previous attempt", X, X, attempt-1, T-60, false)
			case 1:
				send("genuine, other message digest", X, X, attempt, T-10, true)
			default:
				send("genuine, end block beyond the timeout", X, X, attempt, T+3, false)
			}
		}
		forged := func() { send("FORGED: claims X, other operator's key", forger, X, attempt, forgedEnd, false) }

		var success bool
		var endBlock uint64
		var errText string
		earlierFailed := false
		if r.Guard("forged:", desc, func() {
			if variant == "genuine-in-earlier-failed-attempt-then-forged" {
				// an earlier attempt of the same signing: only X confirms, it fails
				ctx1, cancel1 := context.WithCancel(context.Background())
				sdc.listen(ctx1, msg, attempt-1, T-41, included)
				send("genuine, valid confirmation of the earlier attempt", X, X, attempt-1, T-50, false)
				go func() { time.Sleep(signingDoneCheckInterval + 50*time.Millisecond); cancel1() }()
				_, _, err := sdc.waitUntilAllDone(ctx1)
				cancel1()
				earlierFailed = err != nil
			}
			ctx, cancel := context.WithCancel(context.Background())
			defer cancel()
			sdc.listen(ctx, msg, attempt, T, included)
			switch variant {
			case "genuine-stale-then-forged":
				genuineStale()
				forged()
			case "genuine-in-earlier-failed-attempt-then-forged":
				forged()
			case "forged-then-genuine-stale":
				forged()
				genuineStale()
			case "control-genuine":
				genuineStale()
				send("genuine, valid", X, X, attempt, T-7, false)
			}
			for _, s := range included {
				if int(s) != X {
					send("genuine, valid", int(s), int(s), attempt, T-20-uint64(s), false)
				}
			}
			budget := 4*signingDoneCheckInterval + 50*time.Millisecond
			if variant == "control-genuine" {
				budget = 4 * time.Second
			}
			go func() { time.Sleep(budget); cancel() }()
			res, end, err := sdc.waitUntilAllDone(ctx)
			if err != nil {
				errText = err.Error()
				return
			}
			success, endBlock = res != nil, end
		}) {
			return
		}
		r.Case(desc, true)
		mu.Lock()
		cnt["cases_"+variant]++
		if variant == "genuine-in-earlier-failed-attempt-then-forged" && earlierFailed {
			cnt["earlier_attempts_failed_as_scripted"]++
		}
		if variant == "control-genuine" {
			if success {
				cnt["controls_done"]++
			} else {
				cnt["controls_not_done"]++
			}
		} else if success {
			cnt["forged_cases_reported_done"]++
		} else {
			cnt["forged_cases_not_done"]++
		}
		mu.Unlock()
		wit := map[string]interface{}{"steps": steps, "reported_done": success, "reported_end_block": endBlock, "error": errText}
		if ci < 4 {
			inc := []int{int(included[0]), int(included[1]), int(included[2])}
			r.Sample(map[string]interface{}{"variant": variant, "included": inc, "X": X, "checker": checker, "steps": steps, "reported_done": success, "error": errText})
		}
		if variant == "control-genuine" {
			if success && endBlock != T-7 {
				r.Violation("forged:control-end-block", fmt.Sprintf("all three included members confirmed genuinely (latest end block %d) but the reported end block is %d", T-7, endBlock), desc, wit)
			}
			return
		}
		if success {
			r.Violation("forged:done-without-confirmation-of-an-included-member", fmt.Sprintf("the done check reported the signature done although included member %d never confirmed this attempt: only a message sent under the key of seat %d (6 = outsider) claimed to be from it", X, forger), desc, wit)
			if endBlock == forgedEnd {
				r.Violation("forged:result-carries-forged-end-block", fmt.Sprintf("the reported latest end block %d is the end block of the forged confirmation", endBlock), desc, wit)
			}
		}
	})
	for k, v := range cnt {
		r.Count(k, v)
	}
}
