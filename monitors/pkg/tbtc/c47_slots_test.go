//go:build verif

package tbtc

import (
	"context"
	"crypto/ecdsa"
	"fmt"
	"math/big"
	"runtime"
	"sort"
	"strings"
	"sync"
	"sync/atomic"
	"testing"
	"time"

	"github.com/keep-network/keep-core/internal/testutils"
	"github.com/keep-network/keep-core/internal/verifkit"
	"github.com/keep-network/keep-core/pkg/bitcoin"
	"github.com/keep-network/keep-core/pkg/chain"
	"github.com/keep-network/keep-core/pkg/internal/tecdsatest"
	"github.com/keep-network/keep-core/pkg/protocol/group"
	"github.com/keep-network/keep-core/pkg/protocol/inactivity"
	"github.com/keep-network/keep-core/pkg/subscription"
	"github.com/keep-network/keep-core/pkg/tecdsa"
	"github.com/keep-network/keep-core/pkg/tecdsa/dkg"
)

// ---------------------------------------------------------------------------
// Group-run engine (virtual clock, one chain stub shared by all members).
// The same engine is repeated in the C47 monitors of pkg/beacon/dkg/result and
// pkg/beacon/entry (monitor files of different packages cannot share code).
// ---------------------------------------------------------------------------

type c47Call struct {
	Who     string `json:"who"`
	Block   uint64 `json:"block"`
	Start   int64  `json:"start_seq"`
	End     int64  `json:"end_seq"`
	Outcome string `json:"outcome"`
}

type c47Member struct {
	who   string
	index int
	late  bool // started only after the competing success
	// racer: started once everybody else is in place; the competing success
	// lands during its state query (right after the stub answered "not yet")
	racer bool
	run   func() error
	waits int // eligibility waits this participant registers (an operator with several seats: one per seat)
}

func (m *c47Member) need() int {
	if m.waits > 1 {
		return m.waits
	}
	return 1
}

type c47Group struct {
	clk  *verifkit.Clock
	seq  int64
	prog int64

	mu           sync.Mutex
	calls        []c47Call
	winner       int // ordinal (1-based) of the chain call that succeeds; 0 = none of them
	done         bool
	successSeq   int64
	successBlock uint64
	started      map[string]bool
	returned     map[string]bool
	retErr       map[string]string
	handlers     map[int]func(uint64)
	nextHandler  int
	hInvoked     int64
	hReturned    int64
	// gate holds back chain calls made while the members are still being
	// launched (a member whose slot is the current block submits at once)
	gate chan struct{}
	// raceWho: the participant during whose first state query the competing
	// success lands
	raceWho   string
	raceFired bool
	// external performs the outsider's success on the chain (which notifies
	// the subscribers itself)
	external func()
}

func c47NewGroup(height uint64, winner int) *c47Group {
	return &c47Group{
		clk: verifkit.NewClock(height), winner: winner,
		started: map[string]bool{}, returned: map[string]bool{}, retErr: map[string]string{},
		handlers: map[int]func(uint64){}, gate: make(chan struct{}),
	}
}

func (g *c47Group) stamp() int64 { atomic.AddInt64(&g.prog, 1); return atomic.AddInt64(&g.seq, 1) }

// beginCall records the start of a chain submission by `who` and decides its
// fate: "late" (somebody already succeeded), "win" or "fail".
func (g *c47Group) beginCall(who string) (idx int, fate string) {
	<-g.gate
	s := g.stamp()
	b := g.clk.Height()
	g.mu.Lock()
	defer g.mu.Unlock()
	g.calls = append(g.calls, c47Call{Who: who, Block: b, Start: s})
	idx = len(g.calls) - 1
	switch {
	case g.done:
		fate = "late"
	case len(g.calls) == g.winner:
		fate = "win"
		g.done, g.successSeq, g.successBlock = true, s, b
	default:
		fate = "fail"
	}
	return
}

func (g *c47Group) endCall(idx int, outcome string) {
	s := g.stamp()
	g.mu.Lock()
	g.calls[idx].End, g.calls[idx].Outcome = s, outcome
	g.mu.Unlock()
}

// raceNow is called by the chain stub inside a state query, after it has
// computed the ("not yet") answer and before it returns it. It reports
// whether the competing success must land now; the stub then performs it
// (state flip + event to whoever is subscribed at this instant) and only
// afterwards returns the stale answer to the member.
func (g *c47Group) raceNow(who string) bool {
	g.mu.Lock()
	defer g.mu.Unlock()
	if g.raceWho == "" || g.raceWho != who || g.raceFired || g.done {
		return false
	}
	g.raceFired = true
	return true
}

func (g *c47Group) isDone() bool { g.mu.Lock(); defer g.mu.Unlock(); return g.done }

func (g *c47Group) subscribe(fn func(uint64)) subscription.EventSubscription {
	g.mu.Lock()
	id := g.nextHandler
	g.nextHandler++
	g.handlers[id] = fn
	g.mu.Unlock()
	return subscription.NewEventSubscription(func() {
		g.mu.Lock()
		delete(g.handlers, id)
		g.mu.Unlock()
	})
}

// emit delivers the success event to every current subscriber, each on its
// own goroutine (as the local chains of keep-core do).
func (g *c47Group) emit(block uint64) {
	g.mu.Lock()
	var hs []func(uint64)
	for _, h := range g.handlers {
		hs = append(hs, h)
	}
	g.mu.Unlock()
	for _, h := range hs {
		atomic.AddInt64(&g.hInvoked, 1)
		go func(h func(uint64)) {
			h(block)
			atomic.AddInt64(&g.hReturned, 1)
			atomic.AddInt64(&g.prog, 1)
		}(h)
	}
}

// externalSuccess: somebody outside the observed members succeeded.
func (g *c47Group) externalSuccess() {
	s := g.stamp()
	b := g.clk.Height()
	g.mu.Lock()
	g.done, g.successSeq, g.successBlock = true, s, b
	g.mu.Unlock()
	if g.external != nil {
		g.external()
		return
	}
	g.emit(b)
}

func (g *c47Group) launch(r *verifkit.Run, desc string, m *c47Member) {
	g.mu.Lock()
	g.started[m.who] = true
	g.mu.Unlock()
	go func() {
		var err error
		r.Guard("tbtc-submit:", desc, func() { err = m.run() })
		g.mu.Lock()
		g.returned[m.who] = true
		if err != nil {
			g.retErr[m.who] = err.Error()
		}
		g.mu.Unlock()
		atomic.AddInt64(&g.prog, 1)
	}()
}

func (g *c47Group) isReturned(who string) bool { g.mu.Lock(); defer g.mu.Unlock(); return g.returned[who] }

func (g *c47Group) finishedCalls(who string) int {
	g.mu.Lock()
	defer g.mu.Unlock()
	n := 0
	for _, c := range g.calls {
		if c.Who == who && c.End != 0 {
			n++
		}
	}
	return n
}

// waits returns, per owner, the blocks it registered a waiter for.
func (g *c47Group) waits() map[string][]uint64 {
	out := map[string][]uint64{}
	for _, w := range g.clk.WaitLog() {
		out[w.Owner] = append(out[w.Owner], w.Block)
	}
	return out
}

var c47Impatient int32

// await polls cond. It gives up only after a long run of polls during which
// the group made no progress at all (counted in polls, not in seconds, so a
// stalled machine does not shorten it).
func (g *c47Group) await(cond func() bool) bool {
	limit := 8000
	if atomic.LoadInt32(&c47Impatient) != 0 {
		limit = 150
	}
	last, idle := atomic.LoadInt64(&g.prog), 0
	for spins := 0; ; spins++ {
		if cond() {
			return true
		}
		if spins < 200 {
			runtime.Gosched()
			continue
		}
		d := spins - 200
		if d > 4000 {
			d = 4000
		}
		time.Sleep(time.Duration(20+d) * time.Microsecond)
		if p := atomic.LoadInt64(&g.prog); p != last {
			last, idle = p, 0
		} else if idle++; idle > limit {
			return false
		}
	}
}

// drive runs the members to completion on the virtual clock: it moves the
// clock from one waited block to the next and, at each, waits until the
// released members have finished a chain call or returned. It returns false
// when some wait had to be abandoned (nothing is decided then, except for
// chain calls that were nevertheless observed after the success).
func (g *c47Group) drive(r *verifkit.Run, desc string, members []*c47Member, extBlock uint64, memberOf func(owner string) string) (conclusive bool) {
	conclusive = true
	var late, racers []*c47Member
	for _, m := range members {
		if m.late {
			late = append(late, m)
		} else if m.racer {
			racers = append(racers, m)
		} else {
			g.launch(r, desc, m)
		}
	}
	if !g.await(func() bool {
		ws := g.waits()
		for _, m := range members {
			if !m.late && !m.racer && len(ws[m.who]) < m.need() && !g.isReturned(m.who) {
				return false
			}
		}
		return true
	}) {
		r.Inconclusive("members did not reach their eligibility wait")
		return false
	}
	// everybody is in place: let the submissions due at the launch block through
	{
		rel := map[string]int{}
		for owner, blocks := range g.waits() {
			for _, b := range blocks {
				if b <= g.clk.Height() {
					rel[memberOf(owner)] = 0
				}
			}
		}
		close(g.gate)
		if !g.await(func() bool {
			for who := range rel {
				if g.finishedCalls(who) == 0 && !g.isReturned(who) {
					return false
				}
			}
			return true
		}) {
			r.Inconclusive("members eligible at the launch block neither submitted nor returned")
			return false
		}
	}
	// the racers join now, at the same block: the success lands inside
	// their state query
	for _, m := range racers {
		g.launch(r, desc, m)
	}
	if len(racers) > 0 && !g.await(func() bool {
		ws := g.waits()
		for _, m := range racers {
			if len(ws[m.who]) < m.need() && !g.isReturned(m.who) {
				return false
			}
		}
		return true
	}) {
		r.Inconclusive("the racing member neither reached its eligibility wait nor returned")
		return false
	}
	post := false
	for {
		if g.isDone() && !post {
			post = true
			if !g.await(func() bool {
				g.mu.Lock()
				defer g.mu.Unlock()
				for who := range g.started {
					if !g.returned[who] {
						return false
					}
				}
				return true
			}) {
				conclusive = false
				atomic.StoreInt32(&c47Impatient, 1)
				r.Inconclusive("after the success event was emitted some members neither left nor made progress")
			}
			for _, m := range late {
				g.launch(r, desc, m)
			}
			if !g.await(func() bool {
				ws := g.waits()
				for _, m := range late {
					if len(ws[m.who]) < m.need() && !g.isReturned(m.who) {
						return false
					}
				}
				return true
			}) {
				conclusive = false
			}
		}
		nb, any := g.clk.NextWaited()
		if extBlock != 0 && !g.isDone() && (!any || nb > extBlock) {
			if g.clk.Height() < extBlock {
				g.clk.Set(extBlock, false)
			}
			g.externalSuccess()
			continue
		}
		if !any {
			break
		}
		// owners released by moving to nb
		rel := map[string]int{}
		for owner, blocks := range g.waits() {
			for _, b := range blocks {
				if b > g.clk.Height() && b <= nb {
					rel[memberOf(owner)] = g.finishedCalls(memberOf(owner))
				}
			}
		}
		g.clk.Set(nb, false)
		if !g.await(func() bool {
			for who, before := range rel {
				if g.finishedCalls(who) <= before && !g.isReturned(who) {
					return false
				}
			}
			return true
		}) {
			r.Inconclusive(fmt.Sprintf("members released at block %d neither submitted nor returned", nb))
			return false
		}
	}
	if !g.await(func() bool {
		g.mu.Lock()
		defer g.mu.Unlock()
		for who := range g.started {
			if !g.returned[who] {
				return false
			}
		}
		return true
	}) {
		conclusive = false
		r.Inconclusive("some members never returned although no block wait is pending")
	}
	return conclusive
}

// ---------------------------------------------------------------------------
// Chain stub: the package's localChain shared by the whole group; every
// participant talks to it through its own wrapper (own block counter view,
// attributed and scripted submissions).
// ---------------------------------------------------------------------------

type c47Chain struct {
	*localChain

	g    *c47Group
	who  string
	view *verifkit.View

	dkgParams *DKGParameters

	subMu      sync.Mutex
	subCond    *sync.Cond
	subscribed int
	active     int
}

func c47Wrap(lc *localChain, g *c47Group, who string) *c47Chain {
	c := &c47Chain{localChain: lc, g: g, who: who, view: g.clk.View(who)}
	c.subCond = sync.NewCond(&c.subMu)
	return c
}

func (c *c47Chain) BlockCounter() (chain.BlockCounter, error) { return c.view, nil }

func (c *c47Chain) scripted(kind string, real func() error) error {
	idx, fate := c.g.beginCall(c.who)
	switch fate {
	case "win":
		err := real()
		if err != nil {
			c.g.endCall(idx, "succeeded?: chain stub refused: "+err.Error())
			return err
		}
		c.g.endCall(idx, "succeeded")
		return nil
	case "late":
		c.g.endCall(idx, "rejected: already done")
		return fmt.Errorf("c47: %s already done", kind)
	}
	c.g.endCall(idx, "failed")
	return fmt.Errorf("c47: transaction reverted")
}

func (c *c47Chain) SubmitDKGResult(dkgResult *DKGChainResult) error {
	return c.scripted("dkg result", func() error { return c.localChain.SubmitDKGResult(dkgResult) })
}

func (c *c47Chain) ApproveDKGResult(dkgResult *DKGChainResult) error {
	return c.scripted("dkg result approval", func() error { return c.localChain.ApproveDKGResult(dkgResult) })
}

func (c *c47Chain) SubmitInactivityClaim(claim *InactivityClaim, nonce *big.Int, groupMembers []uint32) error {
	return c.scripted("inactivity claim", func() error { return c.localChain.SubmitInactivityClaim(claim, nonce, groupMembers) })
}

// GetDKGState / GetInactivityClaimNonce: the state queries the submitters
// make before waiting for their slot. For the racing member the competing
// success lands after the ("not yet") answer was read from the chain and
// before it is handed to the member.
func (c *c47Chain) GetDKGState() (DKGState, error) {
	st, err := c.localChain.GetDKGState()
	if err == nil && st == AwaitingResult && c.g.raceNow(c.who) {
		c.g.externalSuccess()
	}
	return st, err
}

func (c *c47Chain) GetInactivityClaimNonce(walletID [32]byte) (*big.Int, error) {
	n, err := c.localChain.GetInactivityClaimNonce(walletID)
	if err == nil && c.g.raceNow(c.who) {
		c.g.externalSuccess()
	}
	return n, err
}

func (c *c47Chain) DKGParameters() (*DKGParameters, error) {
	if c.dkgParams != nil {
		return c.dkgParams, nil
	}
	return c.localChain.DKGParameters()
}

// OnDKGResultApproved counts the approval goroutines of this participant
// (each subscribes on entry and unsubscribes when it ends).
func (c *c47Chain) OnDKGResultApproved(handler func(event *DKGResultApprovedEvent)) subscription.EventSubscription {
	inner := c.localChain.OnDKGResultApproved(handler)
	c.subMu.Lock()
	c.subscribed++
	c.active++
	c.subMu.Unlock()
	return subscription.NewEventSubscription(func() {
		inner.Unsubscribe()
		c.subMu.Lock()
		c.active--
		c.subCond.Broadcast()
		c.subMu.Unlock()
	})
}

var c47FixtureOnce sync.Once
var c47Share *tecdsa.PrivateKeyShare

func c47Fixture(t *testing.T) *tecdsa.PrivateKeyShare {
	c47FixtureOnce.Do(func() {
		testData, err := tecdsatest.LoadPrivateKeyShareTestFixtures(1)
		if err != nil {
			t.Fatalf("cannot load the key share fixture: %v", err)
		}
		c47Share = tecdsa.NewPrivateKeyShare(testData[0])
	})
	return c47Share
}

type c47Script struct {
	Kind       string `json:"kind"`
	N          int    `json:"group_size"`
	Height     uint64 `json:"clock_at_launch"`
	Winner     int    `json:"winning_call"` // k-th chain call succeeds (0: none)
	ExtAt      uint64 `json:"external_at"`  // block at which an outsider succeeds (0: never)
	Late       []int  `json:"late_members,omitempty"`
	Racer      int    `json:"racing_member,omitempty"` // the success lands during this member's state query
	Variant    string `json:"variant"`
	// approvals only
	Submission uint64 `json:"submission_block,omitempty"`
	Challenge  uint64 `json:"challenge_period,omitempty"`
	Precedence uint64 `json:"approve_precedence_period,omitempty"`
	Submitter  int    `json:"submitter_member,omitempty"`
	Seats      []int  `json:"seat_operator,omitempty"` // operator (0-based) of each seat
}

func c47Owner(i int) string { return fmt.Sprintf("m%d", i) }

// c47Judge is the part of the oracle shared by the three submission kinds.
// slots: participant -> waited blocks; expected: participant -> documented
// slots (nil: no documented schedule).
func c47Judge(r *verifkit.Run, kind, desc string, g *c47Group, reference uint64, parts []*c47Member, expected map[string][]uint64, conclusive bool) {
	raced := g.raceWho != ""
	ws := g.waits()
	g.mu.Lock()
	calls := append([]c47Call(nil), g.calls...)
	done, successSeq, successBlock := g.done, g.successSeq, g.successBlock
	g.mu.Unlock()
	r.Case(desc, done)
	r.Count("chain_calls", int64(len(calls)))
	g.mu.Lock()
	if g.raceFired {
		r.Count("success_landed_during_state_check", 1)
	}
	g.mu.Unlock()

	slots := map[string][]uint64{}
	owners := map[uint64][]string{}
	for _, m := range parts {
		bl := append([]uint64(nil), ws[m.who]...)
		sort.Slice(bl, func(a, b int) bool { return bl[a] < bl[b] })
		if m.late {
			continue
		}
		if m.racer && len(bl) == 0 {
			continue // it may leave without ever waiting
		}
		if len(bl) != m.need() {
			r.Violation(kind+":no-single-slot", fmt.Sprintf("%s registered %d eligibility waits (expected %d)", m.who, len(bl), m.need()), desc, bl)
			continue
		}
		r.Count("slots_observed", int64(len(bl)))
		slots[m.who] = bl
		for _, b := range bl {
			owners[b] = append(owners[b], m.who)
			if b < reference {
				r.Violation(kind+":slot-before-reference", fmt.Sprintf("%s waits for block %d before the reference block %d", m.who, b, reference), desc, nil)
			}
		}
		if want, ok := expected[m.who]; ok {
			w := append([]uint64(nil), want...)
			sort.Slice(w, func(a, b int) bool { return w[a] < w[b] })
			if fmt.Sprint(w) != fmt.Sprint(bl) {
				r.Violation(kind+":slot-formula", fmt.Sprintf("%s waits for blocks %v, the documented schedule gives %v", m.who, bl, w), desc, nil)
			}
		}
	}
	for b, who := range owners {
		if len(who) > 1 {
			sort.Strings(who)
			r.Violation(kind+":shared-slot", fmt.Sprintf("%v share slot %d", who, b), desc, nil)
		}
	}
	callBlocks := map[string][]uint64{}
	for _, c := range calls {
		if done && c.Start > successSeq && c.Outcome != "succeeded" {
			fp := kind + ":submit-after-success"
			if raced {
				fp += ":landed-during-state-check"
			}
			r.Violation(fp, fmt.Sprintf("%s started a submission at block %d after the competing success at block %d", c.Who, c.Block, successBlock), desc, calls)
			continue
		}
		if strings.HasPrefix(c.Outcome, "succeeded?") {
			r.Inconclusive("the chain stub refused the scripted winner: " + c.Outcome)
		}
		callBlocks[c.Who] = append(callBlocks[c.Who], c.Block)
	}
	for who, cb := range callBlocks {
		sort.Slice(cb, func(a, b int) bool { return cb[a] < cb[b] })
		sl := slots[who]
		if len(cb) > len(sl) {
			r.Violation(kind+":more-submissions-than-slots", fmt.Sprintf("%s submitted %d times with %d slots", who, len(cb), len(sl)), desc, nil)
			continue
		}
		for j, b := range cb {
			if b < sl[j] {
				r.Violation(kind+":submit-before-slot", fmt.Sprintf("%s submitted at block %d, its slot is %d", who, b, sl[j]), desc, nil)
			}
		}
	}
	if conclusive {
		for _, m := range parts {
			if m.racer {
				continue
			}
			due := 0
			for _, b := range slots[m.who] {
				if !done || b <= successBlock {
					due++
				}
			}
			if len(callBlocks[m.who]) < due {
				g.mu.Lock()
				e := g.retErr[m.who]
				g.mu.Unlock()
				r.Violation(kind+":eligible-member-did-not-submit", fmt.Sprintf("%s has %d slots not after the success but submitted %d times (returned: %q)", m.who, due, len(callBlocks[m.who]), e), desc, nil)
			}
		}
	}
	if len(parts) <= 5 {
		var cs []string
		for _, c := range calls {
			cs = append(cs, fmt.Sprintf("%s@%d:%s", c.Who, c.Block, strings.SplitN(c.Outcome, ":", 2)[0]))
		}
		r.Sample(map[string]interface{}{"script": desc, "calls": cs, "slots": slots})
	}
}

func c47Operators(lc *localChain, n int) (chain.OperatorIDs, chain.Addresses, error) {
	addr, err := lc.operatorAddress()
	if err != nil {
		return nil, nil, err
	}
	id, err := lc.GetOperatorID(addr)
	if err != nil {
		return nil, nil, err
	}
	var ids chain.OperatorIDs
	var addrs chain.Addresses
	for i := 0; i < n; i++ {
		ids = append(ids, id)
		addrs = append(addrs, addr)
	}
	return ids, addrs, nil
}

// ---------------------------------------------------------------------------
// tECDSA DKG result submission
// ---------------------------------------------------------------------------

func c47RunDkgSubmit(r *verifkit.Run, share *tecdsa.PrivateKeyShare, sc c47Script) {
	desc := "tbtc-dkg-result " + verifkit.JSON(sc)
	g := c47NewGroup(sc.Height, sc.Winner)
	lc := Connect()
	if err := lc.startDKG(); err != nil {
		r.Inconclusive(err.Error())
		return
	}
	_ = lc.setDKGResultValidity(true)
	ids, addrs, err := c47Operators(lc, sc.N)
	if err != nil {
		r.Inconclusive(err.Error())
		return
	}
	gp := &GroupParameters{GroupSize: sc.N, GroupQuorum: sc.N - sc.N/10, HonestThreshold: sc.N/2 + 1}
	gsr := &GroupSelectionResult{OperatorsIDs: ids, OperatorsAddresses: addrs}
	result := &dkg.Result{Group: group.NewGroup(gp.DishonestThreshold(), sc.N), PrivateKeyShare: share}
	signatures := map[group.MemberIndex][]byte{}
	for i := 1; i <= sc.N; i++ {
		signatures[group.MemberIndex(i)] = []byte{byte(i)}
	}
	g.external = func() {
		if err := lc.SubmitDKGResult(&DKGChainResult{SubmitterMemberIndex: 0, GroupPublicKey: []byte{9}}); err != nil {
			r.Inconclusive("external submission refused: " + err.Error())
		}
	}
	lateSet := map[int]bool{}
	for _, i := range sc.Late {
		lateSet[i] = true
	}
	if sc.Racer != 0 {
		g.raceWho = c47Owner(sc.Racer)
	}
	var members []*c47Member
	expected := map[string][]uint64{}
	for i := 1; i <= sc.N; i++ {
		i := i
		who := c47Owner(i)
		mc := c47Wrap(lc, g, who)
		submitter := newDkgResultSubmitter(&testutils.MockLogger{}, mc, gp, gsr, (&node{chain: mc}).waitForBlockHeight)
		if !lateSet[i] {
			expected[who] = []uint64{sc.Height + uint64(i-1)*dkgResultSubmissionDelayStepBlocks}
		}
		members = append(members, &c47Member{who: who, index: i, late: lateSet[i], racer: i == sc.Racer, run: func() error {
			// upstream wiring (dkg.go generateSigningGroup): the attempt
			// context is cancelled by the result-submitted event
			ctx, cancel := context.WithCancel(context.Background())
			defer cancel()
			sub := mc.OnDKGResultSubmitted(func(event *DKGResultSubmittedEvent) { cancel() })
			defer sub.Unsubscribe()
			return submitter.SubmitResult(ctx, group.MemberIndex(i), result, signatures)
		}})
	}
	conclusive := g.drive(r, desc, members, sc.ExtAt, func(o string) string { return o })
	c47Judge(r, "tbtc-dkg-result", desc, g, sc.Height, members, expected, conclusive)
}

// ---------------------------------------------------------------------------
// Inactivity claim submission
// ---------------------------------------------------------------------------

func c47RunInactivity(r *verifkit.Run, share *tecdsa.PrivateKeyShare, sc c47Script) {
	desc := "tbtc-inactivity-claim " + verifkit.JSON(sc)
	g := c47NewGroup(sc.Height, sc.Winner)
	lc := Connect()
	publicKey := share.PublicKey()
	walletID := [32]byte{1, 2, 3}
	lc.setWallet(bitcoin.PublicKeyHash(publicKey), &WalletChainData{EcdsaWalletID: walletID})
	gp := &GroupParameters{GroupSize: sc.N, GroupQuorum: sc.N - sc.N/10, HonestThreshold: sc.N/2 + 1}
	groupMembers := make([]uint32, sc.N)
	for i := range groupMembers {
		groupMembers[i] = uint32(i + 1)
	}
	claim := inactivity.NewClaimPreimage(big.NewInt(0), publicKey, []group.MemberIndex{2}, true)
	signatures := map[group.MemberIndex][]byte{}
	for i := 1; i <= sc.N; i++ {
		signatures[group.MemberIndex(i)] = []byte{byte(i)}
	}
	g.external = func() {
		if err := lc.SubmitInactivityClaim(&InactivityClaim{WalletID: walletID}, big.NewInt(0), groupMembers); err != nil {
			r.Inconclusive("external claim refused: " + err.Error())
		}
	}
	lateSet := map[int]bool{}
	for _, i := range sc.Late {
		lateSet[i] = true
	}
	if sc.Racer != 0 {
		g.raceWho = c47Owner(sc.Racer)
	}
	var members []*c47Member
	expected := map[string][]uint64{}
	for i := 1; i <= sc.N; i++ {
		i := i
		who := c47Owner(i)
		mc := c47Wrap(lc, g, who)
		submitter := newInactivityClaimSubmitter(&testutils.MockLogger{}, mc, gp, groupMembers, (&node{chain: mc}).waitForBlockHeight)
		if !lateSet[i] {
			expected[who] = []uint64{sc.Height + uint64(i-1)*inactivityClaimSubmissionDelayStepBlocks}
		}
		members = append(members, &c47Member{who: who, index: i, late: lateSet[i], racer: i == sc.Racer, run: func() error {
			// upstream wiring (inactivity.go claimInactivity)
			ctx, cancel := context.WithCancel(context.Background())
			defer cancel()
			sub := mc.OnInactivityClaimed(func(event *InactivityClaimedEvent) { cancel() })
			defer sub.Unsubscribe()
			return submitter.SubmitClaim(ctx, group.MemberIndex(i), claim, signatures)
		}})
	}
	conclusive := g.drive(r, desc, members, sc.ExtAt, func(o string) string { return o })
	c47Judge(r, "tbtc-inactivity-claim", desc, g, sc.Height, members, expected, conclusive)
}

// ---------------------------------------------------------------------------
// DKG result approval (executeDkgValidation)
// ---------------------------------------------------------------------------

func c47RunApproval(r *verifkit.Run, publicKey *ecdsa.PublicKey, sc c47Script) {
	desc := "tbtc-dkg-approval " + verifkit.JSON(sc)
	g := c47NewGroup(sc.Height, sc.Winner)
	lc := Connect()
	membersIDs := make(chain.OperatorIDs, sc.N)
	nOps := 0
	for seat, op := range sc.Seats {
		membersIDs[seat] = chain.OperatorID(100 + op)
		if op+1 > nOps {
			nOps = op + 1
		}
	}
	result := &DKGChainResult{
		SubmitterMemberIndex: group.MemberIndex(sc.Submitter),
		GroupPublicKey:       []byte{4, 5, 6},
		Members:              membersIDs,
	}
	lc.dkgMutex.Lock()
	lc.dkgState, lc.dkgResult, lc.dkgResultValid = Challenge, result, true
	lc.dkgMutex.Unlock()
	params := &DKGParameters{SubmissionTimeoutBlocks: 100, ChallengePeriodBlocks: sc.Challenge, ApprovePrecedencePeriodBlocks: sc.Precedence}
	g.external = func() {
		if err := lc.ApproveDKGResult(result); err != nil {
			r.Inconclusive("external approval refused: " + err.Error())
		}
	}
	precedenceStart := sc.Submission + sc.Challenge + 1
	var parts []*c47Member
	expected := map[string][]uint64{}
	for op := 0; op < nOps; op++ {
		op := op
		who := fmt.Sprintf("op%d", op)
		seats := 0
		for seat, o := range sc.Seats {
			if o != op {
				continue
			}
			seats++
			idx := seat + 1
			if idx == sc.Submitter {
				expected[who] = append(expected[who], precedenceStart)
			} else {
				expected[who] = append(expected[who], precedenceStart+sc.Precedence+uint64(idx-1)*dkgResultApprovalDelayStepBlocks)
			}
		}
		if seats == 0 {
			continue
		}
		mc := c47Wrap(lc, g, who)
		mc.dkgParams = params
		de := &dkgExecutor{
			chain:          mc,
			operatorIDFn:   func() (chain.OperatorID, error) { return chain.OperatorID(100 + op), nil },
			waitForBlockFn: (&node{chain: mc}).waitForBlockHeight,
		}
		nSeats := seats
		parts = append(parts, &c47Member{who: who, index: op, waits: nSeats, run: func() error {
			de.executeDkgValidation(big.NewInt(1), sc.Submission, result, [32]byte{1})
			// the approval goroutines end by unsubscribing
			mc.subMu.Lock()
			for !(mc.subscribed >= nSeats && mc.active == 0) {
				mc.subCond.Wait()
			}
			mc.subMu.Unlock()
			return nil
		}})
	}
	conclusive := g.drive(r, desc, parts, sc.ExtAt, func(o string) string { return o })
	c47Judge(r, "tbtc-dkg-approval", desc, g, sc.Submission, parts, expected, conclusive)
}

// ---------------------------------------------------------------------------

func c47Scripts(r *verifkit.Run, kind string, maxN, nRandom int, step uint64) []c47Script {
	rng := r.Rand("scripts-" + kind)
	var scripts []c47Script
	add := func(n int, variant string) {
		sc := c47Script{Kind: kind, N: n, Variant: variant}
		sc.Height = uint64(10 + rng.Intn(100000))
		if variant != "nobody" && rng.Intn(2) == 0 && kind != "approval" {
			seen := map[int]bool{}
			for k := rng.Intn(3) + 1; k > 0; k-- {
				if m := 1 + rng.Intn(n); !seen[m] && len(sc.Late) < n-2 {
					seen[m] = true
					sc.Late = append(sc.Late, m)
				}
			}
			sort.Ints(sc.Late)
		}
		early := n - len(sc.Late)
		span := uint64(n) * step
		first := sc.Height
		if kind == "approval" {
			sc.Submission = sc.Height + uint64(rng.Intn(5))
			sc.Challenge = uint64(1 + rng.Intn(20))
			sc.Precedence = uint64(1 + rng.Intn(10))
			sc.Submitter = 1 + rng.Intn(n)
			nOps := 1 + rng.Intn(n)
			if rng.Intn(2) == 0 {
				nOps = n // one seat per operator
			}
			sc.Seats = make([]int, n)
			perm := rng.Perm(n)
			for k, seat := range perm {
				if k < nOps {
					sc.Seats[seat] = k // every operator gets at least one seat
				} else {
					sc.Seats[seat] = rng.Intn(nOps)
				}
			}
			first = sc.Submission + sc.Challenge + 1
			span += sc.Precedence
		}
		switch variant {
		case "race-state":
			for sc.Racer == 0 || func() bool {
				for _, l := range sc.Late {
					if l == sc.Racer {
						return true
					}
				}
				return false
			}() {
				sc.Racer = 1 + rng.Intn(n)
			}
		case "winner":
			sc.Winner = []int{1, 2, early, 1 + rng.Intn(early), 1 + rng.Intn(early)}[rng.Intn(5)]
		case "external":
			sc.ExtAt = first + uint64(rng.Intn(int(span)+2))
		}
		scripts = append(scripts, sc)
	}
	for n := 3; n <= maxN; n += 1 + n/20 {
		add(n, []string{"nobody", "winner", "external"}[n%3])
	}
	add(maxN, "nobody")
	add(maxN, "winner")
	variants := []string{"nobody", "winner", "winner", "external"}
	if kind != "approval" {
		// approvals have no "already approved?" state query, only the event
		variants = append(variants, "race-state")
		for n := 3; n <= maxN; n += 7 {
			add(n, "race-state")
		}
		scripts[len(scripts)-1].Racer = 1 // the immediately eligible member as the racer
	}
	for i := nRandom; i > 0; i-- {
		add(3+rng.Intn(maxN-2), variants[rng.Intn(len(variants))])
	}
	return scripts
}

func TestVerif_C47_TbtcDkgResult(t *testing.T) {
	r := verifkit.Start(t, "C47", "tbtc-dkg-result")
	defer r.Finish()
	share := c47Fixture(t)
	r.SetRule("group runs of dkgResultSubmitter.SubmitResult wired as generateSigningGroup wires it (context cancelled by the result-submitted event): all members 1..N, N in 3..100, concurrently on one virtual clock and the package's localChain; variants: nobody succeeds, the k-th submission succeeds, an outsider succeeds at a PRNG block, members joining after the success, and race-state: one member (PRNG, also the immediately eligible member 1) joins last and the competing submission (state flip + event to the subscribers of that instant) lands inside its GetDKGState query right after AwaitingResult was read. non-trivial = a competing success happened in the run")
	r.Assume("all members read the same current block as their reference (the clock does not move while they start); losing submissions fail with an error")
	scripts := c47Scripts(r, "dkg-result", 100, r.N(60, 2500), dkgResultSubmissionDelayStepBlocks)
	verifkit.Parallel(len(scripts), 0, func(i int) { c47RunDkgSubmit(r, share, scripts[i]) })
}

func TestVerif_C47_TbtcInactivityClaim(t *testing.T) {
	r := verifkit.Start(t, "C47", "tbtc-inactivity-claim")
	defer r.Finish()
	share := c47Fixture(t)
	r.SetRule("group runs of inactivityClaimSubmitter.SubmitClaim wired as claimInactivity wires it (context cancelled by the inactivity-claimed event): all members 1..N, N in 3..100, one virtual clock, the package's localChain; variants as for the DKG result (race-state: the competing claim lands inside the GetInactivityClaimNonce query). non-trivial = a competing success happened in the run")
	r.Assume("all members read the same current block as their reference; losing submissions fail with an error")
	scripts := c47Scripts(r, "inactivity", 100, r.N(60, 2500), inactivityClaimSubmissionDelayStepBlocks)
	verifkit.Parallel(len(scripts), 0, func(i int) { c47RunInactivity(r, share, scripts[i]) })
}

func TestVerif_C47_TbtcDkgApproval(t *testing.T) {
	r := verifkit.Start(t, "C47", "tbtc-dkg-approval")
	defer r.Finish()
	share := c47Fixture(t)
	r.SetRule("group runs of dkgExecutor.executeDkgValidation on a valid submitted result: one executor per operator, PRNG seat-to-operator assignment (one seat each, or several seats per operator), N in 3..100, PRNG submitter, challenge period 1..20, approve precedence period 1..10; variants: no approval succeeds, the k-th approval succeeds, an outsider approves at a PRNG block. non-trivial = a competing approval happened in the run")
	r.Assume("ApprovePrecedencePeriodBlocks > 0 (with 0 the contract gives the submitter no precedence and member 1 shares the submitter's block)")
	scripts := c47Scripts(r, "approval", 100, r.N(60, 2500), dkgResultApprovalDelayStepBlocks)
	verifkit.Parallel(len(scripts), 0, func(i int) { c47RunApproval(r, share.PublicKey(), scripts[i]) })
}
