//go:build verif

package tbtc

import (
	"bytes"
	"context"
	"fmt"
	"math/rand"
	"runtime"
	"sort"
	"sync"
	"sync/atomic"
	"testing"
	"time"

	"github.com/keep-network/keep-core/internal/verifkit"
)

const c23Freq = 900 // the statement's "window frequency" (coordinationFrequencyBlocks)

// c23Stream generates a block stream of at most 60 entries. Three shapes:
// "walk" (a block counter moving around window boundaries with repeats,
// skipped blocks and reorg-like steps back, each value's repeats contiguous),
// "alphabet" (independent draws from a small alphabet, so occurrences are
// scattered) and "windows" (only window starts, shuffled locally).
func c23Stream(rng *rand.Rand) (shape string, out []uint64) {
	maxLen := 2 + rng.Intn(59)
	top := (^uint64(0) / c23Freq) * c23Freq
	switch rng.Intn(5) {
	case 0:
		shape = "alphabet"
		alpha := []uint64{0, 1, 899, 900, 901, 1799, 1800, 1801, 2700, 3600, 4500, 450, 1350, top, top - c23Freq, top + 1, ^uint64(0)}
		k := 3 + rng.Intn(len(alpha)-2)
		rng.Shuffle(len(alpha), func(a, b int) { alpha[a], alpha[b] = alpha[b], alpha[a] })
		alpha = alpha[:k]
		for len(out) < maxLen {
			out = append(out, alpha[rng.Intn(k)])
		}
	case 1:
		shape = "windows"
		w := uint64(rng.Intn(3)) * c23Freq
		for len(out) < maxLen {
			out = append(out, w)
			switch rng.Intn(6) {
			case 0: // repeat
			case 1: // step back
				if d := uint64(1+rng.Intn(3)) * c23Freq; w >= d {
					w -= d
				}
			case 2:
				w += uint64(2+rng.Intn(3)) * c23Freq
			default:
				w += c23Freq
			}
		}
	default:
		shape = "walk"
		base := uint64(rng.Intn(4)) * c23Freq
		if rng.Intn(8) == 0 {
			base = top - uint64(rng.Intn(3))*c23Freq
		}
		cur := base
		if base >= 3 && rng.Intn(2) == 0 {
			cur = base - uint64(1+rng.Intn(3))
		}
		for len(out) < maxLen {
			rep := 1
			if rng.Intn(4) == 0 {
				rep += rng.Intn(3)
			}
			for j := 0; j < rep && len(out) < maxLen; j++ {
				out = append(out, cur)
			}
			switch x := rng.Intn(20); {
			case x < 9: // next block
				cur++
			case x < 11: // skip a block or two
				cur += uint64(2 + rng.Intn(2))
			case x < 14: // jump to just before / onto / just past the next window start
				next := (cur/c23Freq + 1) * c23Freq
				if next < cur { // overflow near the top
					next = cur
				}
				cur = next - 1 + uint64(rng.Intn(3))
			case x < 15: // jump several windows ahead
				next := (cur/c23Freq + uint64(2+rng.Intn(3))) * c23Freq
				if next > cur {
					cur = next
				}
			case x < 18: // small reorg
				if d := uint64(1 + rng.Intn(3)); cur >= d {
					cur -= d
				}
			default: // deep regression to an earlier window start
				if d := uint64(1+rng.Intn(2)) * c23Freq; cur >= d {
					cur = (cur - d) / c23Freq * c23Freq
				} else {
					cur = 0
				}
			}
		}
	}
	return shape, out
}

var c23CreatedBy = []byte("created by github.com/keep-network/keep-core/pkg/tbtc.watchCoordinationWindows")

// c23CallbacksPending reports whether any goroutine spawned by
// watchCoordinationWindows (i.e. a callback) still exists in the process.
func c23CallbacksPending(buf *[]byte) bool {
	for {
		n := runtime.Stack(*buf, true)
		if n < len(*buf) {
			return bytes.Contains((*buf)[:n], c23CreatedBy)
		}
		*buf = make([]byte, 2*len(*buf))
	}
}

type c23Trigger struct {
	Window uint64 `json:"window"`
	// Begun is the number of feed positions whose send had begun when the
	// callback ran: the decision that spawned it was taken at a position < Begun.
	Begun int64 `json:"sends_begun"`
}

// c23Greedy is the trigger list of a watcher that starts every window it is
// allowed to start (used for reporting only, never for the verdict).
func c23Greedy(delivered []uint64) []uint64 {
	var out []uint64
	var last uint64
	for _, b := range delivered {
		if b%c23Freq == 0 && b > 0 && b > last {
			out = append(out, b)
			last = b
		}
	}
	return out
}

func TestVerif_C23_Windows(t *testing.T) {
	r := verifkit.Start(t, "C23", "windows")
	defer r.Finish()
	r.SetRule("block streams of 2-60 entries (walks around window starts with contiguous repeats, skipped blocks, reorg steps and deep regressions; scattered draws from {0,1,899,900,901,...,top multiple of 900, 2^64-1}; window-start-only sequences), fed through an unbuffered channel to the real watchCoordinationWindows; in a third of the cases the context is cancelled at a PRNG position and the remaining blocks are still offered. non-trivial = the delivered stream has a duplicate, a skipped window start or a regression, and at least one window was triggered")
	r.Assume("callbacks are go-spawned: their execution order is not the watcher's decision order; only feed positions and the number of sends begun when a callback runs are used")

	n := r.N(5000, 300000)
	var triggered, greedyEq, greedyNe, cancelled, afterCancel int64
	verifkit.Parallel(n, 0, func(i int) {
		rng := r.SubRand("stream", i)
		shape, stream := c23Stream(rng)
		cancelAt := -1
		if rng.Intn(3) == 0 {
			cancelAt = rng.Intn(len(stream) + 1)
		}
		desc := fmt.Sprintf("%s stream=%v cancelBefore=%d", shape, stream, cancelAt)

		ch := make(chan uint64) // unbuffered: completing send p+1 means position p is decided
		ctx, cancel := context.WithCancel(context.Background())
		defer cancel()
		var begun int64
		var mu sync.Mutex
		var got []c23Trigger
		onWindow := func(w *coordinationWindow) {
			b := atomic.LoadInt64(&begun)
			mu.Lock()
			got = append(got, c23Trigger{w.coordinationBlock, b})
			mu.Unlock()
		}
		done := make(chan struct{})
		panicked := false
		go func() {
			defer close(done)
			panicked = r.Guard("watch:", desc, func() {
				watchCoordinationWindows(ctx, func(context.Context) <-chan uint64 { return ch }, onWindow)
			})
		}()

		watchdog := time.NewTimer(60 * time.Second)
		defer watchdog.Stop()
		var delivered []uint64 // value at delivered position k
		var deliveredPos []int // its position in the stream
		didCancel := false
		returned := false
	feed:
		for p, b := range stream {
			if p == cancelAt {
				cancel()
				didCancel = true
			}
			atomic.StoreInt64(&begun, int64(p+1))
			select {
			case ch <- b:
				delivered = append(delivered, b)
				deliveredPos = append(deliveredPos, p)
				if didCancel {
					atomic.AddInt64(&afterCancel, 1)
				}
			case <-done:
				returned = true
				break feed
			case <-watchdog.C:
				r.Inconclusive("watchdog: the watcher neither took a block nor returned: " + desc)
				return
			}
		}
		// the watcher returns only after it has decided about (and spawned the
		// callback for) every block it received
		cancel()
		if !returned {
			select {
			case <-done:
			case <-watchdog.C:
				r.Inconclusive("watchdog: the watcher did not return after cancellation: " + desc)
				return
			}
		}
		if panicked {
			r.Case(desc, false)
			return
		}
		// wait until every spawned callback has run
		buf := make([]byte, 1<<18)
		for spins := 0; c23CallbacksPending(&buf); spins++ {
			runtime.Gosched()
			if spins > 1000 {
				time.Sleep(time.Millisecond)
			}
			select {
			case <-watchdog.C:
				r.Inconclusive("watchdog: callbacks still pending: " + desc)
				return
			default:
			}
		}
		mu.Lock()
		trig := append([]c23Trigger(nil), got...)
		mu.Unlock()

		// ---- oracle (safety only)
		positions := map[uint64][]int{}
		for k, b := range delivered {
			positions[b] = append(positions[b], deliveredPos[k])
		}
		witness := map[string]interface{}{"delivered": delivered, "triggered": trig}
		seenW := map[uint64]int{}
		feasible := map[uint64][]int{}
		for _, tr := range trig {
			w := tr.Window
			if w == 0 || w%c23Freq != 0 {
				r.Violation("trigger:not-a-window-start", fmt.Sprintf("coordination started for block %d, not a positive multiple of %d", w, c23Freq), desc, witness)
				continue
			}
			seenW[w]++
			if seenW[w] == 2 {
				r.Violation("trigger:twice", fmt.Sprintf("window %d was started more than once", w), desc, witness)
			}
			var f []int
			for _, p := range positions[w] {
				if int64(p) < tr.Begun {
					f = append(f, p)
				}
			}
			if len(f) == 0 {
				r.Violation("trigger:never-fed", fmt.Sprintf("window %d was started although block %d had not been delivered to the watcher", w, w), desc, witness)
				continue
			}
			if old, ok := feasible[w]; !ok || len(f) > len(old) {
				feasible[w] = f
			}
		}
		var ws []uint64
		for w := range feasible {
			if seenW[w] == 1 {
				ws = append(ws, w)
			}
		}
		sort.Slice(ws, func(a, b int) bool { return ws[a] < ws[b] })
		for a := 0; a < len(ws); a++ {
			for b := a + 1; b < len(ws); b++ {
				lo, hi := feasible[ws[a]], feasible[ws[b]]
				// earlier window ws[a] can only have been started at a position in lo,
				// later window ws[b] only at one in hi: illegal iff every lo > every hi
				if lo[0] > hi[len(hi)-1] {
					r.Violation("trigger:earlier-window-after-later", fmt.Sprintf("window %d (fed only at positions %v) was started after window %d (fed only at positions %v) had been started", ws[a], lo, ws[b], hi), desc, witness)
				}
			}
		}

		// ---- evidence
		dup, gap, regress := false, false, false
		seenB := map[uint64]bool{}
		for k, b := range delivered {
			if seenB[b] {
				dup = true
			}
			seenB[b] = true
			if k > 0 {
				prev := delivered[k-1]
				if b < prev {
					regress = true
				}
				if b > prev && b/c23Freq > prev/c23Freq && (b%c23Freq != 0 || b/c23Freq > prev/c23Freq+1) {
					gap = true
				}
			}
		}
		r.Case(desc, (dup || gap || regress) && len(trig) > 0)
		atomic.AddInt64(&triggered, int64(len(trig)))
		if didCancel {
			atomic.AddInt64(&cancelled, 1)
		}
		g := c23Greedy(delivered)
		var tw []uint64
		for _, tr := range trig {
			tw = append(tw, tr.Window)
		}
		sort.Slice(tw, func(a, b int) bool { return tw[a] < tw[b] })
		if fmt.Sprint(g) == fmt.Sprint(tw) {
			atomic.AddInt64(&greedyEq, 1)
		} else {
			atomic.AddInt64(&greedyNe, 1)
		}
		r.SampleAt(i, n, func() interface{} {
			return map[string]interface{}{"shape": shape, "stream": stream, "cancel_before": cancelAt, "delivered": len(delivered), "triggered": tw}
		})
	})
	r.Count("windows_triggered", triggered)
	r.Count("streams_equal_to_start_whenever_allowed_model", greedyEq)
	r.Count("streams_with_fewer_or_other_starts_than_that_model", greedyNe)
	r.Count("streams_cancelled_midway", cancelled)
	r.Count("blocks_taken_after_cancellation", afterCancel)
	if triggered == 0 && r.Violations() == 0 {
		r.Inconclusive("no window was triggered in the whole run")
	}
}
