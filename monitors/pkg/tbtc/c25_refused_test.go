//go:build verif

package tbtc

// C25 after a dispatch that is refused for a reason other than "busy" (the
// wallet's public key cannot be encoded): the dispatcher must go on serving
// every wallet - a busy wallet is still refused at once, other wallets are
// not blocked, an ending action still frees its wallet.

import (
	"crypto/ecdsa"
	"crypto/elliptic"
	"errors"
	"fmt"
	"math/big"
	"runtime"
	"strings"
	"sync/atomic"
	"testing"
	"time"

	"github.com/keep-network/keep-core/internal/verifkit"
	"github.com/keep-network/keep-core/pkg/tecdsa"
)

type c25rAction struct {
	w     wallet
	gate  chan struct{}
	began chan struct{}
	done  chan struct{}
	execs int32
}

func (a *c25rAction) execute() error {
	if atomic.AddInt32(&a.execs, 1) == 1 {
		close(a.began)
		<-a.gate
		close(a.done)
	}
	return nil
}
func (a *c25rAction) wallet() wallet               { return a.w }
func (a *c25rAction) actionType() WalletActionType { return ActionNoop }

func c25rNew(w wallet) *c25rAction {
	return &c25rAction{w: w, gate: make(chan struct{}), began: make(chan struct{}), done: make(chan struct{})}
}

// c25rParkedInDispatch reports the goroutines that sit in
// walletDispatcher.dispatch (or its release path) waiting for a mutex.
func c25rParkedInDispatch() []string {
	buf := make([]byte, 1<<20)
	n := runtime.Stack(buf, true)
	var hits []string
	for _, g := range strings.Split(string(buf[:n]), "\n\n") {
		head := strings.SplitN(g, "\n", 2)[0]
		if (strings.Contains(head, "sync.Mutex.Lock") || strings.Contains(head, "semacquire") || strings.Contains(head, "sync.RWMutex")) && strings.Contains(g, "tbtc.(*walletDispatcher).dispatch") {
			hits = append(hits, head)
		}
	}
	return hits
}

func TestVerif_C25_RefusedDispatch(t *testing.T) {
	r := verifkit.Start(t, "C25", "refused-dispatch")
	defer r.Finish()
	r.SetRule("PRNG scripts over 3 wallets and one wallet whose public key cannot be encoded (a key on another curve): long-running actions are started, the unencodable wallet is dispatched 1-3 times at PRNG points (each must be refused with an error, never executed), and after each such refusal: a dispatch for a busy wallet returns errWalletBusy, a dispatch for an idle wallet is accepted and starts, and a wallet whose action ends becomes available. A dispatch that has not returned after 20 s is judged from two goroutine dumps 1 s apart: goroutines parked on the dispatcher's mutex inside dispatch in both = blocked dispatcher (violation); anything else = inconclusive. non-trivial = every script (contains a refused dispatch followed by dispatches)")
	n := r.N(40, 1000)
	blocked := 0
	for i := 0; i < n && blocked < 2; i++ {
		rng := r.SubRand("refused", i)
		wd := newWalletDispatcher()
		mk := func(k int64) wallet {
			x, y := tecdsa.Curve.ScalarBaseMult(big.NewInt(1000 + int64(i)*10 + k).Bytes())
			return wallet{publicKey: &ecdsa.PublicKey{Curve: tecdsa.Curve, X: x, Y: y}}
		}
		wallets := []wallet{mk(1), mk(2), mk(3)}
		bx, by := elliptic.P256().ScalarBaseMult(big.NewInt(7 + int64(i)).Bytes())
		bad := wallet{publicKey: &ecdsa.PublicKey{Curve: elliptic.P256(), X: bx, Y: by}}
		desc := fmt.Sprintf("refused-script %d", i)
		r.Case(desc, true)
		stuck := false
		dispatch := func(a walletAction, what string) (error, bool) {
			var err error
			returned, panicked := r.Within(20*time.Second, "refused:", desc+" "+what, func() { err = wd.dispatch(a) })
			if panicked {
				return nil, false
			}
			if !returned {
				d1 := c25rParkedInDispatch()
				time.Sleep(time.Second)
				d2 := c25rParkedInDispatch()
				if len(d1) > 0 && len(d2) > 0 {
					r.Violation("refused:dispatcher-blocked", fmt.Sprintf("%s did not return: %d goroutine(s) are parked on the dispatcher's mutex inside dispatch although no dispatch is in progress", what, len(d2)), desc, d2)
				} else {
					r.Inconclusive(desc + ": " + what + " did not return within the watchdog and no parked dispatch goroutine was found")
				}
				stuck = true
				return nil, false
			}
			return err, true
		}
		busy := map[int]*c25rAction{}
		start := func(w int) bool {
			a := c25rNew(wallets[w])
			err, ok := dispatch(a, fmt.Sprintf("dispatch for idle wallet %d", w))
			if !ok {
				return false
			}
			if err != nil {
				r.Violation("refused:idle-wallet-refused", fmt.Sprintf("a dispatch for idle wallet %d was refused: %v", w, err), desc, nil)
				return false
			}
			if !c25WaitCh(a.began, 20*time.Second) {
				r.Inconclusive(desc + ": accepted action did not start within the watchdog")
				return false
			}
			busy[w] = a
			return true
		}
		refusals := 1 + rng.Intn(3)
		okRun := true
		for step := 0; okRun && step < 4+refusals; step++ {
			// occupy a PRNG wallet if idle
			w := rng.Intn(3)
			if busy[w] == nil {
				okRun = start(w)
				if !okRun {
					break
				}
			}
			if refusals > 0 && rng.Intn(2) == 0 {
				refusals--
				ba := c25rNew(bad)
				err, ok := dispatch(ba, "dispatch for the wallet with an unencodable key")
				if !ok {
					okRun = false
					break
				}
				if err == nil || errors.Is(err, errWalletBusy) {
					r.Violation("refused:unencodable-wallet-not-refused", fmt.Sprintf("dispatch for a wallet whose key cannot be encoded returned %v", err), desc, nil)
				}
				if atomic.LoadInt32(&ba.execs) != 0 {
					r.Violation("refused:unencodable-wallet-executed", "the action of the refused dispatch was executed", desc, nil)
				}
				r.Count("refused_dispatches", 1)
			}
			// a busy wallet is refused at once
			for bw, a := range busy {
				if a == nil {
					continue
				}
				err, ok := dispatch(c25rNew(wallets[bw]), fmt.Sprintf("dispatch for busy wallet %d", bw))
				if !ok {
					okRun = false
					break
				}
				if !errors.Is(err, errWalletBusy) {
					r.Violation("refused:busy-wallet-not-refused", fmt.Sprintf("dispatch for busy wallet %d returned %v", bw, err), desc, nil)
				}
				r.Count("busy_refusals", 1)
				break
			}
			if !okRun {
				break
			}
			// end one action; its wallet must become available
			for bw, a := range busy {
				if a == nil || rng.Intn(2) == 0 {
					continue
				}
				close(a.gate)
				<-a.done
				freed := false
				for k := 0; k < 2000 && !freed && !stuck; k++ {
					na := c25rNew(wallets[bw])
					err, ok := dispatch(na, fmt.Sprintf("dispatch for wallet %d after its action ended", bw))
					if !ok {
						okRun = false
						break
					}
					if err == nil {
						freed = true
						if !c25WaitCh(na.began, 20*time.Second) {
							r.Inconclusive(desc + ": accepted action did not start within the watchdog")
							okRun = false
						}
						busy[bw] = na
						r.Count("wallets_freed", 1)
					} else if !errors.Is(err, errWalletBusy) {
						r.Violation("refused:freed-wallet-error", fmt.Sprintf("dispatch for wallet %d after its action ended returned %v", bw, err), desc, nil)
						break
					} else {
						runtime.Gosched()
						time.Sleep(time.Millisecond)
					}
				}
				if okRun && !freed && !stuck {
					r.Violation("refused:wallet-never-freed", fmt.Sprintf("wallet %d stayed busy for 2000 polls after its action had ended", bw), desc, nil)
				}
				break
			}
		}
		// let everything finish
		for _, a := range busy {
			if a != nil {
				select {
				case <-a.gate:
				default:
					close(a.gate)
				}
			}
		}
		if stuck {
			blocked++
		}
	}
}
