//go:build verif

package tbtc

// C37, "two different events are never mistaken for one another", across
// event kinds: a deduplicator built by newDeduplicator() (as the node builds
// it) receives events of different kinds whose identifying values have the
// same bytes (a DKG seed equal to a wallet ID as a number, a result hash equal
// to a wallet ID, ...). Each of them is a distinct chain event and must be
// handled.

import (
	"fmt"
	"math/big"
	"testing"

	"github.com/keep-network/keep-core/internal/verifkit"
)

func TestVerif_C37_TbtcCrossKind(t *testing.T) {
	r := verifkit.Start(t, "C37", "tbtc-cross-kind")
	defer r.Finish()
	r.SetRule("one deduplicator from newDeduplicator(); per case a 32-byte value v (PRNG, top nibble non-zero, plus small and structured values) is delivered as a DKG seed (v as a number), as a wallet ID (v), and as the hash of a submitted DKG result (seed v, hash v, PRNG block) in a PRNG order; every first delivery of each kind must be handled, every immediate second delivery must not. Non-trivial: always (each case crosses three event kinds with equal bytes).")
	n := r.N(400, 20000)
	d := newDeduplicator()
	rng := r.Rand("crosskind")
	for i := 0; i < n; i++ {
		var v [32]byte
		switch i % 5 {
		case 0:
			v[31] = byte(i/5 + 1)
			v[30] = byte((i / 5) >> 8)
			v[0] = 0x10
		default:
			rng.Read(v[:])
			v[0] |= 0x10
		}
		seed := new(big.Int).SetBytes(v[:])
		var h DKGChainResultHash
		copy(h[:], v[:])
		blk := uint64(rng.Intn(1 << 30))
		type ev struct {
			kind string
			fn   func() bool
		}
		evs := []ev{
			{"dkg-started", func() bool { return d.notifyDKGStarted(seed) }},
			{"wallet-closed", func() bool { return d.notifyWalletClosed(v) }},
			{"dkg-result-submitted", func() bool { return d.notifyDKGResultSubmitted(seed, h, blk) }},
		}
		rng.Shuffle(len(evs), func(a, b int) { evs[a], evs[b] = evs[b], evs[a] })
		desc := fmt.Sprintf("value=%x order=%s,%s,%s", v, evs[0].kind, evs[1].kind, evs[2].kind)
		r.Case(desc, true)
		for k, e := range evs {
			var first, second bool
			if r.Guard("cross-kind:", desc, func() { first = e.fn(); second = e.fn() }) {
				break
			}
			if !first {
				r.Violation("cross-kind:"+e.kind+":mistaken-for-another-event", fmt.Sprintf("the first %s event was treated as a duplicate after %d event(s) of other kinds carrying the same bytes", e.kind, k), desc, nil)
			}
			if second {
				r.Violation("cross-kind:"+e.kind+":handled-twice", "an immediate redelivery was handled again", desc, nil)
			}
		}
	}
}
