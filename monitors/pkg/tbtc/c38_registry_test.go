//go:build verif

package tbtc

import (
	"bytes"
	"crypto/ecdsa"
	"crypto/elliptic"
	"crypto/sha256"
	"fmt"
	"math/big"
	"math/rand"
	"os"
	"runtime"
	"sort"
	"strings"
	"sync"
	"testing"

	"github.com/bnb-chain/tss-lib/crypto"
	"github.com/bnb-chain/tss-lib/ecdsa/keygen"
	"github.com/keep-network/keep-common/pkg/persistence"

	"github.com/keep-network/keep-core/internal/verifkit"
	"github.com/keep-network/keep-core/pkg/bitcoin"
	"github.com/keep-network/keep-core/pkg/chain"
	"github.com/keep-network/keep-core/pkg/internal/tecdsatest"
	"github.com/keep-network/keep-core/pkg/protocol/group"
	"github.com/keep-network/keep-core/pkg/tecdsa"
)

// ---------------------------------------------------------------------------
// C38 (tbtc part) — the wallet registry survives restarts and crash points.
//
// The registry runs over keep-common's real disk persistence in a scratch
// directory. A fault layer between registry and disk (a) mirrors every storage
// call that really happened into a reference model of the disk and (b) can
// "crash the node" — runtime.Goexit of the calling goroutine — immediately
// before or immediately after the storage call with a chosen index. A restart
// is a new registry over the same directory.
// ---------------------------------------------------------------------------

// c38Disk is the reference model: directory -> file name -> content, for the
// non-archived part of the storage.
type c38Disk map[string]map[string][]byte

func (d c38Disk) clone() c38Disk {
	o := c38Disk{}
	for k, v := range d {
		o[k] = map[string][]byte{}
		for n, b := range v {
			o[k][n] = b
		}
	}
	return o
}

func (d c38Disk) equal(o c38Disk) bool {
	if len(d) != len(o) {
		return false
	}
	for k, v := range d {
		ov, ok := o[k]
		if !ok || len(ov) != len(v) {
			return false
		}
		for n, b := range v {
			if !bytes.Equal(ov[n], b) {
				return false
			}
		}
	}
	return true
}

func (d c38Disk) describe() map[string][]string {
	out := map[string][]string{}
	for k, v := range d {
		var names []string
		for n, b := range v {
			h := sha256.Sum256(b)
			names = append(names, fmt.Sprintf("%s#%x", n, h[:4]))
		}
		sort.Strings(names)
		out[k[:12]] = names
	}
	return out
}

// c38Fault is the state shared by the storage wrappers of one run (one
// wrapper per node incarnation).
type c38Fault struct {
	calls      int  // storage calls so far in this run
	crashAt    int  // index of the call to crash at (-1: never)
	crashAfter bool // crash after (true) or before (false) the real call
	crashed    bool // the crash fired
	crashedIn  string
	disk       c38Disk
	trace      []string
}

type c38Store struct {
	inner persistence.ProtectedHandle
	f     *c38Fault
}

func (s *c38Store) point(kind string, real func() error, mirror func()) error {
	idx := s.f.calls
	s.f.calls++
	if idx == s.f.crashAt && !s.f.crashAfter {
		s.f.crashed, s.f.crashedIn = true, "before "+kind
		s.f.trace = append(s.f.trace, fmt.Sprintf("#%d CRASH before %s", idx, kind))
		runtime.Goexit()
	}
	err := real()
	if err == nil {
		mirror()
	}
	s.f.trace = append(s.f.trace, fmt.Sprintf("#%d %s err=%v", idx, kind, err))
	if idx == s.f.crashAt && s.f.crashAfter {
		s.f.crashed, s.f.crashedIn = true, "after "+kind
		s.f.trace = append(s.f.trace, fmt.Sprintf("#%d CRASH after %s", idx, kind))
		runtime.Goexit()
	}
	return err
}

func (s *c38Store) Save(data []byte, directory string, name string) error {
	return s.point("Save("+directory[:8]+name+")",
		func() error { return s.inner.Save(data, directory, name) },
		func() {
			if s.f.disk[directory] == nil {
				s.f.disk[directory] = map[string][]byte{}
			}
			s.f.disk[directory][name] = append([]byte(nil), data...)
		})
}

func (s *c38Store) Archive(directory string) error {
	return s.point("Archive("+directory[:8]+")",
		func() error { return s.inner.Archive(directory) },
		func() { delete(s.f.disk, directory) })
}

func (s *c38Store) Snapshot(data []byte, directory string, name string) error {
	return s.point("Snapshot", func() error { return s.inner.Snapshot(data, directory, name) }, func() {})
}

func (s *c38Store) ReadAll() (<-chan persistence.DataDescriptor, <-chan error) {
	var dc <-chan persistence.DataDescriptor
	var ec <-chan error
	idx := s.f.calls
	s.f.calls++
	if idx == s.f.crashAt && !s.f.crashAfter {
		s.f.crashed, s.f.crashedIn = true, "before ReadAll"
		s.f.trace = append(s.f.trace, fmt.Sprintf("#%d CRASH before ReadAll", idx))
		runtime.Goexit()
	}
	dc, ec = s.inner.ReadAll()
	s.f.trace = append(s.f.trace, fmt.Sprintf("#%d ReadAll", idx))
	if idx == s.f.crashAt && s.f.crashAfter {
		s.f.crashed, s.f.crashedIn = true, "after ReadAll"
		s.f.trace = append(s.f.trace, fmt.Sprintf("#%d CRASH after ReadAll", idx))
		// nobody will read the streams: drain them so the producer can finish
		go func() {
			for range dc {
			}
		}()
		go func() {
			for range ec {
			}
		}()
		runtime.Goexit()
	}
	return dc, ec
}

// ---- key material ------------------------------------------------------------

type c38Keys struct {
	walletKeys []*ecdsa.PublicKey // wallets 0..2 plus one never registered (3)
	signers    map[[3]int]*signer // (wallet, member index, variant)
	bytes      map[[3]int][]byte  // their marshalled form at build time
}

var (
	c38KeysOnce sync.Once
	c38KeysVal  *c38Keys
	c38KeysErr  error
)

func c38WalletID(pk *ecdsa.PublicKey) ([32]byte, error) {
	return sha256.Sum256(elliptic.Marshal(pk.Curve, pk.X, pk.Y)), nil
}

func c38BuildKeys() (*c38Keys, error) {
	c38KeysOnce.Do(func() {
		data, err := tecdsatest.LoadPrivateKeyShareTestFixtures(3)
		if err != nil {
			c38KeysErr = err
			return
		}
		k := &c38Keys{signers: map[[3]int]*signer{}, bytes: map[[3]int][]byte{}}
		for w := 0; w < 4; w++ {
			x, y := tecdsa.Curve.ScalarBaseMult(big.NewInt(int64(1000 + 17*w)).Bytes())
			if w == 1 {
				// wallet 1 is the negation of wallet 0: a different wallet
				// whose public key shares the x coordinate (hostile input for
				// anything that names a wallet by less than its whole key)
				x = new(big.Int).Set(k.walletKeys[0].X)
				y = new(big.Int).Sub(tecdsa.Curve.Params().P, k.walletKeys[0].Y)
			}
			k.walletKeys = append(k.walletKeys, &ecdsa.PublicKey{Curve: tecdsa.Curve, X: x, Y: y})
		}
		for w := 0; w < 3; w++ {
			ops := []chain.Address{}
			for i := 0; i < 5; i++ {
				ops = append(ops, chain.Address(fmt.Sprintf("0xw%dop%d", w, (i*w)%4)))
			}
			for m := 1; m <= 3; m++ {
				for v := 0; v < 2; v++ {
					d := keygen.LocalPartySaveData(data[m-1]) // struct copy; replaced fields get fresh values
					pub, err := crypto.NewECPoint(tecdsa.Curve, k.walletKeys[w].X, k.walletKeys[w].Y)
					if err != nil {
						c38KeysErr = err
						return
					}
					d.ECDSAPub = pub
					d.Xi = new(big.Int).Add(data[m-1].Xi, big.NewInt(int64(100*w+10*m+v+1)))
					s := &signer{
						wallet:                  wallet{publicKey: k.walletKeys[w], signingGroupOperators: ops},
						signingGroupMemberIndex: group.MemberIndex(m),
						privateKeyShare:         tecdsa.NewPrivateKeyShare(d),
					}
					b, err := s.Marshal()
					if err != nil {
						c38KeysErr = err
						return
					}
					k.signers[[3]int{w, m, v}] = s
					k.bytes[[3]int{w, m, v}] = b
				}
			}
		}
		c38KeysVal = k
	})
	return c38KeysVal, c38KeysErr
}

// ---- operations --------------------------------------------------------------

type c38Op struct {
	Kind    string `json:"op"` // register | archive | restart
	Wallet  int    `json:"w,omitempty"`
	Member  int    `json:"m,omitempty"`
	Variant int    `json:"v,omitempty"`
}

func (o c38Op) String() string {
	switch o.Kind {
	case "register":
		return fmt.Sprintf("reg(w%d,m%d,v%d)", o.Wallet, o.Member, o.Variant)
	case "archive":
		return fmt.Sprintf("arch(w%d)", o.Wallet)
	}
	return o.Kind
}

func c38GenSequence(rng *rand.Rand) []c38Op {
	n := 2 + rng.Intn(7) // 2..8
	var ops []c38Op
	registered := map[[2]int]bool{}
	for len(ops) < n {
		switch x := rng.Intn(100); {
		case x < 55:
			o := c38Op{Kind: "register", Wallet: rng.Intn(3), Member: 1 + rng.Intn(3), Variant: rng.Intn(2)}
			if len(registered) > 0 && rng.Intn(4) == 0 {
				// re-register an index that is (or was) registered
				keys := make([][2]int, 0, len(registered))
				for k := range registered {
					keys = append(keys, k)
				}
				sort.Slice(keys, func(a, b int) bool { return keys[a][0]*10+keys[a][1] < keys[b][0]*10+keys[b][1] })
				pick := keys[rng.Intn(len(keys))]
				o.Wallet, o.Member = pick[0], pick[1]
			}
			registered[[2]int{o.Wallet, o.Member}] = true
			ops = append(ops, o)
		case x < 80:
			w := rng.Intn(4) // 3 = a wallet that is never registered
			ops = append(ops, c38Op{Kind: "archive", Wallet: w})
		default:
			ops = append(ops, c38Op{Kind: "restart"})
		}
	}
	return ops
}

// c38Node is one incarnation of the node's registry.
type c38Node struct {
	reg *walletRegistry
}

// c38Run executes one sequence with one crash point (crashAt < 0: none) and
// returns the number of storage calls made.
func c38Run(r *verifkit.Run, keys *c38Keys, ops []c38Op, crashAt int, crashAfter bool, desc string, dir string) (calls int, crashFired bool) {
	f := &c38Fault{crashAt: crashAt, crashAfter: crashAfter, disk: c38Disk{}}
	// what the completed operations promise to be on disk
	want := c38Disk{}
	viol := func(fp, what string, extra interface{}) {
		r.Violation("tbtc:"+fp, what, desc, map[string]interface{}{
			"storage_trace": f.trace, "disk_model": f.disk.describe(), "promised": want.describe(), "detail": extra})
	}

	// boot starts a node incarnation; returns nil if the boot itself crashed
	boot := func() *c38Node {
		var node *c38Node
		var bootErr error
		done := make(chan struct{})
		go func() {
			defer close(done)
			h, err := persistence.NewProtectedDiskHandle(dir)
			if err != nil {
				bootErr = err
				return
			}
			reg, err := newWalletRegistry(&c38Store{inner: h, f: f}, c38WalletID)
			if err != nil {
				bootErr = err
				return
			}
			node = &c38Node{reg}
		}()
		<-done
		if bootErr != nil {
			viol("restart:error", "the registry could not be constructed over the storage directory: "+bootErr.Error(), nil)
		}
		return node
	}

	// check compares a freshly booted registry with the disk model and the
	// disk model with what completed operations promised.
	check := func(n *c38Node, when string) {
		if !f.disk.equal(want) {
			viol("operation-not-persisted", when+": an operation that returned success left the storage without its effect (or with a foreign effect)", nil)
			want = f.disk.clone() // report once
		}
		reg := n.reg
		expectWallets := 0
		for w := 0; w < 4; w++ {
			pk := keys.walletKeys[w]
			dirName := getWalletStorageKey(pk)
			files := f.disk[dirName]
			present := len(files) > 0
			if present {
				expectWallets++
			}
			signers := reg.getSigners(pk)
			// signers vs model
			got := map[string][]byte{}
			for _, s := range signers {
				name := fmt.Sprintf("/membership_%v", s.signingGroupMemberIndex)
				b, err := s.Marshal()
				if err != nil {
					viol("restart:key-material-differs", when+": a loaded signer cannot be marshalled: "+err.Error(), name)
					continue
				}
				if _, dup := got[name]; dup {
					viol("restart:duplicate-signer", fmt.Sprintf("%s: wallet w%d holds member index %v twice after the restart", when, w, s.signingGroupMemberIndex), nil)
				}
				got[name] = b
				if s.wallet.publicKey == nil || s.wallet.publicKey.X.Cmp(pk.X) != 0 || s.wallet.publicKey.Y.Cmp(pk.Y) != 0 {
					viol("restart:lookup-disagree", fmt.Sprintf("%s: getSigners(w%d) returned a signer of another wallet", when, w), nil)
				}
			}
			for name, b := range files {
				gb, ok := got[name]
				if !ok {
					viol("restart:missing-signer", fmt.Sprintf("%s: signer %s of wallet w%d is persisted and not archived but unknown after the restart", when, name, w), nil)
					continue
				}
				if !bytes.Equal(gb, b) {
					viol("restart:key-material-differs", fmt.Sprintf("%s: signer %s of wallet w%d re-marshals to different bytes than were persisted", when, name, w), nil)
				}
			}
			for name := range got {
				if _, ok := files[name]; !ok {
					viol("restart:extra-signer", fmt.Sprintf("%s: signer %s of wallet w%d is known after the restart but is not in the non-archived storage", when, name, w), nil)
				}
			}
			// lookups agree
			pkh := bitcoin.PublicKeyHash(pk)
			id, _ := c38WalletID(pk)
			w1, ok1 := reg.getWalletByPublicKeyHash(pkh)
			w2, ok2 := reg.getWalletByID(id)
			if ok1 != present || ok2 != present || (len(signers) > 0) != present {
				fp := "restart:lookup-disagree"
				if !present {
					fp = "restart:archived-or-unknown-wallet-known"
				}
				viol(fp, fmt.Sprintf("%s: wallet w%d persisted=%v but getSigners=%d getWalletByPublicKeyHash=%v getWalletByID=%v", when, w, present, len(signers), ok1, ok2), nil)
			}
			for _, lw := range []struct {
				w  wallet
				ok bool
			}{{w1, ok1}, {w2, ok2}} {
				if lw.ok && (lw.w.publicKey == nil || lw.w.publicKey.X.Cmp(pk.X) != 0 || lw.w.publicKey.Y.Cmp(pk.Y) != 0) {
					viol("restart:lookup-disagree", fmt.Sprintf("%s: a lookup for wallet w%d returned a different wallet", when, w), nil)
				}
			}
		}
		if n := len(reg.getWalletsPublicKeys()); n != expectWallets {
			viol("restart:wallet-count", fmt.Sprintf("%s: the registry knows %d wallets, the non-archived storage holds %d", when, n, expectWallets), nil)
		}
	}

	node := boot()
	for node == nil && f.crashed && f.crashAt >= 0 {
		// crashed while booting (ReadAll): the crash point is used up; reboot
		f.crashAt = -1
		crashFired = true
		node = boot()
		if node != nil {
			check(node, "after crash "+f.crashedIn+" during boot")
		}
	}
	if node == nil {
		return f.calls, crashFired
	}

	for i, op := range ops {
		var opErr error
		completed := false
		done := make(chan struct{})
		switch op.Kind {
		case "restart":
			close(done)
			completed = true
			node = boot()
			if node == nil && f.crashed && !crashFired {
				crashFired = true
				f.crashAt = -1
				node = boot()
				if node != nil {
					check(node, fmt.Sprintf("after crash %s during the restart at step %d", f.crashedIn, i))
				}
			} else if node != nil {
				check(node, fmt.Sprintf("after the restart at step %d", i))
			}
			if node == nil {
				return f.calls, crashFired
			}
			continue
		case "register":
			s := keys.signers[[3]int{op.Wallet, op.Member, op.Variant}]
			go func() {
				defer close(done)
				if r.Guard("tbtc:", desc, func() { opErr = node.reg.registerSigner(s) }) {
					return
				}
				completed = true
			}()
		case "archive":
			pkh := bitcoin.PublicKeyHash(keys.walletKeys[op.Wallet])
			go func() {
				defer close(done)
				if r.Guard("tbtc:", desc, func() { opErr = node.reg.archiveWallet(pkh) }) {
					return
				}
				completed = true
			}()
		}
		<-done
		if f.crashed && !crashFired {
			// the node died inside this operation: whatever reached the disk
			// is the truth; restart
			crashFired = true
			f.crashAt = -1
			want = f.disk.clone()
			node = boot()
			if node == nil {
				return f.calls, crashFired
			}
			check(node, fmt.Sprintf("after crash %s in step %d %s", f.crashedIn, i, op))
			continue
		}
		if !completed {
			return f.calls, crashFired // panicked; reported by Guard
		}
		// the operation returned: record what it promises
		switch op.Kind {
		case "register":
			if opErr != nil {
				viol("register-error", fmt.Sprintf("step %d %s failed: %v", i, op, opErr), nil)
				want = f.disk.clone()
				continue
			}
			dn := getWalletStorageKey(keys.walletKeys[op.Wallet])
			if want[dn] == nil {
				want[dn] = map[string][]byte{}
			}
			want[dn][fmt.Sprintf("/membership_%v", op.Member)] = keys.bytes[[3]int{op.Wallet, op.Member, op.Variant}]
		case "archive":
			dn := getWalletStorageKey(keys.walletKeys[op.Wallet])
			if opErr == nil {
				delete(want, dn)
			}
			// an error is fine for an unknown wallet; for a known one it
			// leaves the wallet in place, which the disk comparison covers
		}
	}
	// final restart
	node = boot()
	if node == nil && f.crashed && !crashFired {
		crashFired = true
		f.crashAt = -1
		node = boot()
	}
	if node != nil {
		check(node, "after the final restart")
	}
	return f.calls, crashFired
}

const c38Rule = "operation sequences of length 2..8 over 3 wallets x 3 member indices x 2 key-share variants (register, re-register an index, archive, archive an unknown or already archived wallet, restart) on the real disk persistence; each sequence is run once without a crash and then once per (storage call index, before|after) with the node crashed (runtime.Goexit in the storage layer) at that point, restarted over the same directory and the rest of the sequence continued; after every restart the registry must equal the reference disk model (signers per wallet byte-equal after re-marshal, no extras, three lookups agree) and every operation that returned success must be on disk. non-trivial = the run had a crash injected at a storage call and was restarted afterwards"

func c38Explore(r *verifkit.Run, nSeq int) {
	keys, err := c38BuildKeys()
	if err != nil {
		r.Inconclusive("cannot build key material: " + err.Error())
		return
	}
	base := r.TmpDir("tbtc")
	type job struct {
		seq        int
		ops        []c38Op
		crashAt    int
		crashAfter bool
	}
	// pass 1: count the storage calls of every sequence (no crash)
	counts := make([]int, nSeq)
	seqs := make([][]c38Op, nSeq)
	verifkit.Parallel(nSeq, 0, func(i int) {
		seqs[i] = c38GenSequence(r.SubRand("seq", i))
		desc := fmt.Sprintf("seq#%d %v crash=none", i, seqs[i])
		dir := fmt.Sprintf("%s/s%d-none", base, i)
		_ = os.MkdirAll(dir, 0o755)
		counts[i], _ = c38Run(r, keys, seqs[i], -1, false, desc, dir)
		r.Case(desc, false)
		_ = os.RemoveAll(dir)
	})
	var jobs []job
	for i := range seqs {
		for c := 0; c < counts[i]; c++ {
			jobs = append(jobs, job{i, seqs[i], c, false}, job{i, seqs[i], c, true})
		}
	}
	r.Count("sequences", int64(nSeq))
	r.Count("crash_runs", int64(len(jobs)))
	verifkit.Parallel(len(jobs), 0, func(j int) {
		jb := jobs[j]
		pos := "before"
		if jb.crashAfter {
			pos = "after"
		}
		desc := fmt.Sprintf("seq#%d %v crash=%s-call-%d", jb.seq, jb.ops, pos, jb.crashAt)
		dir := fmt.Sprintf("%s/s%d-%s-%d", base, jb.seq, pos, jb.crashAt)
		_ = os.MkdirAll(dir, 0o755)
		_, fired := c38Run(r, keys, jb.ops, jb.crashAt, jb.crashAfter, desc, dir)
		r.Case(desc, fired)
		if fired {
			r.Count("crashes_fired", 1)
		}
		_ = os.RemoveAll(dir)
		if j%997 == 0 {
			r.Sample(map[string]interface{}{"sequence": strings.Fields(fmt.Sprint(jb.ops)), "crash": fmt.Sprintf("%s storage call %d", pos, jb.crashAt)})
		}
	})
}

func TestVerif_C38_TbtcRegistry(t *testing.T) {
	r := verifkit.Start(t, "C38", "tbtc-registry")
	defer r.Finish()
	r.SetRule(c38Rule)
	c38Explore(r, r.N(120, 5000))
}

func TestVerif_C38_TbtcRegistryRace(t *testing.T) {
	r := verifkit.Start(t, "C38", "tbtc-registry-race")
	defer r.Finish()
	r.SetRule("side channel: a prefix of the same sequences and crash points under the Go race detector. " + c38Rule)
	c38Explore(r, r.N(12, 300))
}
