//go:build verif

package tbtc

// Shared helpers of the C26, C27 and C28 monitors of pkg/tbtc: secp256k1 keys
// and a plain ECDSA signer driven by the monitor's PRNG (stands in for the
// threshold signer), hand-written locking scripts, a generator of funding
// transactions on the package's localBitcoinChain, conversion to btcd's
// wire.MsgTx and execution of one input in btcd's script engine, and the
// generator of wallet transaction scenarios (deposit sweep, redemption,
// moving funds, moved funds sweep) that are assembled by the production
// assemble* functions.
//
// Nothing here uses pkg/bitcoin's script constructors or the builder's
// internals: the expected scripts are written byte by byte.

import (
	"crypto/ecdsa"
	"crypto/sha256"
	"encoding/hex"
	"fmt"
	"math/big"
	"math/rand"
	"strings"

	"github.com/btcsuite/btcd/btcec"
	"github.com/btcsuite/btcd/chaincfg/chainhash"
	"github.com/btcsuite/btcd/txscript"
	"github.com/btcsuite/btcd/wire"
	"github.com/btcsuite/btcutil"

	"github.com/keep-network/keep-core/pkg/bitcoin"
	"github.com/keep-network/keep-core/pkg/chain"
)

// c26kitMaxMoney is the total bitcoin supply in satoshi.
const c26kitMaxMoney = int64(21_000_000) * 100_000_000

// ---------------------------------------------------------------- keys

type c26kitKey struct {
	D   *big.Int
	Pub *ecdsa.PublicKey
	Ser []byte // 33-byte compressed encoding
	PKH [20]byte
}

func c26kitScalar(rng *rand.Rand) *big.Int {
	n := btcec.S256().N
	for {
		b := make([]byte, 32)
		rng.Read(b)
		k := new(big.Int).SetBytes(b)
		if k.Sign() > 0 && k.Cmp(n) < 0 {
			return k
		}
	}
}

func c26kitNewKey(rng *rand.Rand) *c26kitKey {
	d := c26kitScalar(rng)
	x, y := btcec.S256().ScalarBaseMult(d.Bytes())
	ser := make([]byte, 33)
	ser[0] = 0x02 | byte(y.Bit(0))
	x.FillBytes(ser[1:])
	k := &c26kitKey{
		D:   d,
		Pub: &ecdsa.PublicKey{Curve: btcec.S256(), X: x, Y: y},
		Ser: ser,
	}
	copy(k.PKH[:], btcutil.Hash160(ser))
	return k
}

// c26kitSigMode selects the encoding class of the produced signature.
type c26kitSigMode struct {
	// LongR: 1 = R must have its top bit set (33-byte DER integer),
	// 0 = R must not, -1 = whatever comes.
	LongR int
	// FullS: the low form of S must occupy all 32 bytes.
	FullS bool
	// HighS: hand out S in its high form (N - s_low); the builder is expected
	// to produce a standard (low-S) signature from it, as the threshold
	// signer's output is low-S but the builder's contract does not require it.
	HighS bool
}

// c26kitSign is textbook ECDSA over secp256k1 with the nonce taken from the
// monitor's PRNG (deterministic for a seed). z is the 256-bit message digest
// as an integer.
func c26kitSign(key *c26kitKey, z *big.Int, rng *rand.Rand, mode c26kitSigMode) (r, s *big.Int) {
	curve := btcec.S256()
	n := curve.N
	for {
		k := c26kitScalar(rng)
		x, _ := curve.ScalarBaseMult(k.Bytes())
		r = new(big.Int).Mod(x, n)
		if r.Sign() == 0 {
			continue
		}
		if mode.LongR == 1 && r.BitLen() != 256 {
			continue
		}
		if mode.LongR == 0 && r.BitLen() == 256 {
			continue
		}
		kinv := new(big.Int).ModInverse(k, n)
		s = new(big.Int).Mul(r, key.D)
		s.Add(s, z)
		s.Mul(s, kinv)
		s.Mod(s, n)
		if s.Sign() == 0 {
			continue
		}
		low := new(big.Int).Set(s)
		if other := new(big.Int).Sub(n, s); other.Cmp(low) < 0 {
			low = other
		}
		if mode.FullS && low.BitLen() <= 248 {
			continue
		}
		if mode.HighS {
			s = new(big.Int).Sub(n, low)
		} else {
			s = low
		}
		return r, s
	}
}

// c26kitDERLen is the length of the strict-DER encoding of (r, low(s)).
func c26kitDERLen(r, s *big.Int) int {
	n := btcec.S256().N
	low := new(big.Int).Set(s)
	if other := new(big.Int).Sub(n, s); other.Cmp(low) < 0 {
		low = other
	}
	il := func(v *big.Int) int { return v.BitLen()/8 + 1 }
	return 6 + il(r) + il(low)
}

// ---------------------------------------------------------------- scripts

func c26kitP2PKH(h [20]byte) []byte {
	return append(append([]byte{0x76, 0xa9, 0x14}, h[:]...), 0x88, 0xac)
}

func c26kitP2WPKH(h [20]byte) []byte {
	return append([]byte{0x00, 0x14}, h[:]...)
}

func c26kitP2SH(redeem []byte) []byte {
	return append(append([]byte{0xa9, 0x14}, btcutil.Hash160(redeem)...), 0x87)
}

func c26kitP2WSH(witnessScript []byte) []byte {
	h := sha256.Sum256(witnessScript)
	return append([]byte{0x00, 0x20}, h[:]...)
}

func c26kitRand20(rng *rand.Rand) (h [20]byte) {
	rng.Read(h[:])
	return
}

// c26kitRandomOutputScript returns a standard output script of one of the four
// kinds (0 P2PKH, 1 P2WPKH, 2 P2SH, 3 P2WSH) for random hashes.
func c26kitRandomOutputScript(rng *rand.Rand, kind int) []byte {
	switch kind {
	case 0:
		return c26kitP2PKH(c26kitRand20(rng))
	case 1:
		return c26kitP2WPKH(c26kitRand20(rng))
	case 2:
		h := c26kitRand20(rng)
		return append(append([]byte{0xa9, 0x14}, h[:]...), 0x87)
	default:
		var h [32]byte
		rng.Read(h[:])
		return append([]byte{0x00, 0x20}, h[:]...)
	}
}

// ---------------------------------------------------------------- amounts

func c26kitAmount(rng *rand.Rand) int64 {
	switch rng.Intn(10) {
	case 0:
		return 1 + rng.Int63n(1000) // dust
	case 1:
		return 1 + rng.Int63n(c26kitMaxMoney/64) // huge
	case 2:
		return int64(1) << uint(rng.Intn(44)) // power of two
	default:
		return 10_000 + rng.Int63n(1_000_000_000)
	}
}

// ---------------------------------------------------------------- chain

// c26kitFund puts a transaction with an output (pkScript, value) at a random
// output position on the chain and returns the UTXO pointing at it.
func c26kitFund(lbc *localBitcoinChain, rng *rand.Rand, pkScript []byte, value int64) *bitcoin.UnspentTransactionOutput {
	for {
		tx := &bitcoin.Transaction{Version: int32(1 + rng.Intn(2)), Locktime: 0}
		if rng.Intn(4) == 0 {
			tx.Locktime = rng.Uint32()
		}
		nin := 1 + rng.Intn(2)
		for i := 0; i < nin; i++ {
			var h bitcoin.Hash
			rng.Read(h[:])
			sig := make([]byte, rng.Intn(30))
			rng.Read(sig)
			tx.Inputs = append(tx.Inputs, &bitcoin.TransactionInput{
				Outpoint:        &bitcoin.TransactionOutpoint{TransactionHash: h, OutputIndex: uint32(rng.Intn(5))},
				SignatureScript: sig,
				Sequence:        0xffffffff,
			})
		}
		nout := 1 + rng.Intn(3)
		pos := rng.Intn(nout)
		for i := 0; i < nout; i++ {
			if i == pos {
				tx.Outputs = append(tx.Outputs, &bitcoin.TransactionOutput{Value: value, PublicKeyScript: pkScript})
			} else {
				tx.Outputs = append(tx.Outputs, &bitcoin.TransactionOutput{
					Value:           c26kitAmount(rng),
					PublicKeyScript: c26kitRandomOutputScript(rng, rng.Intn(4)),
				})
			}
		}
		if err := lbc.BroadcastTransaction(tx); err != nil {
			continue // hash collision with an existing one: regenerate
		}
		return &bitcoin.UnspentTransactionOutput{
			Outpoint: &bitcoin.TransactionOutpoint{TransactionHash: tx.Hash(), OutputIndex: uint32(pos)},
			Value:    value,
		}
	}
}

// c26kitPrevOut reads the previous output of an outpoint from the chain.
func c26kitPrevOut(lbc *localBitcoinChain, op *bitcoin.TransactionOutpoint) (*bitcoin.TransactionOutput, error) {
	tx, err := lbc.GetTransaction(op.TransactionHash)
	if err != nil {
		return nil, err
	}
	if int(op.OutputIndex) >= len(tx.Outputs) {
		return nil, fmt.Errorf("output index %d out of range", op.OutputIndex)
	}
	return tx.Outputs[op.OutputIndex], nil
}

// ---------------------------------------------------------------- deposits

// c26kitDeposit makes a deposit (without UTXO) for the given keys.
func c26kitDeposit(rng *rand.Rand, walletPKH, refundPKH [20]byte, locktime [4]byte, extra bool) *Deposit {
	dep := c26kitRand20(rng)
	addr := hex.EncodeToString(dep[:])
	switch rng.Intn(3) {
	case 0:
		addr = "0x" + addr
	case 1:
		addr = "0x" + strings.ToUpper(addr)
	}
	d := &Deposit{
		Depositor:           chain.Address(addr),
		WalletPublicKeyHash: walletPKH,
		RefundPublicKeyHash: refundPKH,
		RefundLocktime:      locktime,
	}
	rng.Read(d.BlindingFactor[:])
	// degenerate but legal field values: a field that is present is present
	// whatever its bytes are
	switch rng.Intn(8) {
	case 0:
		d.BlindingFactor = [8]byte{}
	case 1:
		d.BlindingFactor = [8]byte{0, 0, 0, 0, 0, 0, 0, 1}
	}
	if extra {
		var e [32]byte
		switch rng.Intn(6) {
		case 0: // all zero
		case 1:
			e[31] = 1
		case 2:
			e[0] = 0x80
		case 3:
			for k := range e {
				e[k] = 0xff
			}
		default:
			rng.Read(e[:])
		}
		d.ExtraData = &e
	}
	return d
}

func c26kitLocktimeBytes(v uint32) (b [4]byte) {
	b[0], b[1], b[2], b[3] = byte(v), byte(v>>8), byte(v>>16), byte(v>>24)
	return
}

// ---------------------------------------------------------------- btcd bridge

func c26kitMsgTx(tx *bitcoin.Transaction) *wire.MsgTx {
	m := &wire.MsgTx{Version: tx.Version, LockTime: tx.Locktime}
	for _, in := range tx.Inputs {
		ti := &wire.TxIn{
			PreviousOutPoint: wire.OutPoint{Hash: chainhash.Hash(in.Outpoint.TransactionHash), Index: in.Outpoint.OutputIndex},
			SignatureScript:  in.SignatureScript,
			Sequence:         in.Sequence,
		}
		for _, w := range in.Witness {
			ti.Witness = append(ti.Witness, w)
		}
		m.TxIn = append(m.TxIn, ti)
	}
	for _, out := range tx.Outputs {
		m.TxOut = append(m.TxOut, &wire.TxOut{Value: out.Value, PkScript: out.PublicKeyScript})
	}
	return m
}

// c26kitExecute runs input idx of msg against the previous output in btcd's
// script interpreter.
func c26kitExecute(msg *wire.MsgTx, hc *txscript.TxSigHashes, idx int, pkScript []byte, value int64, flags txscript.ScriptFlags) error {
	vm, err := txscript.NewEngine(pkScript, msg, idx, flags, nil, hc, value)
	if err != nil {
		return err
	}
	return vm.Execute()
}

// c26kitVerifyAll executes every input of the signed transaction against the
// previous outputs held by the chain under the standard verification flags.
func c26kitVerifyAll(lbc *localBitcoinChain, tx *bitcoin.Transaction) (failedInput int, err error) {
	msg := c26kitMsgTx(tx)
	hc := txscript.NewTxSigHashes(msg)
	for i, in := range tx.Inputs {
		prev, err := c26kitPrevOut(lbc, in.Outpoint)
		if err != nil {
			return i, err
		}
		if err := c26kitExecute(msg, hc, i, prev.PublicKeyScript, prev.Value, txscript.StandardVerifyFlags); err != nil {
			return i, err
		}
	}
	return -1, nil
}

// ---------------------------------------------------------------- scenarios

type c26kitScenario struct {
	Kind   string // sweep | redemption | movingfunds | movedsweep
	Chain  *localBitcoinChain
	Wallet *c26kitKey
	Fee    int64

	// Intended inputs, in order, and the kind of each (P2PKH, P2WPKH, P2SH, P2WSH).
	Inputs     []*bitcoin.UnspentTransactionOutput
	InputKinds []string

	MainUtxo *bitcoin.UnspentTransactionOutput
	Deposits []*Deposit

	Requests []*RedemptionRequest
	Shape    int // -1 = argument omitted, 0 = change first, 1 = change last
	Change   int64

	Targets [][20]byte

	MovedUtxo *bitcoin.UnspentTransactionOutput

	// Observed facts used by the non-triviality rule.
	Remainder  bool
	ZeroChange bool
}

func (s *c26kitScenario) Desc() string {
	var b strings.Builder
	fmt.Fprintf(&b, "%s wallet=%x fee=%d inputs=[", s.Kind, s.Wallet.PKH[:4], s.Fee)
	for i, in := range s.Inputs {
		fmt.Fprintf(&b, "%s:%d ", s.InputKinds[i], in.Value)
	}
	b.WriteString("]")
	switch s.Kind {
	case "sweep":
		b.WriteString(" extra=[")
		for _, d := range s.Deposits {
			if d.ExtraData != nil {
				b.WriteString("1")
			} else {
				b.WriteString("0")
			}
		}
		b.WriteString("]")
	case "redemption":
		fmt.Fprintf(&b, " shape=%d change=%d requests=[", s.Shape, s.Change)
		for _, q := range s.Requests {
			fmt.Fprintf(&b, "%d-%d/%dB ", q.RequestedAmount, q.TreasuryFee, len(q.RedeemerOutputScript))
		}
		b.WriteString("]")
	case "movingfunds":
		fmt.Fprintf(&b, " targets=%d", len(s.Targets))
	}
	return b.String()
}

// Build calls the production assembly function of the scenario. It may be
// called repeatedly; each call gives a fresh builder.
func (s *c26kitScenario) Build() (*bitcoin.TransactionBuilder, error) {
	return s.BuildOn(s.Chain)
}

// BuildOn assembles the scenario's transaction with the production function,
// reading previous transactions through the given chain handle.
func (s *c26kitScenario) BuildOn(ch bitcoin.Chain) (*bitcoin.TransactionBuilder, error) {
	switch s.Kind {
	case "sweep":
		return assembleDepositSweepTransaction(ch, s.Wallet.Pub, s.MainUtxo, s.Deposits, s.Fee)
	case "redemption":
		fd := withRedemptionTotalFee(s.Fee)
		switch s.Shape {
		case 0:
			return assembleRedemptionTransaction(ch, s.Wallet.Pub, s.MainUtxo, s.Requests, fd, RedemptionChangeFirst)
		case 1:
			return assembleRedemptionTransaction(ch, s.Wallet.Pub, s.MainUtxo, s.Requests, fd, RedemptionChangeLast)
		default:
			return assembleRedemptionTransaction(ch, s.Wallet.Pub, s.MainUtxo, s.Requests, fd)
		}
	case "movingfunds":
		return assembleMovingFundsTransaction(ch, s.MainUtxo, s.Targets, s.Fee)
	case "movedsweep":
		return assembleMovedFundsSweepTransaction(ch, s.Wallet.Pub, s.MovedUtxo, s.MainUtxo, s.Fee)
	}
	return nil, fmt.Errorf("unknown kind %q", s.Kind)
}

// c26kitFaultChain fails the GetTransaction call with the given ordinal.
type c26kitFaultChain struct {
	bitcoin.Chain
	FailAt int
	Calls  int
	Failed int
}

func (c *c26kitFaultChain) GetTransaction(h bitcoin.Hash) (*bitcoin.Transaction, error) {
	c.Calls++
	if c.Calls == c.FailAt {
		c.Failed++
		return nil, fmt.Errorf("c26kit: scripted bitcoin client failure")
	}
	return c.Chain.GetTransaction(h)
}

// c26kitMain funds a main UTXO of the wallet: kind 0 = none, 1 = P2PKH,
// 2 = P2WPKH.
func c26kitMain(s *c26kitScenario, rng *rand.Rand, kind int, value int64) {
	switch kind {
	case 1:
		s.MainUtxo = c26kitFund(s.Chain, rng, c26kitP2PKH(s.Wallet.PKH), value)
		s.Inputs = append(s.Inputs, s.MainUtxo)
		s.InputKinds = append(s.InputKinds, "P2PKH")
	case 2:
		s.MainUtxo = c26kitFund(s.Chain, rng, c26kitP2WPKH(s.Wallet.PKH), value)
		s.Inputs = append(s.Inputs, s.MainUtxo)
		s.InputKinds = append(s.InputKinds, "P2WPKH")
	}
}

func c26kitFee(rng *rand.Rand, total int64) int64 {
	switch rng.Intn(8) {
	case 0:
		return 0
	case 1:
		return total // everything burnt: output of zero
	case 2:
		return 1
	default:
		cap := total
		if cap > 200_000 && rng.Intn(3) > 0 {
			cap = 200_000
		}
		return rng.Int63n(cap + 1)
	}
}

func c26kitSweepScenario(rng *rand.Rand) *c26kitScenario {
	s := &c26kitScenario{Kind: "sweep", Chain: newLocalBitcoinChain(), Wallet: c26kitNewKey(rng)}
	total := int64(0)
	if k := rng.Intn(3); k > 0 {
		v := c26kitAmount(rng)
		c26kitMain(s, rng, k, v)
		total += v
	}
	n := 1 + rng.Intn(20)
	if rng.Intn(5) == 0 {
		n = 1 + rng.Intn(3)
	}
	for i := 0; i < n; i++ {
		refund := c26kitRand20(rng)
		d := c26kitDeposit(rng, s.Wallet.PKH, refund, c26kitLocktimeBytes(1_600_000_000+uint32(rng.Intn(400_000_000))), rng.Intn(2) == 0)
		script, err := d.Script()
		if err != nil {
			panic(err)
		}
		v := c26kitAmount(rng)
		if rng.Intn(2) == 0 {
			d.Utxo = c26kitFund(s.Chain, rng, c26kitP2SH(script), v)
			s.InputKinds = append(s.InputKinds, "P2SH")
		} else {
			d.Utxo = c26kitFund(s.Chain, rng, c26kitP2WSH(script), v)
			s.InputKinds = append(s.InputKinds, "P2WSH")
		}
		s.Deposits = append(s.Deposits, d)
		s.Inputs = append(s.Inputs, d.Utxo)
		total += v
	}
	s.Fee = c26kitFee(rng, total)
	return s
}

func c26kitRedemptionScenario(rng *rand.Rand) *c26kitScenario {
	s := &c26kitScenario{Kind: "redemption", Chain: newLocalBitcoinChain(), Wallet: c26kitNewKey(rng)}
	n := 1 + rng.Intn(20)
	if rng.Intn(5) == 0 {
		n = 1 + rng.Intn(3)
	}
	minRedeemable := int64(-1)
	sum := int64(0)
	seen := map[string]bool{}
	for i := 0; i < n; i++ {
		var script []byte
		for {
			script = c26kitRandomOutputScript(rng, rng.Intn(4))
			if !seen[string(script)] {
				seen[string(script)] = true
				break
			}
		}
		redeemable := int64(2*n) + c26kitAmount(rng)
		treasury := int64(0)
		if rng.Intn(3) > 0 {
			treasury = rng.Int63n(redeemable/50 + 2)
		}
		red := c26kitRand20(rng)
		s.Requests = append(s.Requests, &RedemptionRequest{
			Redeemer:             chain.Address("0x" + hex.EncodeToString(red[:])),
			RedeemerOutputScript: script,
			RequestedAmount:      uint64(redeemable + treasury),
			TreasuryFee:          uint64(treasury),
			TxMaxFee:             uint64(redeemable),
		})
		sum += redeemable
		if minRedeemable < 0 || redeemable < minRedeemable {
			minRedeemable = redeemable
		}
	}
	// every fee share (the largest is per + rem) stays below the smallest
	// redeemable amount, so no output is negative
	per := rng.Int63n(minRedeemable - int64(n) + 1)
	if per > 50_000 && rng.Intn(3) > 0 {
		per = rng.Int63n(50_000)
	}
	rem := int64(0)
	if n > 1 && rng.Intn(4) > 0 {
		rem = 1 + rng.Int63n(int64(n)-1)
	}
	if rng.Intn(12) == 0 {
		per, rem = 0, 0
	}
	s.Fee = per*int64(n) + rem
	s.Remainder = rem != 0
	switch rng.Intn(4) {
	case 0:
		s.Change = 0
	case 1:
		s.Change = 1 + rng.Int63n(3)
	default:
		s.Change = c26kitAmount(rng)
	}
	s.ZeroChange = s.Change == 0
	s.Shape = rng.Intn(3) - 1
	c26kitMain(s, rng, 1+rng.Intn(2), sum+s.Change)
	return s
}

func c26kitMovingFundsScenario(rng *rand.Rand) *c26kitScenario {
	s := &c26kitScenario{Kind: "movingfunds", Chain: newLocalBitcoinChain(), Wallet: c26kitNewKey(rng)}
	n := 1 + rng.Intn(10)
	seen := map[[20]byte]bool{}
	for len(s.Targets) < n {
		h := c26kitRand20(rng)
		if !seen[h] && h != s.Wallet.PKH {
			seen[h] = true
			s.Targets = append(s.Targets, h)
		}
	}
	per := c26kitAmount(rng)
	rem := int64(0)
	if n > 1 && rng.Intn(4) > 0 {
		rem = 1 + rng.Int63n(int64(n)-1)
	}
	if rng.Intn(15) == 0 {
		per = 0
	}
	out := per*int64(n) + rem
	fee := int64(0)
	if rng.Intn(8) > 0 {
		fee = 1 + rng.Int63n(300_000)
	}
	if out+fee == 0 {
		fee = 1
	}
	s.Fee = fee
	s.Remainder = rem != 0
	c26kitMain(s, rng, 1+rng.Intn(2), out+fee)
	return s
}

func c26kitMovedSweepScenario(rng *rand.Rand) *c26kitScenario {
	s := &c26kitScenario{Kind: "movedsweep", Chain: newLocalBitcoinChain(), Wallet: c26kitNewKey(rng)}
	v := c26kitAmount(rng)
	var moved *bitcoin.UnspentTransactionOutput
	if rng.Intn(4) == 0 {
		moved = c26kitFund(s.Chain, rng, c26kitP2PKH(s.Wallet.PKH), v)
		s.InputKinds = append(s.InputKinds, "P2PKH")
	} else {
		moved = c26kitFund(s.Chain, rng, c26kitP2WPKH(s.Wallet.PKH), v)
		s.InputKinds = append(s.InputKinds, "P2WPKH")
	}
	// the production helper reads the value from the chain
	u, err := assembleMovedFundsSweepUtxo(s.Chain, moved.Outpoint.TransactionHash, moved.Outpoint.OutputIndex)
	if err != nil {
		panic(err)
	}
	s.MovedUtxo = u
	s.Inputs = append(s.Inputs, moved)
	total := v
	if k := rng.Intn(3); k > 0 {
		mv := c26kitAmount(rng)
		c26kitMain(s, rng, k, mv)
		total += mv
	}
	s.Fee = c26kitFee(rng, total)
	return s
}

func c26kitScenarioFor(kind int, rng *rand.Rand) *c26kitScenario {
	switch kind % 4 {
	case 0:
		return c26kitSweepScenario(rng)
	case 1:
		return c26kitRedemptionScenario(rng)
	case 2:
		return c26kitMovingFundsScenario(rng)
	default:
		return c26kitMovedSweepScenario(rng)
	}
}

// c26kitSignAll signs every signature hash of the builder with the key and
// applies the signatures.
func c26kitSignAll(b *bitcoin.TransactionBuilder, key *c26kitKey, rng *rand.Rand, mode func(i int) c26kitSigMode) (*bitcoin.Transaction, []*bitcoin.SignatureContainer, []*big.Int, error) {
	hashes, err := b.ComputeSignatureHashes()
	if err != nil {
		return nil, nil, nil, err
	}
	sigs := make([]*bitcoin.SignatureContainer, len(hashes))
	for i, h := range hashes {
		r, s := c26kitSign(key, h, rng, mode(i))
		sigs[i] = &bitcoin.SignatureContainer{R: r, S: s, PublicKey: key.Pub}
	}
	tx, err := b.AddSignatures(sigs)
	return tx, sigs, hashes, err
}
