//go:build verif

package tbtc

import (
	"crypto/ecdsa"
	"encoding/binary"
	"encoding/hex"
	"fmt"
	"math/rand"
	"strings"
	"sync/atomic"
	"testing"

	"github.com/keep-network/keep-core/internal/verifkit"
	"github.com/keep-network/keep-core/pkg/chain"
	"github.com/keep-network/keep-core/pkg/protocol/group"
	"github.com/keep-network/keep-core/pkg/tecdsa"
)

// c22Chain is a member's view of the host chain: only block hashes are ever
// asked for by the code under test (getSeed). Every other method of the
// embedded (nil) interface would panic, which r.Guard turns into a finding.
type c22Chain struct {
	Chain
	hashes map[uint64][32]byte
	asked  []uint64
}

func (c *c22Chain) GetBlockHashByNumber(n uint64) ([32]byte, error) {
	c.asked = append(c.asked, n)
	h, ok := c.hashes[n]
	if !ok {
		return [32]byte{}, fmt.Errorf("block not found")
	}
	return h, nil
}

func c22Address(rng *rand.Rand, prefix string) chain.Address {
	b := make([]byte, 20)
	rng.Read(b)
	s := hex.EncodeToString(b)
	if prefix != "" {
		s = prefix + s[len(prefix):]
	}
	return chain.Address("0x" + s)
}

func c22WalletKey(rng *rand.Rand) *ecdsa.PublicKey {
	d := make([]byte, 32)
	rng.Read(d)
	d[0] &= 0x7f // below the group order
	d[31] |= 1   // non-zero
	x, y := tecdsa.Curve.ScalarBaseMult(d)
	return &ecdsa.PublicKey{Curve: tecdsa.Curve, X: x, Y: y}
}

// c22ExpectedChecklist is the reference model of the property statement.
func c22ExpectedChecklist(windowIndex uint64, seed [32]byte) []WalletActionType {
	out := []WalletActionType{ActionRedemption}
	if windowIndex%4 == 0 {
		out = append(out, ActionDepositSweep, ActionMovedFundsSweep, ActionMovingFunds)
	}
	// the seeded draw, recomputed with the monitor's own generator
	draw := rand.New(rand.NewSource(int64(binary.BigEndian.Uint64(seed[:8])))).Float64()
	if draw < 0.0625 {
		out = append(out, ActionHeartbeat)
	}
	return out
}

func c22ChecklistEq(a, b []WalletActionType) bool {
	if len(a) != len(b) {
		return false
	}
	for i := range a {
		if a[i] != b[i] {
			return false
		}
	}
	return true
}

func c22WindowIndex(rng *rand.Rand) uint64 {
	switch rng.Intn(6) {
	case 0:
		return uint64(1 + rng.Intn(12))
	case 1:
		return uint64(4 * (1 + rng.Intn(250000)))
	case 2:
		return uint64(4*(1+rng.Intn(250000))) - uint64(1+rng.Intn(3))
	case 3:
		return 1000000 - uint64(rng.Intn(8))
	default:
		return uint64(1 + rng.Intn(1000000))
	}
}

type c22View struct {
	kind      string // "base", "perm", "reseat"
	operators []chain.Address
	self      chain.Address
}

// TestVerif_C22_Leader compares what differently ordered / differently
// seated member views compute for the same wallet, window and safe block.
func TestVerif_C22_Leader(t *testing.T) {
	r := verifkit.Start(t, "C22", "leader")
	defer r.Finish()
	r.SetRule("per case: 1-30 operators on 1-100 seats (PRNG addresses, some sharing long prefixes), window index 1..10^6 (biased to multiples of 4 and their neighbours), PRNG wallet key and safe-block hash; 3-6 member views = permutations of the seat list and re-seatings of the same operator set, each with its own chain view that agrees only on the safe block hash (decoy hashes elsewhere), each evaluated twice. non-trivial = at least two views that differ as sequences were compared and some operator holds more than one seat")
	r.Assume("a member's local view of a wallet is a seat list over the wallet's operator set; the safe block is coordination block - 32 (coordinationSafeBlockShift)")

	n := r.N(20000, 400000)
	var heartbeats, quads int64
	verifkit.Parallel(n, 0, func(i int) {
		rng := r.SubRand("case", i)
		nOps := 1 + rng.Intn(30)
		if rng.Intn(4) == 0 {
			nOps = 1 + rng.Intn(4)
		}
		nSeats := nOps + rng.Intn(100-nOps+1)
		if rng.Intn(5) == 0 {
			nSeats = nOps // no repeated seat
		}
		prefix := ""
		if rng.Intn(3) == 0 {
			prefix = strings.Repeat("a", 30+rng.Intn(9))
		}
		ops := make([]chain.Address, nOps)
		seen := map[chain.Address]bool{}
		for k := range ops {
			for {
				ops[k] = c22Address(rng, prefix)
				if !seen[ops[k]] {
					seen[ops[k]] = true
					break
				}
			}
		}
		seats := append([]chain.Address(nil), ops...)
		for len(seats) < nSeats {
			seats = append(seats, ops[rng.Intn(nOps)])
		}
		rng.Shuffle(len(seats), func(a, b int) { seats[a], seats[b] = seats[b], seats[a] })

		idx := c22WindowIndex(rng)
		block := idx * coordinationFrequencyBlocks
		var safeHash [32]byte
		rng.Read(safeHash[:])
		key := c22WalletKey(rng)

		views := []c22View{{kind: "base", operators: seats}}
		nViews := 3 + rng.Intn(4)
		for v := 1; v < nViews; v++ {
			if rng.Intn(3) == 0 {
				// same operator set, different repetition
				m := nOps + rng.Intn(100-nOps+1)
				rs := append([]chain.Address(nil), ops...)
				for len(rs) < m {
					rs = append(rs, ops[rng.Intn(nOps)])
				}
				rng.Shuffle(len(rs), func(a, b int) { rs[a], rs[b] = rs[b], rs[a] })
				views = append(views, c22View{kind: "reseat", operators: rs})
			} else {
				p := append([]chain.Address(nil), seats...)
				switch rng.Intn(4) {
				case 0: // reversed
					for a, b := 0, len(p)-1; a < b; a, b = a+1, b-1 {
						p[a], p[b] = p[b], p[a]
					}
				case 1: // rotated
					k := rng.Intn(len(p))
					p = append(p[k:], p[:k]...)
				default:
					rng.Shuffle(len(p), func(a, b int) { p[a], p[b] = p[b], p[a] })
				}
				views = append(views, c22View{kind: "perm", operators: p})
			}
		}
		desc := fmt.Sprintf("case=%d ops=%d seats=%d window=%d safeHash=%x walletX=%x views=%d prefix=%d", i, nOps, nSeats, idx, safeHash[:6], key.X.Bytes()[:6], nViews, len(prefix))

		inSet := func(a chain.Address) bool { return seen[a] }
		type res struct {
			seed      [32]byte
			leader    chain.Address
			checklist []WalletActionType
		}
		var results []res
		differ := false
		failed := false
		for vi, v := range views {
			v.self = v.operators[rng.Intn(len(v.operators))]
			w := wallet{publicKey: key, signingGroupOperators: append([]chain.Address(nil), v.operators...)}
			// decoy hashes: only the safe block agrees between members
			ch := &c22Chain{hashes: map[uint64][32]byte{}}
			for _, bn := range []uint64{block, block - 1, block - 31, block - 33, block - 64, block + 32, block - 32 - 900, block - 32 + 900, 0, 32} {
				var h [32]byte
				rng.Read(h[:])
				ch.hashes[bn] = h
			}
			ch.hashes[block-coordinationSafeBlockShift] = safeHash
			var own []group.MemberIndex
			for s, a := range v.operators {
				if a == v.self {
					own = append(own, group.MemberIndex(s+1))
				}
			}
			ex := &coordinationExecutor{
				chain:             ch,
				coordinatedWallet: w,
				membersIndexes:    own,
				operatorAddress:   v.self,
			}
			for rep := 0; rep < 2; rep++ {
				var got res
				var err error
				vdescFn := func() string {
					return fmt.Sprintf("%s view=%d(%s) rep=%d operators=%v", desc, vi, v.kind, rep, v.operators)
				}
				if r.Guard("leader:", desc, func() {
					got.seed, err = ex.getSeed(block)
					if err != nil {
						return
					}
					got.leader = ex.getLeader(got.seed)
					got.checklist = ex.getActionsChecklist(newCoordinationWindow(block).index(), got.seed)
				}) {
					failed = true
					continue
				}
				if err != nil {
					r.Violation("leader:seed-error", "getSeed failed although the safe block hash is known: "+err.Error(), vdescFn(), ch.asked)
					failed = true
					continue
				}
				if !inSet(got.leader) {
					r.Violation("leader:not-an-operator", fmt.Sprintf("leader %q is not one of the wallet's operators", got.leader), vdescFn(), nil)
				}
				want := c22ExpectedChecklist(idx, got.seed)
				if !c22ChecklistEq(got.checklist, want) {
					r.Violation("checklist:model", fmt.Sprintf("checklist %v, statement gives %v for window index %d", got.checklist, want, idx), vdescFn(), hex.EncodeToString(got.seed[:]))
				}
				if len(results) > 0 {
					b := results[0]
					if got.seed != b.seed {
						r.Violation("leader:seed-differs", "two members with the same wallet, window and safe block hash derive different seeds", vdescFn(), []string{hex.EncodeToString(b.seed[:]), hex.EncodeToString(got.seed[:])})
					}
					if got.leader != b.leader {
						r.Violation("leader:differs:"+v.kind, fmt.Sprintf("leader %q in this view, %q in the base view", got.leader, b.leader), vdescFn(), views[0].operators)
					}
					if !c22ChecklistEq(got.checklist, b.checklist) {
						r.Violation("checklist:differs", fmt.Sprintf("checklist %v in this view, %v in the base view", got.checklist, b.checklist), vdescFn(), nil)
					}
				}
				results = append(results, got)
			}
			if vi > 0 {
				if len(v.operators) != len(views[0].operators) {
					differ = true
				} else {
					for s := range v.operators {
						if v.operators[s] != views[0].operators[s] {
							differ = true
							break
						}
					}
				}
			}
		}
		if failed || len(results) == 0 {
			r.Case(desc, false)
			return
		}
		r.Case(desc, differ && nSeats > nOps && len(results) >= 4)
		if idx%4 == 0 {
			atomic.AddInt64(&quads, 1)
		}
		for _, a := range results[0].checklist {
			if a == ActionHeartbeat {
				atomic.AddInt64(&heartbeats, 1)
			}
		}
		r.SampleAt(i, n, func() interface{} {
			return map[string]interface{}{"operators": nOps, "seats": nSeats, "window_index": idx, "views": nViews,
				"leader": results[0].leader, "checklist": fmt.Sprint(results[0].checklist), "seed": hex.EncodeToString(results[0].seed[:8])}
		})
	})
	r.Count("cases_with_heartbeat", heartbeats)
	r.Count("cases_every_fourth_window", quads)
}

// TestVerif_C22_Checklist drives getActionsChecklist alone over arbitrary
// seeds and window indices and measures the heartbeat frequency.
func TestVerif_C22_Checklist(t *testing.T) {
	r := verifkit.Start(t, "C22", "checklist")
	defer r.Finish()
	r.SetRule("PRNG 32-byte seeds (plus seeds whose first 8 bytes are 0, 1, max, min) x window indices 1..10^6 and near 2^64/900; checklist compared with the statement's model, heartbeat with the monitor's own seeded draw; heartbeat frequency over all seeds must be 6.25% +- 0.5%. non-trivial = every case (each is a distinct seed/index pair checked against the model)")
	n := r.N(100000, 2000000)
	ex := &coordinationExecutor{}
	var hb int64
	const chunk = 1000
	verifkit.Parallel(n/chunk, 0, func(c int) {
		rng := r.SubRand("seed", c)
		local := int64(0)
		for k := 0; k < chunk; k++ {
			var seed [32]byte
			rng.Read(seed[:])
			idx := c22WindowIndex(rng)
			if k == 0 {
				idx = (^uint64(0))/coordinationFrequencyBlocks - uint64(rng.Intn(8))
			}
			special := false
			if k < 4 && c == 0 {
				binary.BigEndian.PutUint64(seed[:8], []uint64{0, 1, 1<<63 - 1, 1 << 63}[k])
				special = true
			}
			desc := fmt.Sprintf("seed=%x window=%d", seed[:8], idx)
			var got []WalletActionType
			if r.Guard("checklist:", desc, func() { got = ex.getActionsChecklist(idx, seed) }) {
				continue
			}
			r.Case(desc, true)
			want := c22ExpectedChecklist(idx, seed)
			if !c22ChecklistEq(got, want) {
				r.Violation("checklist:model", fmt.Sprintf("checklist %v, statement gives %v for window index %d", got, want, idx), desc, nil)
			}
			if len(got) == 0 || got[0] != ActionRedemption {
				r.Violation("checklist:first-not-redemption", fmt.Sprintf("checklist %v does not start with redemption", got), desc, nil)
			}
			if !special && len(got) > 0 && got[len(got)-1] == ActionHeartbeat {
				local++
			}
		}
		atomic.AddInt64(&hb, local)
	})
	total := int64(n/chunk) * chunk
	freq := float64(hb) / float64(total)
	r.Count("heartbeats", hb)
	r.Count("seeds", total)
	r.Sample(map[string]interface{}{"seeds": total, "heartbeats": hb, "frequency": freq})
	if freq < 0.0575 || freq > 0.0675 {
		r.Violation("checklist:heartbeat-frequency", fmt.Sprintf("heartbeat drawn for %.4f of %d seeds, expected 0.0625 +- 0.005", freq, total), "all seeds of the run", freq)
	}
}
