//go:build verif

package tbtc

import (
	"bytes"
	"context"
	"crypto/ecdsa"
	"fmt"
	"math/big"
	"math/rand"
	"sort"
	"sync"
	"sync/atomic"
	"testing"
	"time"

	"google.golang.org/protobuf/proto"

	"github.com/keep-network/keep-core/internal/testutils"
	"github.com/keep-network/keep-core/internal/verifkit"
	"github.com/keep-network/keep-core/pkg/chain"
	"github.com/keep-network/keep-core/pkg/chain/local_v1"
	"github.com/keep-network/keep-core/pkg/internal/tecdsatest"
	"github.com/keep-network/keep-core/pkg/net"
	"github.com/keep-network/keep-core/pkg/operator"
	"github.com/keep-network/keep-core/pkg/protocol/group"
	"github.com/keep-network/keep-core/pkg/protocol/inactivity"
	inactivitypb "github.com/keep-network/keep-core/pkg/protocol/inactivity/gen/pb"
	"github.com/keep-network/keep-core/pkg/tecdsa"
	"github.com/keep-network/keep-core/pkg/tecdsa/dkg"
	dkgpb "github.com/keep-network/keep-core/pkg/tecdsa/dkg/gen/pb"
)

// ---------------------------------------------------------------------------
// C13 (tbtc part).
//  A. Threshold gates: dkgResultSubmitter.SubmitResult and
//     inactivityClaimSubmitter.SubmitClaim are called with supporter maps of
//     every size around GroupQuorum / HonestThreshold against a recording
//     chain; submission must happen iff the size reaches the threshold and the
//     chain must receive exactly the given map.
//  B. End to end: dkg.Publish / inactivity.PublishClaim are run with the real
//     tbtc signers and submitters on a scripted broadcast channel that delivers
//     a generated history (messages crafted through the packages' own
//     unmarshalers from protobuf bytes, signed with the real tbtc signers of
//     the other operators). Verdicts in B are one-directional (nothing
//     unsupported is counted; the gate is judged on the map the submitter
//     received), so a message lost to scheduling can never raise an alarm.
// ---------------------------------------------------------------------------

const c13Watchdog = 90 * time.Second

type c13Msg struct {
	payload interface{}
	key     []byte
	typ     string
}

func (m *c13Msg) TransportSenderID() net.TransportIdentifier { return nil }
func (m *c13Msg) SenderPublicKey() []byte                    { return m.key }
func (m *c13Msg) Payload() interface{}                       { return m.payload }
func (m *c13Msg) Type() string                               { return m.typ }
func (m *c13Msg) Seqno() uint64                              { return 0 }

// c13Chan is a scripted broadcast channel: it remembers the unmarshalers the
// protocol packages register and hands the script to the first handler.
type c13Chan struct {
	mu        sync.Mutex
	factories map[string]func() net.TaggedUnmarshaler
	script    []net.Message
	delivered bool
	sent      int
}

func (c *c13Chan) Name() string { return "c13" }
func (c *c13Chan) Send(ctx context.Context, m net.TaggedMarshaler, _ ...net.RetransmissionStrategy) error {
	c.mu.Lock()
	c.sent++
	c.mu.Unlock()
	return nil
}
func (c *c13Chan) Recv(ctx context.Context, h func(net.Message)) {
	c.mu.Lock()
	first := !c.delivered
	c.delivered = true
	c.mu.Unlock()
	if first {
		for _, s := range c.script {
			h(s)
		}
	}
}
func (c *c13Chan) SetUnmarshaler(f func() net.TaggedUnmarshaler) {
	if c.factories == nil {
		c.factories = map[string]func() net.TaggedUnmarshaler{}
	}
	c.factories[f().Type()] = f
}
func (c *c13Chan) SetFilter(filter net.BroadcastChannelFilter) error { return nil }

// c13Chain wraps a localChain (which supplies signing and hashing for one
// operator key) and records what the submitters hand to the chain.
type c13Chain struct {
	*localChain
	mu             sync.Mutex
	dkgAssembled   []map[group.MemberIndex][]byte
	dkgSubmitted   []*DKGChainResult
	claimAssembled []map[group.MemberIndex][]byte
	claimSubmitted []*InactivityClaim
}

func c13CopyMap(m map[group.MemberIndex][]byte) map[group.MemberIndex][]byte {
	cp := map[group.MemberIndex][]byte{}
	for k, v := range m {
		cp[k] = append([]byte(nil), v...)
	}
	return cp
}

func (c *c13Chain) GetDKGState() (DKGState, error)               { return AwaitingResult, nil }
func (c *c13Chain) IsDKGResultValid(*DKGChainResult) (bool, error) { return true, nil }
func (c *c13Chain) AssembleDKGResult(submitter group.MemberIndex, pk *ecdsa.PublicKey, operating []group.MemberIndex,
	misbehaved []group.MemberIndex, signatures map[group.MemberIndex][]byte, gsr *GroupSelectionResult) (*DKGChainResult, error) {
	c.mu.Lock()
	c.dkgAssembled = append(c.dkgAssembled, c13CopyMap(signatures))
	c.mu.Unlock()
	return c.localChain.AssembleDKGResult(submitter, pk, operating, misbehaved, signatures, gsr)
}
func (c *c13Chain) SubmitDKGResult(res *DKGChainResult) error {
	c.mu.Lock()
	c.dkgSubmitted = append(c.dkgSubmitted, res)
	c.mu.Unlock()
	return nil
}
func (c *c13Chain) GetWallet([20]byte) (*WalletChainData, error) {
	return &WalletChainData{EcdsaWalletID: [32]byte{7}}, nil
}
func (c *c13Chain) GetInactivityClaimNonce([32]byte) (*big.Int, error) { return big.NewInt(0), nil }
func (c *c13Chain) AssembleInactivityClaim(walletID [32]byte, inactive []group.MemberIndex,
	signatures map[group.MemberIndex][]byte, heartbeatFailed bool) (*InactivityClaim, error) {
	c.mu.Lock()
	c.claimAssembled = append(c.claimAssembled, c13CopyMap(signatures))
	c.mu.Unlock()
	return c.localChain.AssembleInactivityClaim(walletID, inactive, signatures, heartbeatFailed)
}
func (c *c13Chain) SubmitInactivityClaim(claim *InactivityClaim, nonce *big.Int, members []uint32) error {
	c.mu.Lock()
	c.claimSubmitted = append(c.claimSubmitted, claim)
	c.mu.Unlock()
	return nil
}

// recording wrappers around the real submitters (end-to-end part)
type c13DkgSubmitter struct {
	real *dkgResultSubmitter
	got  []map[group.MemberIndex][]byte
	errs []error
}

func (s *c13DkgSubmitter) SubmitResult(ctx context.Context, idx group.MemberIndex, res *dkg.Result, sigs map[group.MemberIndex][]byte) error {
	s.got = append(s.got, c13CopyMap(sigs))
	err := s.real.SubmitResult(ctx, idx, res, sigs)
	s.errs = append(s.errs, err)
	return err
}

type c13ClaimSubmitter struct {
	real *inactivityClaimSubmitter
	got  []map[group.MemberIndex][]byte
	errs []error
}

func (s *c13ClaimSubmitter) SubmitClaim(ctx context.Context, idx group.MemberIndex, claim *inactivity.ClaimPreimage, sigs map[group.MemberIndex][]byte) error {
	s.got = append(s.got, c13CopyMap(sigs))
	err := s.real.SubmitClaim(ctx, idx, claim, sigs)
	s.errs = append(s.errs, err)
	return err
}

func c13Now(ctx context.Context, block uint64) error { return nil }

type c13World struct {
	N         int
	Seats     []int // seat -> operator key id
	Receiver  int
	Excluded  map[int]string // member -> "IA" | "DQ"
	Threshold int
}

// c13Spec describes one message of a history by construction.
type c13Spec struct {
	Kind    string
	Claimed int
	Net     int    // key id of the network-level sender
	Pay     int    // key id named in the payload, -1 = garbage bytes
	Hash    int    // 0 own, 1 other
	SigBy   int    // key id that produced the signature
	SigVar  int    // which of the two stored signatures
	Corrupt string // "", "flip", "truncate", "empty"
	Session string // "own", "other"
}

func (w c13World) held(key, claimed int) bool {
	return claimed >= 1 && claimed <= w.N && w.Seats[claimed-1] == key
}

func (w c13World) admissionReason(s c13Spec) string {
	switch {
	case !w.held(s.Net, s.Claimed):
		return "non-member-or-foreign-index"
	case s.Claimed == w.Receiver:
		return "own-index"
	case w.Excluded[s.Claimed] != "":
		return "excluded-member"
	case s.Pay != s.Net:
		return "foreign-key"
	case s.Session != "own":
		return "other-session"
	}
	return ""
}

func (s c13Spec) validSig() bool { return s.Corrupt == "" && s.SigBy == s.Pay && s.Pay >= 0 }

// c13Reference computes the expected supporter set (member -> index of the
// history message whose signature counts) under the documented rule of this
// package: messages are de-duplicated per sender keeping the first admitted
// one; it counts when its hash matches and its signature verifies. reason[m]
// explains why a member with traffic is not a supporter.
func c13Reference(w c13World, hist []c13Spec) (set map[int]int, reason map[int]string) {
	set, reason = map[int]int{}, map[int]string{}
	first := map[int]int{}
	for i, s := range hist {
		if why := w.admissionReason(s); why != "" {
			if _, ok := reason[s.Claimed]; !ok {
				reason[s.Claimed] = why
			}
			continue
		}
		if _, ok := first[s.Claimed]; !ok {
			first[s.Claimed] = i
		}
	}
	for m, i := range first {
		switch {
		case hist[i].Hash != 0:
			reason[m] = "first-message-conflicting-hash"
		case !hist[i].validSig():
			reason[m] = "first-message-invalid-signature"
		default:
			set[m] = i
			delete(reason, m)
		}
	}
	return
}

func c13GenWorld(rng *rand.Rand, n, nOps int) c13World {
	w := c13World{N: n, Excluded: map[int]string{}}
	w.Seats = make([]int, n)
	ops := 2 + rng.Intn(nOps-1) // 2..nOps operators
	if ops > n {
		ops = n
	}
	for i := range w.Seats {
		w.Seats[i] = rng.Intn(ops)
	}
	w.Receiver = 1 + rng.Intn(n)
	h := n/2 + 1
	w.Threshold = h + (n-h)/2
	maxEx := n - w.Threshold
	if maxEx > 2 {
		maxEx = 2
	}
	for k := rng.Intn(maxEx + 1); k > 0; k-- {
		m := 1 + rng.Intn(n)
		if m != w.Receiver {
			w.Excluded[m] = []string{"IA", "DQ"}[rng.Intn(2)]
		}
	}
	return w
}

func c13GenHistory(rng *rand.Rand, w c13World, outsiderA, outsiderB int) []c13Spec {
	var others, operating []int
	for m := 1; m <= w.N; m++ {
		if m == w.Receiver {
			continue
		}
		others = append(others, m)
		if w.Excluded[m] == "" {
			operating = append(operating, m)
		}
	}
	holder := func(m int) int { return w.Seats[m-1] }
	valid := func(m int) c13Spec {
		return c13Spec{Kind: "valid", Claimed: m, Net: holder(m), Pay: holder(m), SigBy: holder(m), Session: "own"}
	}
	target := []int{w.Threshold - 3, w.Threshold - 2, w.Threshold - 1, w.Threshold, rng.Intn(w.N)}[rng.Intn(5)]
	if target < 0 {
		target = 0
	}
	if target > len(operating) {
		target = len(operating)
	}
	rng.Shuffle(len(operating), func(i, j int) { operating[i], operating[j] = operating[j], operating[i] })
	v := append([]int(nil), operating[:target]...)
	var hist []c13Spec
	for _, m := range v {
		hist = append(hist, valid(m))
	}
	noise := 0
	if room := 2*w.N - len(hist); room > 0 {
		noise = rng.Intn(room + 1)
		if rng.Intn(3) == 0 {
			noise = rng.Intn(3)
		}
	}
	anyOther := func() int { return others[rng.Intn(len(others))] }
	for ; noise > 0; noise-- {
		m := anyOther()
		s := valid(m)
		switch k := rng.Intn(14); k {
		case 0:
			if len(v) == 0 {
				continue
			}
			s = valid(v[rng.Intn(len(v))])
			s.Kind = "duplicate-same"
		case 1:
			if len(v) == 0 {
				continue
			}
			s = valid(v[rng.Intn(len(v))])
			s.Kind, s.SigVar = "duplicate-second-signature", 1
		case 2:
			s.Kind, s.Hash = "conflicting-hash", 1
		case 3:
			s.Kind, s.Corrupt = "bad-signature-flipped", "flip"
		case 4:
			s.Kind, s.Corrupt = "bad-signature-truncated", []string{"truncate", "empty"}[rng.Intn(2)]
		case 5:
			s.Kind, s.SigBy = "signature-by-other-key", outsiderA
		case 6:
			s.Kind, s.Pay, s.SigBy = "foreign-key-in-payload", outsiderA, outsiderA
		case 7:
			imp := []int{outsiderA, outsiderB, w.Seats[rng.Intn(w.N)]}[rng.Intn(3)]
			s.Kind, s.Net, s.Pay, s.SigBy = "spoofed-index", imp, imp, imp
		case 8:
			s.Kind, s.Net = "replayed-by-outsider", outsiderB
		case 9:
			// another operator relays m's signed payload under its own seat
			relay := anyOther()
			s.Kind, s.Claimed, s.Net = "relayed-under-own-seat", relay, holder(relay)
		case 10:
			s = valid(w.Receiver)
			s.Kind = "own-index"
		case 11:
			s.Kind, s.Session = "other-session", "other"
		case 12:
			s.Kind, s.Claimed = "index-out-of-range", []int{0, w.N + 1, 255}[rng.Intn(3)]
		case 13:
			s.Kind, s.Pay = "garbage-payload-key", -1
		}
		hist = append(hist, s)
	}
	rng.Shuffle(len(hist), func(i, j int) { hist[i], hist[j] = hist[j], hist[i] })
	return hist
}

func c13Corrupt(sig []byte, how string) []byte {
	out := append([]byte(nil), sig...)
	switch how {
	case "flip":
		out[len(out)-1] ^= 0x01
	case "truncate":
		out = out[:len(out)-1]
	case "empty":
		out = nil
	}
	return out
}

// c13EnsureResponders appends admitted messages of random quality until at
// least `need` distinct operating members other than the receiver have an
// admitted message in the history (the state machines only move on then), and
// reshuffles.
func c13EnsureResponders(rng *rand.Rand, w c13World, hist []c13Spec, need int, outsiderA int) []c13Spec {
	have := map[int]bool{}
	for _, s := range hist {
		if w.admissionReason(s) == "" {
			have[s.Claimed] = true
		}
	}
	var missing []int
	for m := 1; m <= w.N; m++ {
		if m != w.Receiver && w.Excluded[m] == "" && !have[m] {
			missing = append(missing, m)
		}
	}
	rng.Shuffle(len(missing), func(i, j int) { missing[i], missing[j] = missing[j], missing[i] })
	for _, m := range missing {
		if len(have) >= need {
			break
		}
		k := w.Seats[m-1]
		s := c13Spec{Kind: "valid", Claimed: m, Net: k, Pay: k, SigBy: k, Session: "own"}
		switch rng.Intn(4) {
		case 0:
			s.Kind, s.Hash = "conflicting-hash", 1
		case 1:
			s.Kind, s.Corrupt = "bad-signature-flipped", "flip"
		case 2:
			s.Kind, s.SigBy = "signature-by-other-key", outsiderA
		}
		hist = append(hist, s)
		have[m] = true
	}
	rng.Shuffle(len(hist), func(i, j int) { hist[i], hist[j] = hist[j], hist[i] })
	return hist
}

func c13Nontrivial(w c13World, hist []c13Spec) bool {
	perMember := map[int]int{}
	for _, s := range hist {
		if s.Hash != 0 || !s.validSig() || s.Pay != s.Net {
			return true
		}
		if w.admissionReason(s) == "" {
			if perMember[s.Claimed]++; perMember[s.Claimed] > 1 {
				return true
			}
		}
	}
	return false
}

func c13SameMap(a, b map[group.MemberIndex][]byte) bool {
	if len(a) != len(b) {
		return false
	}
	for k, v := range a {
		if w, ok := b[k]; !ok || !bytes.Equal(v, w) {
			return false
		}
	}
	return true
}

func c13Keys(m map[group.MemberIndex][]byte) []int {
	var ks []int
	for k := range m {
		ks = append(ks, int(k))
	}
	sort.Ints(ks)
	return ks
}

func TestVerif_C13_Tbtc(t *testing.T) {
	r := verifkit.Start(t, "C13", "tbtc")
	defer r.Finish()
	r.SetRule("A (gates): supporter maps of every size 0..n for (n,quorum,honest) in {(3,2,2),(5,4,3),(10,8,6)} and sizes {0,1,50,51,52,89,90,91,100} for (100,90,51), random member subsets and submitter index, handed to dkgResultSubmitter.SubmitResult and inactivityClaimSubmitter.SubmitClaim on a recording chain; non-trivial = size within 1 of the threshold. B (end to end): PRNG histories as in the in-package parts (valid supporters around the threshold + duplicates, conflicting hashes, corrupted signatures, foreign keys, spoofed/relayed/replayed messages, own index, other session), completed so that the state machine can leave the signing state, signed with the real tbtc signers of the other operators, delivered through dkg.Publish / inactivity.PublishClaim; non-trivial = history with >= 1 duplicate, conflicting hash, bad signature or foreign key")
	r.Assume("local_v1 ECDSA signing; localChain test double of pkg/tbtc for hashing/assembly; in part B a message may only be lost as a FIFO suffix (scheduling), which can shrink but never extend the supporter map, so only one-directional verdicts are drawn there")

	fixtures, err := tecdsatest.LoadPrivateKeyShareTestFixtures(1)
	if err != nil {
		t.Fatal(err)
	}
	share := tecdsa.NewPrivateKeyShare(fixtures[0])
	logger := &testutils.MockLogger{}

	const nOps = 6
	chains := make([]*localChain, nOps+2)
	pubs := make([][]byte, nOps+2)
	for i := range chains {
		priv, pub, err := operator.GenerateKeyPair(local_v1.DefaultCurve)
		if err != nil {
			t.Fatal(err)
		}
		chains[i] = ConnectWithKey(priv)
		pubs[i] = operator.MarshalUncompressed(pub)
		if !bytes.Equal(pubs[i], chains[i].Signing().PublicKey()) {
			r.Inconclusive("operator key marshalling differs from the signer's public key")
			return
		}
	}
	outsiderA, outsiderB := nOps, nOps+1
	garbage := []byte{4, 1, 2, 3}
	pubOf := func(id int) []byte {
		if id < 0 {
			return garbage
		}
		return pubs[id]
	}

	// ------------------------------------------------------------- A. gates
	type params struct{ n, q, h int }
	gateRng := r.Rand("gates")
	var gateSubmitted, gateRefused int64
	for _, p := range []params{{3, 2, 2}, {5, 4, 3}, {10, 8, 6}, {100, 90, 51}} {
		var ks []int
		if p.n <= 10 {
			for k := 0; k <= p.n; k++ {
				ks = append(ks, k)
			}
		} else {
			ks = []int{0, 1, p.h - 1, p.h, p.h + 1, p.q - 1, p.q, p.q + 1, p.n}
		}
		gp := &GroupParameters{GroupSize: p.n, GroupQuorum: p.q, HonestThreshold: p.h}
		gsr := &GroupSelectionResult{OperatorsIDs: make(chain.OperatorIDs, p.n), OperatorsAddresses: make(chain.Addresses, p.n)}
		members := make([]uint32, p.n)
		for i := 0; i < p.n; i++ {
			gsr.OperatorsIDs[i] = chain.OperatorID(i + 1)
			members[i] = uint32(i + 1)
		}
		for _, k := range ks {
			for rep := 0; rep < 3; rep++ {
				perm := gateRng.Perm(p.n)
				sigs := map[group.MemberIndex][]byte{}
				for _, m := range perm[:k] {
					sigs[group.MemberIndex(m+1)] = []byte(fmt.Sprintf("signature-%d-%d", m+1, rep))
				}
				submitterIdx := group.MemberIndex(1 + gateRng.Intn(p.n))
				for _, step := range []string{"dkg", "claim"} {
					desc := fmt.Sprintf("gate step=%s n=%d quorum=%d honest=%d size=%d members=%v submitter=%d", step, p.n, p.q, p.h, k, c13Keys(sigs), submitterIdx)
					cw := &c13Chain{localChain: chains[0]}
					var serr error
					var threshold int
					var assembled []map[group.MemberIndex][]byte
					var nSubmitted int
					if r.Guard("tbtc:gate:"+step+":", desc, func() {
						if step == "dkg" {
							threshold = p.q
							sub := newDkgResultSubmitter(logger, cw, gp, gsr, c13Now)
							res := &dkg.Result{Group: group.NewGroup(p.n-p.h, p.n), PrivateKeyShare: share}
							serr = sub.SubmitResult(context.Background(), submitterIdx, res, sigs)
							assembled, nSubmitted = cw.dkgAssembled, len(cw.dkgSubmitted)
						} else {
							threshold = p.h
							sub := newInactivityClaimSubmitter(logger, cw, gp, members, c13Now)
							claim := inactivity.NewClaimPreimage(big.NewInt(0), share.PublicKey(), []group.MemberIndex{2}, true)
							serr = sub.SubmitClaim(context.Background(), submitterIdx, claim, sigs)
							assembled, nSubmitted = cw.claimAssembled, len(cw.claimSubmitted)
						}
					}) {
						continue
					}
					r.Case(desc, k >= threshold-1 && k <= threshold+1)
					wit := map[string]interface{}{"size": k, "threshold": threshold, "submissions": nSubmitted, "error": fmt.Sprint(serr)}
					switch {
					case nSubmitted > 0 && k < threshold:
						r.Violation("tbtc:"+step+":submitted-below-threshold", fmt.Sprintf("submitted with %d signatures, threshold %d", k, threshold), desc, wit)
					case nSubmitted == 0 && k >= threshold:
						r.Violation("tbtc:"+step+":not-submitted-at-threshold", fmt.Sprintf("%d signatures >= threshold %d but nothing submitted", k, threshold), desc, wit)
					case nSubmitted == 0 && serr == nil:
						r.Violation("tbtc:"+step+":silent-non-submission", "below the threshold but the submitter reported success", desc, wit)
					case nSubmitted > 1:
						r.Violation("tbtc:"+step+":submitted-twice", "more than one submission", desc, wit)
					}
					if nSubmitted > 0 {
						gateSubmitted++
						if len(assembled) != 1 || !c13SameMap(assembled[0], sigs) {
							r.Violation("tbtc:"+step+":submitted-map-differs", "the chain was not given exactly the supporter map", desc, wit)
						}
					} else {
						gateRefused++
					}
				}
			}
		}
	}
	r.Count("gate_submitted", gateSubmitted)
	r.Count("gate_refused", gateRefused)
	// A'. the same gate for wallets whose signing group is smaller than the
	// nominal group size (members excluded during key generation are not part
	// of the wallet): the honest threshold is the group parameter, not a value
	// derived from the number of members the wallet happens to have
	var reducedSubmitted, reducedRefused int64
	for _, p := range []params{{3, 2, 2}, {5, 4, 3}, {10, 8, 6}, {100, 90, 51}} {
		gp := &GroupParameters{GroupSize: p.n, GroupQuorum: p.q, HonestThreshold: p.h}
		for _, missing := range []int{1, p.n - p.q} {
			m := p.n - missing
			if missing <= 0 || m < p.h-2 {
				continue
			}
			members := make([]uint32, m)
			for i := range members {
				members[i] = uint32(i + 1)
			}
			for _, k := range []int{p.h - 2, p.h - 1, p.h, p.h + 1, m} {
				if k < 0 || k > m {
					continue
				}
				perm := gateRng.Perm(m)
				sigs := map[group.MemberIndex][]byte{}
				for _, x := range perm[:k] {
					sigs[group.MemberIndex(x+1)] = []byte(fmt.Sprintf("signature-%d", x+1))
				}
				submitterIdx := group.MemberIndex(1 + gateRng.Intn(m))
				desc := fmt.Sprintf("gate step=claim reduced-wallet n=%d quorum=%d honest=%d wallet-members=%d size=%d submitter=%d", p.n, p.q, p.h, m, k, submitterIdx)
				cw := &c13Chain{localChain: chains[0]}
				var serr error
				if r.Guard("tbtc:gate:claim-reduced:", desc, func() {
					sub := newInactivityClaimSubmitter(logger, cw, gp, members, c13Now)
					claim := inactivity.NewClaimPreimage(big.NewInt(0), share.PublicKey(), []group.MemberIndex{2}, true)
					serr = sub.SubmitClaim(context.Background(), submitterIdx, claim, sigs)
				}) {
					continue
				}
				nSubmitted := len(cw.claimSubmitted)
				r.Case(desc, k >= p.h-1 && k <= p.h+1)
				wit := map[string]interface{}{"size": k, "threshold": p.h, "wallet_members": m, "submissions": nSubmitted, "error": fmt.Sprint(serr)}
				switch {
				case nSubmitted > 0 && k < p.h:
					r.Violation("tbtc:claim:reduced-wallet:submitted-below-threshold", fmt.Sprintf("claim of a %d-member wallet submitted with %d signatures, honest threshold %d", m, k, p.h), desc, wit)
				case nSubmitted == 0 && k >= p.h:
					r.Violation("tbtc:claim:reduced-wallet:not-submitted-at-threshold", fmt.Sprintf("%d signatures >= threshold %d but nothing submitted", k, p.h), desc, wit)
				}
				if nSubmitted > 0 {
					reducedSubmitted++
				} else {
					reducedRefused++
				}
			}
		}
	}
	r.Count("gate_reduced_wallet_submitted", reducedSubmitted)
	r.Count("gate_reduced_wallet_refused", reducedRefused)

	// ------------------------------------------------------- B. end to end
	sizes := []int{3, 5, 10}
	runs := r.N(150, 3000)
	var e2eSubmitted, e2eRefused, e2eIncomplete, e2eMsgs, e2eAtThreshold, e2eJustBelow int64
	for _, step := range []string{"dkg", "claim"} {
		step := step
		verifkit.Parallel(runs, 0, func(i int) {
			rng := r.SubRand("e2e-"+step, i)
			w := c13GenWorld(rng, sizes[i%3], nOps)
			h := w.N/2 + 1
			need := 0
			if step == "claim" {
				w.Excluded = map[int]string{} // PublishClaim builds its own group: nobody can be excluded
				w.Threshold = h
				need = h - 1 + rng.Intn(w.N-h+1)
			}
			hist := c13GenHistory(rng, w, outsiderA, outsiderB)
			if step == "dkg" {
				need = w.N // all operating others
			}
			hist = c13EnsureResponders(rng, w, hist, need, outsiderA)
			desc := fmt.Sprintf("e2e step=%s n=%d seats=%v receiver=%d excluded=%v threshold=%d history=%s",
				step, w.N, w.Seats, w.Receiver, w.Excluded, w.Threshold, verifkit.JSON(hist))

			recvOp := w.Seats[w.Receiver-1]
			cw := &c13Chain{localChain: chains[recvOp]}
			g := group.NewGroup(w.N-h, w.N)
			for m, st := range w.Excluded {
				if st == "IA" {
					g.MarkMemberAsInactive(group.MemberIndex(m))
				} else {
					g.MarkMemberAsDisqualified(group.MemberIndex(m))
				}
			}
			addrs := make([]chain.Address, w.N)
			for s, op := range w.Seats {
				addrs[s] = chains[0].Signing().PublicKeyBytesToAddress(pubs[op])
			}
			validator := group.NewMembershipValidator(logger, addrs, chains[recvOp].Signing())
			gp := &GroupParameters{GroupSize: w.N, GroupQuorum: w.Threshold, HonestThreshold: h}
			if step == "claim" {
				gp.GroupQuorum = h + (w.N-h)/2
			}
			const startBlock = uint64(2000)
			res := &dkg.Result{Group: g, PrivateKeyShare: share}
			claims := [2]*inactivity.ClaimPreimage{
				inactivity.NewClaimPreimage(big.NewInt(0), share.PublicKey(), []group.MemberIndex{1}, true),
				inactivity.NewClaimPreimage(big.NewInt(0), share.PublicKey(), []group.MemberIndex{1}, false),
			}
			// (hash, signature) produced by the real tbtc signer of an operator
			type signed struct{ hash, sig []byte }
			cache := map[[3]int]signed{}
			sign := func(key, hashKind, variant int) signed {
				id := [3]int{key, hashKind, variant}
				if s, ok := cache[id]; ok {
					return s
				}
				var s signed
				if step == "dkg" {
					sr, err := newDkgResultSigner(chains[key], startBlock+uint64(hashKind)).SignResult(res)
					if err != nil {
						panic(err)
					}
					s = signed{sr.ResultHash[:], sr.Signature}
				} else {
					sc, err := newInactivityClaimSigner(chains[key]).SignClaim(claims[hashKind])
					if err != nil {
						panic(err)
					}
					s = signed{sc.ClaimHash[:], sc.Signature}
				}
				cache[id] = s
				return s
			}

			ch := &c13Chan{}
			dkg.RegisterUnmarshallers(ch)
			inactivity.RegisterUnmarshallers(ch)
			sigBytes := make([][]byte, len(hist))
			var runErr error
			var got []map[group.MemberIndex][]byte
			var ownHash []byte
			ctx, cancel := context.WithTimeout(context.Background(), c13Watchdog)
			defer cancel()
			if r.Guard("tbtc:e2e:"+step+":", desc, func() {
				ownHash = sign(recvOp, 0, 0).hash
				for i, s := range hist {
					sg := sign(s.SigBy, s.Hash, s.SigVar)
					sig := c13Corrupt(sg.sig, s.Corrupt)
					sigBytes[i] = sig
					session := "session-own"
					if s.Session != "own" {
						session = "session-other"
					}
					var raw []byte
					var typ string
					var err error
					if step == "dkg" {
						typ = "tecdsa_dkg/result_signature_message"
						raw, err = proto.Marshal(&dkgpb.ResultSignatureMessage{SenderID: uint32(s.Claimed), ResultHash: sg.hash, Signature: sig, PublicKey: pubOf(s.Pay), SessionID: session})
					} else {
						typ = "protocol_inactivity/claim_signature_message"
						raw, err = proto.Marshal(&inactivitypb.ClaimSignatureMessage{SenderID: uint32(s.Claimed), ClaimHash: sg.hash, Signature: sig, PublicKey: pubOf(s.Pay), SessionID: session})
					}
					if err != nil {
						panic(err)
					}
					f, ok := ch.factories[typ]
					if !ok {
						panic("no unmarshaler registered for " + typ)
					}
					u := f()
					if err := u.Unmarshal(raw); err != nil {
						panic(err)
					}
					ch.script = append(ch.script, &c13Msg{payload: u, key: pubOf(s.Net), typ: typ})
				}
				if step == "dkg" {
					sub := &c13DkgSubmitter{real: newDkgResultSubmitter(logger, cw, gp, &GroupSelectionResult{OperatorsIDs: make(chain.OperatorIDs, w.N), OperatorsAddresses: addrs}, c13Now)}
					runErr = dkg.Publish(ctx, logger, "session-own", group.MemberIndex(w.Receiver), ch, validator,
						newDkgResultSigner(cw, startBlock), sub, res)
					got = sub.got
				} else {
					members := make([]uint32, w.N)
					sub := &c13ClaimSubmitter{real: newInactivityClaimSubmitter(logger, cw, gp, members, c13Now)}
					runErr = inactivity.PublishClaim(ctx, logger, "session-own", group.MemberIndex(w.Receiver), ch, w.N, w.N-h, validator,
						newInactivityClaimSigner(cw), sub, claims[0])
					got = sub.got
				}
			}) {
				return
			}
			if ctx.Err() != nil || len(got) == 0 {
				r.Inconclusive(fmt.Sprintf("end-to-end %s run did not reach the submitter (err=%v): %s", step, runErr, desc[:120]))
				return
			}
			r.Case(desc, c13Nontrivial(w, hist))
			atomic.AddInt64(&e2eMsgs, int64(len(hist)))
			ref, reason := c13Reference(w, hist)
			m := got[0]
			wit := map[string]interface{}{"supporters": c13Keys(m), "reference_size": len(ref) + 1, "threshold": w.Threshold}
			if len(got) != 1 {
				r.Violation("tbtc:e2e:"+step+":submitter-call-count", fmt.Sprintf("submitter called %d times", len(got)), desc, wit)
			}
			for _, k := range c13Keys(m) {
				sig := m[group.MemberIndex(k)]
				if k == w.Receiver {
					if ok, err := chains[recvOp].Signing().Verify(ownHash, sig); err != nil || !ok {
						r.Violation("tbtc:e2e:"+step+":self-signature-invalid", "the member's own entry is not its valid signature over the result hash", desc, wit)
					}
					continue
				}
				idx, ok := ref[k]
				if !ok {
					why := reason[k]
					if why == "" {
						why = "no-message-from-member"
					}
					r.Violation("tbtc:e2e:"+step+":unsupported-signer-counted:"+why, fmt.Sprintf("member %d is in the supporter map although the reference excludes it (%s)", k, why), desc, wit)
					continue
				}
				if !bytes.Equal(sig, sigBytes[idx]) {
					r.Violation("tbtc:e2e:"+step+":wrong-signature-value", fmt.Sprintf("signature stored for member %d is not the one of its first admitted message", k), desc, wit)
				}
			}
			if _, ok := m[group.MemberIndex(w.Receiver)]; !ok {
				r.Violation("tbtc:e2e:"+step+":self-signature-missing", "own signature absent from the supporter map", desc, wit)
			}
			for k := range ref {
				if _, ok := m[group.MemberIndex(k)]; !ok {
					atomic.AddInt64(&e2eIncomplete, 1)
					break
				}
			}
			var assembled []map[group.MemberIndex][]byte
			var nSubmitted int
			if step == "dkg" {
				assembled, nSubmitted = cw.dkgAssembled, len(cw.dkgSubmitted)
			} else {
				assembled, nSubmitted = cw.claimAssembled, len(cw.claimSubmitted)
			}
			switch {
			case nSubmitted > 0 && len(m) < w.Threshold:
				r.Violation("tbtc:e2e:"+step+":submitted-below-threshold", fmt.Sprintf("submitted with %d signatures, threshold %d", len(m), w.Threshold), desc, wit)
			case nSubmitted == 0 && len(m) >= w.Threshold:
				r.Violation("tbtc:e2e:"+step+":not-submitted-at-threshold", fmt.Sprintf("%d signatures >= threshold %d but nothing submitted (err=%v)", len(m), w.Threshold, runErr), desc, wit)
			case nSubmitted == 0 && runErr == nil:
				r.Violation("tbtc:e2e:"+step+":silent-non-submission", "below the threshold but publication reported success", desc, wit)
			case nSubmitted > 1:
				r.Violation("tbtc:e2e:"+step+":submitted-twice", "more than one submission", desc, wit)
			}
			if nSubmitted > 0 {
				atomic.AddInt64(&e2eSubmitted, 1)
				if len(m) == w.Threshold {
					atomic.AddInt64(&e2eAtThreshold, 1)
				}
				if len(assembled) != 1 || !c13SameMap(assembled[0], m) {
					r.Violation("tbtc:e2e:"+step+":submitted-map-differs", "the chain was not given exactly the verified supporter map", desc, wit)
				}
			} else {
				atomic.AddInt64(&e2eRefused, 1)
				if len(m) == w.Threshold-1 {
					atomic.AddInt64(&e2eJustBelow, 1)
				}
			}
			if i < 2 {
				r.Sample(map[string]interface{}{"step": step, "n": w.N, "seats": w.Seats, "receiver": w.Receiver, "excluded": fmt.Sprint(w.Excluded),
					"threshold": w.Threshold, "history": hist, "supporters": c13Keys(m), "submitted": nSubmitted > 0})
			}
		})
	}
	r.Count("e2e_messages_delivered", e2eMsgs)
	r.Count("e2e_submitted", e2eSubmitted)
	r.Count("e2e_refused_below_threshold", e2eRefused)
	r.Count("e2e_submitted_exactly_at_threshold", e2eAtThreshold)
	r.Count("e2e_refused_one_below_threshold", e2eJustBelow)
	r.Count("e2e_histories_with_fewer_supporters_than_reference", e2eIncomplete)
}
