//go:build verif

package tbtc

import (
	"fmt"
	"testing"

	"github.com/keep-network/keep-core/internal/verifkit"
	"github.com/keep-network/keep-core/pkg/chain"
	"github.com/keep-network/keep-core/pkg/protocol/group"
)

// TestVerif_C08_FinalGroupRemap checks the key-generation -> final signing
// group remapping on its own, exhaustively for small groups, including
// operators that hold several seats of which only some were excluded (the
// signing runs of the other C08 monitor use one operator per seat).
//
// Model (independent of finalSigningGroup): the final group consists of the
// operating *seats* in ascending original index; seat o gets final index
// rank(o); the final operator list is the selected list restricted to those
// seats. Since TSS party j of the stored key share is the j-th operating seat,
// this is exactly "each member's stored index maps to the key-generation
// party identity it used".
func TestVerif_C08_FinalGroupRemap(t *testing.T) {
	r := verifkit.Start(t, "C08", "remap-exhaustive")
	defer r.Finish()
	r.SetRule("every group of 3..7 seats, every assignment of seats to <= 4 operators (multi-seat operators included), every operating subset of size >= quorum given in a PRNG order: finalSigningGroup vs an independent rank model. non-trivial = an operator holds several seats of which some but not all are excluded")
	r.SetExhaustive(true)
	rng := r.Rand("order")
	maxN := 6
	if !r.Quick() {
		maxN = 7
	}
	for n := 3; n <= maxN; n++ {
		quorum := n/2 + 1
		params := &GroupParameters{GroupSize: n, GroupQuorum: quorum, HonestThreshold: quorum}
		// assignments of seats to operators 0..3 (canonical: first use in order)
		var assigns [][]int
		var rec func(cur []int, used int)
		rec = func(cur []int, used int) {
			if len(cur) == n {
				assigns = append(assigns, append([]int(nil), cur...))
				return
			}
			for op := 0; op <= used && op < 4; op++ {
				nu := used
				if op == used {
					nu++
				}
				rec(append(cur, op), nu)
			}
		}
		rec(nil, 0)
		for _, as := range assigns {
			selected := make([]chain.Address, n)
			for i, op := range as {
				selected[i] = chain.Address(fmt.Sprintf("0xop%d", op))
			}
			for mask := 0; mask < 1<<n; mask++ {
				var operating []group.MemberIndex
				for i := 0; i < n; i++ {
					if mask&(1<<i) != 0 {
						operating = append(operating, group.MemberIndex(i+1))
					}
				}
				if len(operating) < quorum {
					continue
				}
				// partial exclusion of a multi-seat operator?
				in, out := map[int]int{}, map[int]int{}
				for i, op := range as {
					if mask&(1<<i) != 0 {
						in[op]++
					} else {
						out[op]++
					}
				}
				partial := false
				for op, c := range in {
					if c > 0 && out[op] > 0 {
						partial = true
					}
				}
				shuffled := append([]group.MemberIndex(nil), operating...)
				rng.Shuffle(len(shuffled), func(a, b int) { shuffled[a], shuffled[b] = shuffled[b], shuffled[a] })
				desc := fmt.Sprintf("remap seats->operators=%v operating=%v (given as %v)", as, operating, shuffled)
				var ops []chain.Address
				var idx map[group.MemberIndex]group.MemberIndex
				var err error
				if r.Guard("remap:", desc, func() {
					ops, idx, err = finalSigningGroup(append([]chain.Address(nil), selected...), shuffled, params)
				}) {
					continue
				}
				r.Case(desc, partial)
				if err != nil {
					r.Violation("remap:error", "finalSigningGroup failed for a legitimate input: "+err.Error(), desc, nil)
					continue
				}
				if len(ops) != len(operating) {
					r.Violation("remap:operators", fmt.Sprintf("final group has %d seats for %d operating members", len(ops), len(operating)), desc, ops)
					continue
				}
				if len(idx) != len(operating) {
					r.Violation("remap:index", fmt.Sprintf("%d index mappings for %d operating members", len(idx), len(operating)), desc, idx)
				}
				for rank, o := range operating {
					if ops[rank] != selected[o-1] {
						r.Violation("remap:operators", fmt.Sprintf("final seat %d belongs to %s, expected the operator of original seat %d (%s)", rank+1, ops[rank], o, selected[o-1]), desc, ops)
					}
					if idx[o] != group.MemberIndex(rank+1) {
						r.Violation("remap:index", fmt.Sprintf("original member %d mapped to final index %d, expected %d", o, idx[o], rank+1), desc, idx)
					}
				}
				for o := range idx {
					if mask&(1<<(int(o)-1)) == 0 {
						r.Violation("remap:index", fmt.Sprintf("excluded member %d has a final index", o), desc, idx)
					}
				}
				if partial && r.Counter("sampled") < 3 {
					r.Count("sampled", 1)
					r.Sample(map[string]interface{}{"seat_operators": as, "operating": operating, "final_operators": ops, "index_map": fmt.Sprint(idx)})
				}
			}
		}
	}
}
