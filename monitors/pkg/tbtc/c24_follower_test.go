//go:build verif

package tbtc

import (
	"bytes"
	"context"
	"crypto/ecdsa"
	"encoding/binary"
	"fmt"
	"math/big"
	"math/rand"
	"runtime"
	"strings"
	"sync"
	"sync/atomic"
	"testing"
	"time"

	"github.com/keep-network/keep-core/internal/testutils"
	"github.com/keep-network/keep-core/internal/verifkit"
	"github.com/keep-network/keep-core/pkg/chain"
	"github.com/keep-network/keep-core/pkg/chain/local_v1"
	"github.com/keep-network/keep-core/pkg/net"
	netlocal "github.com/keep-network/keep-core/pkg/net/local"
	"github.com/keep-network/keep-core/pkg/operator"
	"github.com/keep-network/keep-core/pkg/protocol/group"
	"github.com/keep-network/keep-core/pkg/tecdsa"
)

// ---------------------------------------------------------------- harness

// c24Peer is one network identity: its own operator key, chain address and
// endpoint on the real net/local broadcast channel.
type c24Peer struct {
	name    string
	pub     *operator.PublicKey
	pubRaw  []byte
	address chain.Address
	channel net.BroadcastChannel
}

// c24Pool is a set of peers sharing one net/local channel name. Pools are
// reused between cases because every net/local endpoint owns a ticker
// goroutine that is never stopped.
type c24Pool struct {
	ops      []*c24Peer // op0..op4: candidates for wallet operators
	outsider *c24Peer   // never an operator of the wallet
	sentinel *c24Peer   // never an operator; its message marks "everything before me was handled"
	signing  chain.Signing
	wallet   *ecdsa.PublicKey
}

func c24Key(rng *rand.Rand) *operator.PrivateKey {
	d := make([]byte, 32)
	rng.Read(d)
	d[0] &= 0x7f
	d[31] |= 1
	x, y := local_v1.DefaultCurve.ScalarBaseMult(d)
	return &operator.PrivateKey{
		PublicKey: operator.PublicKey{Curve: operator.Secp256k1, X: x, Y: y},
		D:         new(big.Int).SetBytes(d),
	}
}

func c24NewPool(rng *rand.Rand, channelName string) (*c24Pool, error) {
	p := &c24Pool{}
	first := c24Key(rng)
	p.signing = local_v1.NewSigner(first)
	mk := func(name string, priv *operator.PrivateKey) (*c24Peer, error) {
		pub := &priv.PublicKey
		addr, err := p.signing.PublicKeyToAddress(pub)
		if err != nil {
			return nil, err
		}
		ch, err := netlocal.ConnectWithKey(pub).BroadcastChannelFor(channelName)
		if err != nil {
			return nil, err
		}
		ch.SetUnmarshaler(func() net.TaggedUnmarshaler { return &coordinationMessage{} })
		ch.SetUnmarshaler(func() net.TaggedUnmarshaler { return &signingDoneMessage{} })
		return &c24Peer{name: name, pub: pub, pubRaw: operator.MarshalUncompressed(pub), address: addr, channel: ch}, nil
	}
	for k := 0; k < 5; k++ {
		priv := first
		if k > 0 {
			priv = c24Key(rng)
		}
		peer, err := mk(fmt.Sprintf("op%d", k), priv)
		if err != nil {
			return nil, err
		}
		p.ops = append(p.ops, peer)
	}
	var err error
	if p.outsider, err = mk("outsider", c24Key(rng)); err != nil {
		return nil, err
	}
	if p.sentinel, err = mk("sentinel", c24Key(rng)); err != nil {
		return nil, err
	}
	d := make([]byte, 32)
	rng.Read(d)
	d[0] &= 0x7f
	d[31] |= 1
	x, y := tecdsa.Curve.ScalarBaseMult(d)
	p.wallet = &ecdsa.PublicKey{Curve: tecdsa.Curve, X: x, Y: y}
	return p, nil
}

// c24Chain gives the follower the only chain facility it uses: Signing().
type c24Chain struct {
	Chain
	signing chain.Signing
}

func (c *c24Chain) Signing() chain.Signing { return c.signing }

// c24ValidatorSigning is the Signing handed to the membership validator. It
// only observes: when the validator is asked about the sentinel's key, every
// message sent before the sentinel has been handled by the follower.
type c24ValidatorSigning struct {
	chain.Signing
	sentinelKey []byte
	seen        chan struct{}
}

func (s *c24ValidatorSigning) PublicKeyBytesToAddress(pk []byte) chain.Address {
	if bytes.Equal(pk, s.sentinelKey) {
		select {
		case s.seen <- struct{}{}:
		default:
		}
	}
	return s.Signing.PublicKeyBytesToAddress(pk)
}

// c24Endpoint wraps the follower's endpoint to learn when its receive
// handler is installed (messages sent earlier would be lost by net/local).
type c24Endpoint struct {
	net.BroadcastChannel
	once       sync.Once
	registered chan struct{}
}

func (e *c24Endpoint) Recv(ctx context.Context, h func(m net.Message)) {
	e.BroadcastChannel.Recv(ctx, h)
	e.once.Do(func() { close(e.registered) })
}

// ---------------------------------------------------------------- cases

type c24Msg struct {
	Kind    string `json:"kind"`   // generator's label (evidence only)
	From    string `json:"from"`   // peer name whose key sends the message
	ID      uint8  `json:"id"`     // claimed member index
	Block   uint64 `json:"block"`  // claimed coordination block
	Wallet  bool   `json:"wallet"` // true = the right wallet hash
	Action  uint8  `json:"action"` // proposed action type
	Tag     int64  `json:"tag"`    // serial carried inside the proposal
	OtherTy bool   `json:"other_type,omitempty"`
}

type c24Case struct {
	Seats    []string `json:"seats"` // operator name per seat (member index = position+1)
	Follower string   `json:"follower"`
	Leader   string   `json:"leader"`
	Block    uint64   `json:"block"`
	Allowed  []uint8  `json:"allowed"`
	History  []c24Msg `json:"history"`
	// PhaseEnd = number of history messages sent before the active phase
	// ends; the rest are sent after it has ended.
	PhaseEnd int `json:"phase_end_after"`
}

func c24Proposal(action uint8, tag int64) CoordinationProposal {
	switch WalletActionType(action) {
	case ActionHeartbeat:
		var m [16]byte
		binary.BigEndian.PutUint64(m[8:], uint64(tag))
		return &HeartbeatProposal{Message: m}
	case ActionDepositSweep:
		return &DepositSweepProposal{SweepTxFee: big.NewInt(tag)}
	case ActionRedemption:
		return &RedemptionProposal{RedemptionTxFee: big.NewInt(tag)}
	case ActionMovingFunds:
		return &MovingFundsProposal{MovingFundsTxFee: big.NewInt(tag)}
	case ActionMovedFundsSweep:
		return &MovedFundsSweepProposal{SweepTxFee: big.NewInt(tag)}
	default:
		return &NoopProposal{}
	}
}

// c24Tag reads the serial back from a returned proposal (-1 for noop).
func c24Tag(p CoordinationProposal) int64 {
	switch v := p.(type) {
	case *HeartbeatProposal:
		return int64(binary.BigEndian.Uint64(v.Message[8:]))
	case *DepositSweepProposal:
		return v.SweepTxFee.Int64()
	case *RedemptionProposal:
		return v.RedemptionTxFee.Int64()
	case *MovingFundsProposal:
		return v.MovingFundsTxFee.Int64()
	case *MovedFundsSweepProposal:
		return v.SweepTxFee.Int64()
	}
	return -1
}

func c24Contains(xs []uint8, x uint8) bool {
	for _, y := range xs {
		if y == x {
			return true
		}
	}
	return false
}

func c24Generate(rng *rand.Rand) c24Case {
	var c c24Case
	nOps := 3 + rng.Intn(3)
	nSeats := 5 + rng.Intn(6)
	perm := rng.Perm(5)[:nOps]
	for _, k := range perm {
		c.Seats = append(c.Seats, fmt.Sprintf("op%d", k))
	}
	for len(c.Seats) < nSeats {
		c.Seats = append(c.Seats, fmt.Sprintf("op%d", perm[rng.Intn(nOps)]))
	}
	rng.Shuffle(len(c.Seats), func(a, b int) { c.Seats[a], c.Seats[b] = c.Seats[b], c.Seats[a] })
	fl := rng.Perm(nOps)
	c.Follower = fmt.Sprintf("op%d", perm[fl[0]])
	c.Leader = fmt.Sprintf("op%d", perm[fl[1]])
	idx := uint64(1 + rng.Intn(40))
	c.Block = idx * coordinationFrequencyBlocks

	// allowed actions: what coordinate() passes (checklist + noop), or an
	// arbitrary subset
	switch rng.Intn(4) {
	case 0:
		for a := uint8(0); a <= 5; a++ {
			if rng.Intn(2) == 0 {
				c.Allowed = append(c.Allowed, a)
			}
		}
	default:
		c.Allowed = []uint8{uint8(ActionRedemption)}
		if idx%4 == 0 {
			c.Allowed = append(c.Allowed, uint8(ActionDepositSweep), uint8(ActionMovedFundsSweep), uint8(ActionMovingFunds))
		}
		if rng.Intn(4) == 0 {
			c.Allowed = append(c.Allowed, uint8(ActionHeartbeat))
		}
		c.Allowed = append(c.Allowed, uint8(ActionNoop))
	}
	var allowed, disallowed []uint8
	for a := uint8(0); a <= 5; a++ {
		if c24Contains(c.Allowed, a) {
			allowed = append(allowed, a)
		} else {
			disallowed = append(disallowed, a)
		}
	}
	anyAction := func() uint8 { return uint8(rng.Intn(6)) }
	okAction := func() uint8 {
		if len(allowed) == 0 {
			return anyAction()
		}
		return allowed[rng.Intn(len(allowed))]
	}
	badAction := func() uint8 {
		if len(disallowed) == 0 {
			return anyAction()
		}
		return disallowed[rng.Intn(len(disallowed))]
	}

	seatsOf := func(name string) []uint8 {
		var out []uint8
		for s, n := range c.Seats {
			if n == name {
				out = append(out, uint8(s+1))
			}
		}
		return out
	}
	leaderSeats := seatsOf(c.Leader)
	leaderID := leaderSeats[0]
	followerSeats := seatsOf(c.Follower)
	var others []string // operators that are neither follower nor leader
	for _, k := range perm {
		n := fmt.Sprintf("op%d", k)
		if n != c.Follower && n != c.Leader {
			others = append(others, n)
		}
	}
	pick := func(xs []uint8) uint8 { return xs[rng.Intn(len(xs))] }
	wrongBlock := func() uint64 {
		return []uint64{c.Block + 1, c.Block - 1, c.Block + 900, c.Block - 900, 0, c.Block + 80}[rng.Intn(6)]
	}

	n := rng.Intn(13)
	if rng.Intn(12) == 0 {
		n = 0 // silence
	}
	validWeight := 2
	if rng.Intn(3) == 0 {
		validWeight = 0 // leader never sends anything valid
	}
	for k := 0; k < n; k++ {
		m := c24Msg{From: c.Leader, ID: leaderID, Block: c.Block, Wallet: true, Action: okAction(), Tag: int64(k + 1)}
		if k > 0 && rng.Intn(8) == 0 {
			// a repeat of the previous message's content (a fresh send, not a retransmission)
			m = c.History[k-1]
			m.Tag = int64(k + 1)
			m.Kind = "repeat:" + m.Kind
			c.History = append(c.History, m)
			continue
		}
		switch x := rng.Intn(18 + validWeight); {
		case x < 3:
			m.Kind = "impersonation"
			m.From = others[rng.Intn(len(others))]
			m.ID = pick(seatsOf(m.From))
			m.Action = anyAction()
		case x < 5:
			m.Kind = "leader-mistake"
			m.Action = badAction()
			if c24Contains(c.Allowed, m.Action) {
				m.Kind = "valid"
			}
		case x < 6:
			m.Kind = "leader-other-seat"
			if len(leaderSeats) > 1 {
				m.ID = leaderSeats[1+rng.Intn(len(leaderSeats)-1)]
			} else {
				m.Kind = "valid"
			}
		case x < 7:
			m.Kind = "membership:operator-claims-leader-seat"
			m.From = others[rng.Intn(len(others))]
		case x < 8:
			m.Kind = "membership:outsider-claims-leader-seat"
			m.From = "outsider"
		case x < 9:
			m.Kind = "membership:leader-claims-foreign-seat"
			m.ID = pick(seatsOf(others[rng.Intn(len(others))]))
		case x < 10:
			m.Kind = "membership:seat-out-of-range"
			m.ID = []uint8{0, uint8(len(c.Seats) + 1), 255}[rng.Intn(3)]
			if rng.Intn(2) == 0 {
				m.From = others[rng.Intn(len(others))]
			}
		case x < 11:
			m.Kind = "self"
			m.From = c.Follower
			m.ID = pick(followerSeats)
		case x < 12:
			m.Kind = "self:spoofed-by-other-key"
			m.From = []string{c.Leader, "outsider", others[rng.Intn(len(others))]}[rng.Intn(3)]
			m.ID = pick(followerSeats)
		case x < 14:
			m.Kind = "wrong-window"
			m.Block = wrongBlock()
			if rng.Intn(2) == 0 {
				m.From = others[rng.Intn(len(others))]
				m.ID = pick(seatsOf(m.From))
			}
		case x < 16:
			m.Kind = "wrong-wallet"
			m.Wallet = false
			if rng.Intn(2) == 0 {
				m.From = others[rng.Intn(len(others))]
				m.ID = pick(seatsOf(m.From))
			}
		case x < 17:
			m.Kind = "other-message-type"
			m.OtherTy = true
		case x < 18:
			m.Kind = "impersonation+mistake"
			m.From = others[rng.Intn(len(others))]
			m.ID = pick(seatsOf(m.From))
			m.Action = badAction()
		default:
			m.Kind = "valid"
		}
		c.History = append(c.History, m)
	}
	c.PhaseEnd = len(c.History)
	if len(c.History) > 0 && rng.Intn(4) == 0 {
		c.PhaseEnd = rng.Intn(len(c.History) + 1)
	}
	return c
}

// ---------------------------------------------------------------- oracle

type c24Fault struct {
	Culprit  string `json:"culprit"` // peer name
	Type     string `json:"type"`
	Optional bool   `json:"optional,omitempty"`
}

type c24Expect struct {
	Accept int        `json:"accept"` // index into History, -1 = none
	Faults []c24Fault `json:"faults"`
}

// c24Reference is the statement, read over the history in delivery order.
// It is written over peer names and seats only (no addresses, no code under
// test): who holds which seat is the case's seat list.
func c24Reference(c c24Case) c24Expect {
	seatHolder := func(id uint8) string {
		if id == 0 || int(id) > len(c.Seats) {
			return ""
		}
		return c.Seats[id-1]
	}
	leaderLowest := uint8(0)
	for s, n := range c.Seats {
		if n == c.Leader {
			leaderLowest = uint8(s + 1)
			break
		}
	}
	exp := c24Expect{Accept: -1}
	for k, m := range c.History[:c.PhaseEnd] {
		if m.OtherTy {
			continue // not a coordination message
		}
		if seatHolder(m.ID) == c.Follower {
			continue // claims one of the follower's own seats
		}
		if seatHolder(m.ID) == "" || seatHolder(m.ID) != m.From {
			continue // the sending key does not hold the claimed seat
		}
		if m.Block != c.Block || !m.Wallet {
			continue // another window or wallet
		}
		if m.ID != leaderLowest {
			// somebody with a valid seat that is not the leader's sending seat
			exp.Faults = append(exp.Faults, c24Fault{Culprit: m.From, Type: FaultLeaderImpersonation.String(), Optional: m.From == c.Leader})
			continue
		}
		if !c24Contains(c.Allowed, m.Action) {
			exp.Faults = append(exp.Faults, c24Fault{Culprit: c.Leader, Type: FaultLeaderMistake.String()})
			continue
		}
		exp.Accept = k
		return exp
	}
	exp.Faults = append(exp.Faults, c24Fault{Culprit: c.Leader, Type: FaultLeaderIdleness.String()})
	return exp
}

// c24FaultsMatch matches observed faults against expected ones; an optional
// expected entry (the leader operator using another of its own seats - the
// statement does not say whether that is "impersonation") may be absent, or
// present as any non-idleness fault of the leader.
func c24FaultsMatch(exp []c24Fault, got []c24Fault) bool {
	if len(exp) == 0 {
		return len(got) == 0
	}
	e := exp[0]
	if e.Optional {
		if c24FaultsMatch(exp[1:], got) {
			return true
		}
		if len(got) > 0 && got[0].Culprit == e.Culprit && got[0].Type != FaultLeaderIdleness.String() {
			return c24FaultsMatch(exp[1:], got[1:])
		}
		return false
	}
	if len(got) == 0 || got[0].Culprit != e.Culprit || got[0].Type != e.Type {
		return false
	}
	return c24FaultsMatch(exp[1:], got[1:])
}

// ---------------------------------------------------------------- run

type c24Outcome struct {
	proposal CoordinationProposal
	faults   []*coordinationFault
	err      error
	panicked bool
}

func TestVerif_C24_Follower(t *testing.T) {
	r := verifkit.Start(t, "C24", "follower")
	defer r.Finish()
	r.SetRule("wallets of 5-10 seats over 3-5 operators with distinct operator keys on the real net/local channel; follower and leader drawn; allowed actions = checklist+noop of the window or an arbitrary subset; histories of 0-12 messages drawn from: valid proposal, disallowed action, impersonation by another operator's own seat, leader's other seat, four kinds of invalid membership, own seats (own key / spoofed), wrong window, wrong wallet, other message type, repeats; in a quarter of the cases the active phase (virtual block clock) ends at a PRNG position and the remaining messages are sent afterwards. non-trivial = the follower handled at least one message that is not the leader's valid proposal")
	r.Assume("net/local delivers sequential sends in order; a sentinel message from a non-member key (invalid membership) is appended to the pre-phase-end history so that 'all earlier messages were handled' is observable at the membership validator")
	r.Assume("a valid-seat message from the leader operator's other seat is not returned; whether it is recorded as a fault is left open (the statement does not say)")

	n := r.N(10000, 400000)
	workers := runtime.NumCPU()
	if workers > 16 {
		workers = 16
	}
	pools := make(chan *c24Pool, workers)
	for w := 0; w < workers; w++ {
		p, err := c24NewPool(r.Rand(fmt.Sprintf("keys-%d", w)), fmt.Sprintf("c24-%d-%d", r.Seed(), w))
		if err != nil {
			r.Inconclusive("cannot build peer pool: " + err.Error())
			return
		}
		pools <- p
	}
	deadCtx, kill := context.WithCancel(context.Background())
	kill() // sends with a finished context are delivered once and never retransmitted

	var nAccepted, nIdle, nFaults, nLate, nHandled int64

	verifkit.Parallel(n, workers, func(i int) {
		rng := r.SubRand("case", i)
		c := c24Generate(rng)
		startOffset := uint64(rng.Intn(coordinationActivePhaseDurationBlocks))
		desc := verifkit.JSON(c)
		exp := c24Reference(c)

		pool := <-pools
		defer func() { pools <- pool }()
		peer := func(name string) *c24Peer {
			switch name {
			case "outsider":
				return pool.outsider
			case "sentinel":
				return pool.sentinel
			}
			for _, p := range pool.ops {
				if p.name == name {
					return p
				}
			}
			return nil
		}
		nameOf := func(a chain.Address) string {
			for _, p := range append(append([]*c24Peer{}, pool.ops...), pool.outsider, pool.sentinel) {
				if p.address == a {
					return p.name
				}
			}
			return "unknown:" + string(a)
		}

		// ---- the follower under test
		seats := make([]chain.Address, len(c.Seats))
		for s, nm := range c.Seats {
			seats[s] = peer(nm).address
		}
		w := wallet{publicKey: pool.wallet, signingGroupOperators: seats}
		follower, leader := peer(c.Follower), peer(c.Leader)
		vs := &c24ValidatorSigning{Signing: pool.signing, sentinelKey: pool.sentinel.pubRaw, seen: make(chan struct{}, 4)}
		ep := &c24Endpoint{BroadcastChannel: follower.channel, registered: make(chan struct{})}
		ex := &coordinationExecutor{
			chain:               &c24Chain{signing: pool.signing},
			coordinatedWallet:   w,
			membersIndexes:      w.membersByOperator(follower.address),
			operatorAddress:     follower.address,
			broadcastChannel:    ep,
			membershipValidator: group.NewMembershipValidator(&testutils.MockLogger{}, seats, vs),
		}
		pkh := ex.walletPublicKeyHash()
		wrongPkh := pkh
		wrongPkh[rng.Intn(20)] ^= byte(1 + rng.Intn(255))
		window := newCoordinationWindow(c.Block)

		clk := verifkit.NewClock(c.Block + startOffset)
		parent, cancelParent := context.WithCancel(context.Background())
		defer cancelParent()
		ctx, cancelCtx := withCancelOnBlock(parent, window.activePhaseEndBlock(), func(ctx context.Context, b uint64) error {
			wait, err := clk.BlockHeightWaiter(b)
			if err != nil {
				return err
			}
			select {
			case <-wait:
			case <-ctx.Done():
			}
			return nil
		})
		defer cancelCtx()

		allowed := make([]WalletActionType, len(c.Allowed))
		for k, a := range c.Allowed {
			allowed[k] = WalletActionType(a)
		}
		resCh := make(chan c24Outcome, 1)
		go func() {
			var o c24Outcome
			o.panicked = r.Guard("follower:", desc, func() {
				o.proposal, o.faults, o.err = ex.executeFollowerRoutine(ctx, leader.address, c.Block, allowed)
			})
			resCh <- o
		}()
		watchdog := time.NewTimer(60 * time.Second)
		defer watchdog.Stop()
		var out *c24Outcome
		select {
		case <-ep.registered:
		case o := <-resCh:
			out = &o
		case <-watchdog.C:
			r.Inconclusive("watchdog: follower never installed its receive handler: " + desc)
			return
		}

		send := func(from *c24Peer, m c24Msg) bool {
			var err error
			if m.OtherTy {
				err = from.channel.Send(deadCtx, &signingDoneMessage{
					senderID: group.MemberIndex(m.ID), message: big.NewInt(m.Tag), attemptNumber: 1,
					signature: &tecdsa.Signature{R: big.NewInt(2), S: big.NewInt(3), RecoveryID: 1}, endBlock: m.Block,
				})
			} else {
				h := pkh
				if !m.Wallet {
					h = wrongPkh
				}
				err = from.channel.Send(deadCtx, &coordinationMessage{
					senderID: group.MemberIndex(m.ID), coordinationBlock: m.Block, walletPublicKeyHash: h,
					proposal: c24Proposal(m.Action, m.Tag),
				})
			}
			if err != nil {
				r.Inconclusive(fmt.Sprintf("harness: send failed: %v: %s", err, desc))
				return false
			}
			return true
		}

		// ---- messages of the active phase, then the sentinel
		if out == nil {
			for _, m := range c.History[:c.PhaseEnd] {
				if !send(peer(m.From), m) {
					return
				}
				if rng.Intn(3) == 0 && clk.Height()+1 < window.activePhaseEndBlock() {
					clk.Advance(1) // blocks pass inside the active phase
				}
			}
			if c.PhaseEnd > 0 {
				leaderLowest := w.membersByOperator(leader.address)[0]
				if !send(pool.sentinel, c24Msg{ID: uint8(leaderLowest), Block: c.Block, Wallet: true, Action: uint8(ActionNoop), Tag: 1000}) {
					return
				}
				select {
				case <-vs.seen:
				case o := <-resCh:
					out = &o
				case <-watchdog.C:
					r.Inconclusive("watchdog: follower neither returned nor reached the sentinel message: " + desc)
					return
				}
			}
		}
		// ---- end of the active phase, then the late messages
		if out == nil {
			if ctx.Err() != nil {
				r.Violation("phase:ended-early", fmt.Sprintf("the active-phase context was cancelled at block %d, before block %d", clk.Height(), window.activePhaseEndBlock()), desc, nil)
			}
			clk.Set(window.activePhaseEndBlock(), rng.Intn(2) == 0)
			select {
			case <-ctx.Done():
			case <-watchdog.C:
				r.Inconclusive("watchdog: active-phase context not cancelled at the end block: " + desc)
				return
			}
			for _, m := range c.History[c.PhaseEnd:] {
				if !send(peer(m.From), m) {
					return
				}
				atomic.AddInt64(&nLate, 1)
			}
			select {
			case o := <-resCh:
				out = &o
			case <-watchdog.C:
				r.Inconclusive("watchdog: follower did not return after the active phase ended: " + desc)
				return
			}
		}
		if out.panicked {
			r.Case(desc, false)
			return
		}

		// ---- compare with the reference
		var got []c24Fault
		for _, f := range out.faults {
			if f == nil {
				got = append(got, c24Fault{Culprit: "nil", Type: "nil"})
				continue
			}
			got = append(got, c24Fault{Culprit: nameOf(f.culprit), Type: f.faultType.String()})
		}
		witness := map[string]interface{}{"expected": exp, "got_faults": got, "got_error": fmt.Sprint(out.err)}
		if out.proposal != nil {
			witness["got_proposal"] = fmt.Sprintf("%s#%d", out.proposal.ActionType(), c24Tag(out.proposal))
		}
		kindOfTag := func(tag int64) string {
			if tag == 1000 {
				return "sentinel(non-member key)"
			}
			if tag == -1 {
				return "some-noop-proposal"
			}
			for _, m := range c.History {
				if m.Tag == tag {
					if c.PhaseEnd < int(tag) {
						return "late:" + m.Kind
					}
					return m.Kind
				}
			}
			return "unknown"
		}
		returned := out.proposal != nil && out.err == nil
		switch {
		case returned && exp.Accept < 0:
			r.Violation("accept:"+c24Strip(kindOfTag(c24Tag(out.proposal))), fmt.Sprintf("follower returned proposal %v although no message of the active phase is the leader's valid proposal", witness["got_proposal"]), desc, witness)
		case returned && exp.Accept >= 0:
			m := c.History[exp.Accept]
			if uint8(out.proposal.ActionType()) != m.Action || (WalletActionType(m.Action) != ActionNoop && c24Tag(out.proposal) != m.Tag) {
				r.Violation("accept:wrong-message:"+c24Strip(kindOfTag(c24Tag(out.proposal))), fmt.Sprintf("follower returned %v, the leader's first valid proposal is history[%d] (%s#%d)", witness["got_proposal"], exp.Accept, WalletActionType(m.Action), m.Tag), desc, witness)
			} else if !c24FaultsMatch(exp.Faults, got) {
				r.Violation("faults:on-accept", "faults returned with the accepted proposal differ from the impersonations and leader mistakes that preceded it", desc, witness)
			}
		case !returned && exp.Accept >= 0:
			r.Violation("reject:valid-proposal", fmt.Sprintf("follower returned no proposal (err=%v) although history[%d] is the leader's valid proposal sent in the active phase", out.err, exp.Accept), desc, witness)
		default: // nothing valid, nothing returned
			if out.err == nil {
				r.Violation("idle:no-error", "no proposal and no error returned", desc, witness)
			}
			if len(got) == 0 || got[len(got)-1] != (c24Fault{Culprit: c.Leader, Type: FaultLeaderIdleness.String()}) {
				r.Violation("idle:not-recorded", "the leader sent nothing valid but the faults do not end with the leader's idleness", desc, witness)
			} else if !c24FaultsMatch(exp.Faults, got) {
				fp := "faults:on-idle"
				if len(got) == len(exp.Faults) {
					same := true
					for k := range got {
						if got[k].Type != exp.Faults[k].Type {
							same = false
						}
					}
					if same {
						fp = "faults:culprit"
					}
				}
				r.Violation(fp, "recorded faults differ from the impersonations (by actual sender) and leader mistakes of the history", desc, witness)
			}
		}

		// ---- evidence
		handled := c.PhaseEnd
		if exp.Accept >= 0 {
			handled = exp.Accept
		}
		r.Case(desc, handled > 0)
		atomic.AddInt64(&nHandled, int64(handled))
		atomic.AddInt64(&nFaults, int64(len(got)))
		if returned {
			atomic.AddInt64(&nAccepted, 1)
		} else {
			atomic.AddInt64(&nIdle, 1)
		}
		r.SampleAt(i, n, func() interface{} {
			return map[string]interface{}{"case": c, "expected": exp, "got_faults": got, "returned": witness["got_proposal"]}
		})
	})
	r.Count("proposals_returned", nAccepted)
	r.Count("leader_idle_outcomes", nIdle)
	r.Count("faults_observed", nFaults)
	r.Count("messages_sent_after_phase_end", nLate)
	r.Count("invalid_messages_handled_before_outcome", nHandled)
}

// c24Strip keeps fingerprints free of per-case detail.
func c24Strip(kind string) string {
	return strings.ReplaceAll(kind, "repeat:", "")
}
