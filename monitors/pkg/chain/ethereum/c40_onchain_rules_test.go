//go:build verif

package ethereum

// C40: the oracle is the deployed contract code. go-ethereum's core/vm executes
// the deployedBytecode of EcdsaDkgValidator, EcdsaSortitionPool and the
// EcdsaInactivity library (from /repo/solidity/ecdsa/deployments/mainnet) on an
// in-memory state; the client's AssembleDKGResult / convertDkgResultToAbiType /
// CalculateDKGResultSignatureHash / signer / AssembleInactivityClaim /
// CalculateInactivityClaimHash / calculateWalletID outputs are fed to it.

import (
	"crypto/ecdsa"
	"crypto/elliptic"
	"encoding/hex"
	"encoding/json"
	"fmt"
	"math/big"
	"math/rand"
	"os"
	"path/filepath"
	"sort"
	"strings"
	"sync"
	"testing"

	"github.com/ethereum/go-ethereum/accounts/abi"
	"github.com/ethereum/go-ethereum/accounts/keystore"
	"github.com/ethereum/go-ethereum/common"
	"github.com/ethereum/go-ethereum/core/types"
	"github.com/ethereum/go-ethereum/core/vm"
	"github.com/ethereum/go-ethereum/crypto"
	"github.com/ethereum/go-ethereum/params"
	"github.com/holiman/uint256"

	"github.com/keep-network/keep-core/internal/verifkit"
	"github.com/keep-network/keep-core/pkg/chain"
	"github.com/keep-network/keep-core/pkg/protocol/group"
	"github.com/keep-network/keep-core/pkg/protocol/inactivity"
	"github.com/keep-network/keep-core/pkg/tbtc"
)

// ---- minimal in-memory vm.StateDB -----------------------------------------

type c40Account struct {
	code    []byte
	storage map[common.Hash]common.Hash
	balance *uint256.Int
	nonce   uint64
}

type c40State struct {
	accts     map[common.Address]*c40Account
	transient map[common.Address]map[common.Hash]common.Hash
	refund    uint64
}

func c40NewState() *c40State {
	return &c40State{accts: map[common.Address]*c40Account{}, transient: map[common.Address]map[common.Hash]common.Hash{}}
}
func (s *c40State) acct(a common.Address) *c40Account {
	ac, ok := s.accts[a]
	if !ok {
		ac = &c40Account{storage: map[common.Hash]common.Hash{}, balance: new(uint256.Int)}
		s.accts[a] = ac
	}
	return ac
}
func (s *c40State) CreateAccount(a common.Address)               { s.acct(a) }
func (s *c40State) SubBalance(a common.Address, v *uint256.Int) { s.acct(a).balance.Sub(s.acct(a).balance, v) }
func (s *c40State) AddBalance(a common.Address, v *uint256.Int) { s.acct(a).balance.Add(s.acct(a).balance, v) }
func (s *c40State) GetBalance(a common.Address) *uint256.Int    { return s.acct(a).balance }
func (s *c40State) GetNonce(a common.Address) uint64            { return s.acct(a).nonce }
func (s *c40State) SetNonce(a common.Address, n uint64)         { s.acct(a).nonce = n }
func (s *c40State) GetCodeHash(a common.Address) common.Hash {
	if ac, ok := s.accts[a]; ok && len(ac.code) > 0 {
		return crypto.Keccak256Hash(ac.code)
	}
	return common.Hash{}
}
func (s *c40State) GetCode(a common.Address) []byte {
	if ac, ok := s.accts[a]; ok {
		return ac.code
	}
	return nil
}
func (s *c40State) SetCode(a common.Address, c []byte) { s.acct(a).code = c }
func (s *c40State) GetCodeSize(a common.Address) int   { return len(s.GetCode(a)) }
func (s *c40State) AddRefund(v uint64)                 { s.refund += v }
func (s *c40State) SubRefund(v uint64)                 { s.refund -= v }
func (s *c40State) GetRefund() uint64                  { return s.refund }
func (s *c40State) GetCommittedState(a common.Address, k common.Hash) common.Hash {
	return s.GetState(a, k)
}
func (s *c40State) GetState(a common.Address, k common.Hash) common.Hash {
	if ac, ok := s.accts[a]; ok {
		return ac.storage[k]
	}
	return common.Hash{}
}
func (s *c40State) SetState(a common.Address, k, v common.Hash) { s.acct(a).storage[k] = v }
func (s *c40State) GetTransientState(a common.Address, k common.Hash) common.Hash {
	return s.transient[a][k]
}
func (s *c40State) SetTransientState(a common.Address, k, v common.Hash) {
	if s.transient[a] == nil {
		s.transient[a] = map[common.Hash]common.Hash{}
	}
	s.transient[a][k] = v
}
func (s *c40State) SelfDestruct(common.Address)           {}
func (s *c40State) HasSelfDestructed(common.Address) bool { return false }
func (s *c40State) Selfdestruct6780(common.Address)       {}
func (s *c40State) Exist(a common.Address) bool           { _, ok := s.accts[a]; return ok }
func (s *c40State) Empty(a common.Address) bool {
	ac, ok := s.accts[a]
	return !ok || (len(ac.code) == 0 && ac.nonce == 0 && ac.balance.IsZero())
}
func (s *c40State) AddressInAccessList(common.Address) bool { return true }
func (s *c40State) SlotInAccessList(common.Address, common.Hash) (bool, bool) {
	return true, true
}
func (s *c40State) AddAddressToAccessList(common.Address)           {}
func (s *c40State) AddSlotToAccessList(common.Address, common.Hash) {}
func (s *c40State) Prepare(params.Rules, common.Address, common.Address, *common.Address, []common.Address, types.AccessList) {
}
func (s *c40State) RevertToSnapshot(int)             {}
func (s *c40State) Snapshot() int                    { return 0 }
func (s *c40State) AddLog(*types.Log)                {}
func (s *c40State) AddPreimage(common.Hash, []byte) {}

// ---- contract artifacts ---------------------------------------------------

type c40Artifact struct {
	abi  abi.ABI
	code []byte
}

func c40Load(name string) (*c40Artifact, error) {
	repo := os.Getenv("VERIF_REPO")
	if repo == "" {
		repo = "/repo"
	}
	raw, err := os.ReadFile(filepath.Join(repo, "solidity/ecdsa/deployments/mainnet", name+".json"))
	if err != nil {
		return nil, err
	}
	var d struct {
		Abi              json.RawMessage `json:"abi"`
		DeployedBytecode string          `json:"deployedBytecode"`
	}
	if err := json.Unmarshal(raw, &d); err != nil {
		return nil, err
	}
	// library ABIs name contract-typed parameters by the contract ("SortitionPool")
	abiJSON := strings.ReplaceAll(string(d.Abi), `"type": "SortitionPool"`, `"type": "address"`)
	abiJSON = strings.ReplaceAll(abiJSON, `"type":"SortitionPool"`, `"type":"address"`)
	a, err := abi.JSON(strings.NewReader(abiJSON))
	if err != nil {
		return nil, err
	}
	code, err := hex.DecodeString(strings.TrimPrefix(d.DeployedBytecode, "0x"))
	if err != nil {
		return nil, err
	}
	return &c40Artifact{a, code}, nil
}

var (
	c40ValidatorAddr  = common.HexToAddress("0x00000000000000000000000000000000000a11da")
	c40InactivityAddr = common.HexToAddress("0x0000000000000000000000000000000000001ac7")
	// the artifact's deployedBytecode carries zero placeholders for the
	// validator's immutable `sortitionPool`, so the pool lives at address 0
	c40PoolAddr = common.Address{}
)

type c40World struct {
	validator, inactivity, pool *c40Artifact
}

func c40LoadWorld() (*c40World, error) {
	v, err := c40Load("EcdsaDkgValidator")
	if err != nil {
		return nil, err
	}
	i, err := c40Load("EcdsaInactivity")
	if err != nil {
		return nil, err
	}
	p, err := c40Load("EcdsaSortitionPool")
	if err != nil {
		return nil, err
	}
	return &c40World{v, i, p}, nil
}

// c40EVM builds a fresh EVM whose pool knows idAddress[id] = operators[id].
func (w *c40World) evm(chainID *big.Int, idAddress []common.Address) *vm.EVM {
	st := c40NewState()
	st.SetCode(c40ValidatorAddr, w.validator.code)
	st.SetCode(c40InactivityAddr, w.inactivity.code)
	st.SetCode(c40PoolAddr, w.pool.code)
	// idAddress is the dynamic array at storage slot 7 of the pool
	slot := common.BigToHash(big.NewInt(7))
	st.SetState(c40PoolAddr, slot, common.BigToHash(big.NewInt(int64(len(idAddress)))))
	base := new(big.Int).SetBytes(crypto.Keccak256(slot[:]))
	for i, a := range idAddress {
		k := common.BigToHash(new(big.Int).Add(base, big.NewInt(int64(i))))
		st.SetState(c40PoolAddr, k, common.BytesToHash(a.Bytes()))
	}
	cfg := *params.AllEthashProtocolChanges
	cfg.ChainID = new(big.Int).Set(chainID)
	bctx := vm.BlockContext{
		CanTransfer: func(vm.StateDB, common.Address, *uint256.Int) bool { return true },
		Transfer:    func(vm.StateDB, common.Address, common.Address, *uint256.Int) {},
		GetHash:     func(uint64) common.Hash { return common.Hash{} },
		BlockNumber: big.NewInt(1000),
		Time:        1700000000,
		Difficulty:  big.NewInt(1),
		GasLimit:    1 << 40,
		BaseFee:     big.NewInt(0),
	}
	return vm.NewEVM(bctx, vm.TxContext{GasPrice: big.NewInt(0)}, st, &cfg, vm.Config{})
}

// c40LibrarySelector: external library functions are dispatched on a selector
// computed from non-canonical type names (contract types by name, structs by
// qualified name). The candidate whose selector occurs as a PUSH4 in the
// deployed dispatcher is used.
func c40LibrarySelector(code []byte, candidates ...string) []byte {
	for _, sig := range candidates {
		sel := crypto.Keccak256([]byte(sig))[:4]
		if strings.Contains(string(code), string(append([]byte{0x63}, sel...))) {
			return sel
		}
	}
	return nil
}

func c40Call(evm *vm.EVM, from, to common.Address, a *abi.ABI, method string, args ...interface{}) ([]interface{}, error) {
	in, err := a.Pack(method, args...)
	if err != nil {
		return nil, fmt.Errorf("pack %s: %v", method, err)
	}
	if method == "verifyClaim" {
		sel := c40LibrarySelector(evm.StateDB.GetCode(to),
			"verifyClaim(SortitionPool,EcdsaInactivity.Claim,bytes,uint256,uint32[])",
			"verifyClaim(address,EcdsaInactivity.Claim,bytes,uint256,uint32[])",
			"verifyClaim(SortitionPool,(bytes32,uint256[],bool,bytes,uint256[]),bytes,uint256,uint32[])",
			"verifyClaim(address,(bytes32,uint256[],bool,bytes,uint256[]),bytes,uint256,uint32[])")
		if sel == nil {
			return nil, fmt.Errorf("verifyClaim selector not found in the deployed library dispatcher")
		}
		copy(in[:4], sel)
	}
	ret, _, err := evm.StaticCall(vm.AccountRef(from), to, in, 1<<38)
	if err != nil {
		reason, _ := abi.UnpackRevert(ret)
		return nil, fmt.Errorf("evm %s: %v %q", method, err, reason)
	}
	return a.Unpack(method, ret)
}

// ---- generation -----------------------------------------------------------

type c40Operator struct {
	key  *ecdsa.PrivateKey
	addr common.Address
}

var c40OpsOnce sync.Once
var c40Ops []c40Operator

// c40Operators returns a pool of operator keys, index = operator ID
// (ID 0 is unused in the real pool: idAddress[0] is a placeholder).
func c40Operators() []c40Operator {
	c40OpsOnce.Do(func() {
		c40Ops = make([]c40Operator, 260)
		for i := range c40Ops {
			k, err := crypto.GenerateKey()
			if err != nil {
				panic(err)
			}
			c40Ops[i] = c40Operator{k, crypto.PubkeyToAddress(k.PublicKey)}
		}
	})
	return c40Ops
}

func c40Chain(chainID *big.Int, key *ecdsa.PrivateKey) *TbtcChain {
	return &TbtcChain{baseChain: &baseChain{chainID: chainID, key: &keystore.Key{PrivateKey: key, Address: crypto.PubkeyToAddress(key.PublicKey)}}}
}

func c40Subset(rng *rand.Rand, n, k int) []group.MemberIndex {
	perm := rng.Perm(n)
	out := make([]group.MemberIndex, k)
	for i := 0; i < k; i++ {
		out[i] = group.MemberIndex(perm[i] + 1)
	}
	return out // deliberately unsorted: the client is responsible for ordering
}

func c40ChainIDs(rng *rand.Rand) *big.Int {
	switch rng.Intn(4) {
	case 0:
		return big.NewInt(1)
	case 1:
		return big.NewInt(11155111)
	case 2:
		return big.NewInt(int64(1 + rng.Intn(1<<30)))
	}
	return new(big.Int).SetUint64(rng.Uint64()>>1 | 1)
}

func TestVerif_C40_DkgResult(t *testing.T) {
	r := verifkit.Start(t, "C40", "dkg-result")
	defer r.Finish()
	r.SetRule("group of 100 seats over PRNG-chosen operator IDs (multi-seat repeats), misbehaved sets of 0..10 members, supporter sets of 51..(operating) members, PRNG wallet keys, chain ids {1, 11155111, random}, start blocks; the assembled result is judged by the deployed EcdsaDkgValidator bytecode in go-ethereum's EVM (validateFields, validateMembersHash, validateSignatures); negative controls must be rejected; non-trivial = misbehaved set non-empty or supporters != all operating or an operator holding >1 seat")
	r.Assume("trusted: go-ethereum core/vm, the deployment artifacts' deployedBytecode (validator immutables are zero in the artifact, so the pool bytecode is installed at address 0), the monitor's 120-line in-memory StateDB")
	r.Assume("validateGroupMembers (sortition) is outside the property")
	w, err := c40LoadWorld()
	if err != nil {
		r.Inconclusive("cannot load deployment artifacts: " + err.Error())
		return
	}
	ops := c40Operators()
	n := r.N(80, 3000)
	verifkit.Parallel(n, 0, func(i int) {
		rng := r.SubRand("dkg", i)
		const groupSize = 100
		// member seats -> operator IDs (1..K), repeats allowed
		K := 30 + rng.Intn(len(ops)-31)
		if rng.Intn(3) == 0 {
			K = 101 + rng.Intn(len(ops)-102) // mostly single-seat
		}
		members := make(chain.OperatorIDs, groupSize)
		seatCount := map[uint32]int{}
		for j := range members {
			members[j] = uint32(1 + rng.Intn(K))
			seatCount[members[j]]++
		}
		multiSeat := false
		for _, c := range seatCount {
			if c > 1 {
				multiSeat = true
			}
		}
		idAddress := make([]common.Address, len(ops))
		for id := range ops {
			idAddress[id] = ops[id].addr
		}
		chainID := c40ChainIDs(rng)
		nMis := rng.Intn(11)
		if rng.Intn(4) == 0 {
			nMis = 0
		}
		misbehaved := c40Subset(rng, groupSize, nMis)
		isMis := map[group.MemberIndex]bool{}
		for _, m := range misbehaved {
			isMis[m] = true
		}
		var operating []group.MemberIndex
		for j := 1; j <= groupSize; j++ {
			if !isMis[group.MemberIndex(j)] {
				operating = append(operating, group.MemberIndex(j))
			}
		}
		rng.Shuffle(len(operating), func(a, b int) { operating[a], operating[b] = operating[b], operating[a] })
		nSup := 51 + rng.Intn(len(operating)-50)
		if rng.Intn(5) == 0 {
			nSup = len(operating)
		}
		if rng.Intn(5) == 0 {
			nSup = 51
		}
		supporters := append([]group.MemberIndex(nil), operating[:nSup]...)
		walletKey, _ := ecdsa.GenerateKey(crypto.S256(), rng)
		if rng.Intn(6) == 0 {
			// a key whose X or Y has leading zero bytes exercises the padding
			for tries := 0; tries < 4000; tries++ {
				k, _ := ecdsa.GenerateKey(crypto.S256(), rng)
				if len(k.X.Bytes()) < 32 || len(k.Y.Bytes()) < 32 {
					walletKey = k
					break
				}
			}
		}
		startBlock := uint64(rng.Int63n(1 << 40))
		submitter := supporters[rng.Intn(len(supporters))]
		desc := fmt.Sprintf("dkg chain=%s K=%d misbehaved=%v supporters=%d start=%d submitter=%d key=%x", chainID, K, misbehaved, nSup, startBlock, submitter, elliptic.Marshal(crypto.S256(), walletKey.X, walletKey.Y)[:9])

		var res *tbtc.DKGChainResult
		signatures := map[group.MemberIndex][]byte{}
		failed := ""
		if r.Guard("dkg:", desc, func() {
			for _, m := range supporters {
				tc := c40Chain(chainID, ops[members[m-1]].key)
				h, err := tc.CalculateDKGResultSignatureHash(&walletKey.PublicKey, append([]group.MemberIndex(nil), misbehaved...), startBlock)
				if err != nil {
					failed = "hash: " + err.Error()
					return
				}
				sig, err := tc.Signing().Sign(h[:])
				if err != nil {
					failed = "sign: " + err.Error()
					return
				}
				signatures[m] = sig
			}
			tc := c40Chain(chainID, ops[members[submitter-1]].key)
			res, err = tc.AssembleDKGResult(submitter, &walletKey.PublicKey,
				append([]group.MemberIndex(nil), operating...), append([]group.MemberIndex(nil), misbehaved...),
				signatures, &tbtc.GroupSelectionResult{OperatorsIDs: members})
			if err != nil {
				failed = "assemble: " + err.Error()
			}
		}) {
			return
		}
		r.Case(desc, nMis > 0 || nSup != len(operating) || multiSeat)
		if failed != "" {
			r.Violation("dkg:client-error", "client could not build a result for a legitimate input: "+failed, desc, nil)
			return
		}
		abiRes := convertDkgResultToAbiType(res)
		evm := w.evm(chainID, idAddress)
		caller := ops[members[submitter-1]].addr
		out, err := c40Call(evm, caller, c40ValidatorAddr, &w.validator.abi, "validateFields", abiRes)
		if err != nil {
			r.Violation("dkg:validateFields-reverted", err.Error(), desc, nil)
		} else if ok, _ := out[0].(bool); !ok {
			r.Violation("dkg:validateFields-false", fmt.Sprintf("contract rejects the result's fields: %v", out[1]), desc, nil)
		}
		out, err = c40Call(evm, caller, c40ValidatorAddr, &w.validator.abi, "validateMembersHash", abiRes)
		if err != nil {
			r.Violation("dkg:validateMembersHash-reverted", err.Error(), desc, nil)
		} else if ok, _ := out[0].(bool); !ok {
			r.Violation("dkg:validateMembersHash-false", "contract computes a different members hash", desc, nil)
		}
		out, err = c40Call(evm, caller, c40ValidatorAddr, &w.validator.abi, "validateSignatures", abiRes, new(big.Int).SetUint64(startBlock))
		if err != nil {
			r.Violation("dkg:validateSignatures-reverted", err.Error(), desc, nil)
		} else if ok, _ := out[0].(bool); !ok {
			r.Violation("dkg:validateSignatures-false", "a signature does not recover to its signer under the contract's message hash", desc, nil)
		}
		r.Count("evm_calls", 3)
		// wallet ID as Wallets.sol defines it: keccak256(64-byte public key)
		id, err := calculateWalletID(&walletKey.PublicKey)
		x := make([]byte, 32)
		y := make([]byte, 32)
		walletKey.X.FillBytes(x)
		walletKey.Y.FillBytes(y)
		if err != nil || id != [32]byte(crypto.Keccak256Hash(append(x, y...))) {
			r.Violation("walletid:mismatch", "calculateWalletID differs from keccak256(X||Y)", desc, nil)
		}
		// negative controls guard the oracle: the EVM must reject these
		switch i % 3 {
		case 0: // one supporter's signature replaced by a non-member's
			bad := convertDkgResultToAbiType(res)
			bad.Signatures = append([]byte(nil), bad.Signatures...)
			outsider, _ := crypto.GenerateKey()
			tc := c40Chain(chainID, outsider)
			h, _ := tc.CalculateDKGResultSignatureHash(&walletKey.PublicKey, append([]group.MemberIndex(nil), misbehaved...), startBlock)
			sig, _ := tc.Signing().Sign(h[:])
			pos := rng.Intn(nSup)
			copy(bad.Signatures[pos*65:], sig)
			out, err := c40Call(evm, caller, c40ValidatorAddr, &w.validator.abi, "validateSignatures", bad, new(big.Int).SetUint64(startBlock))
			if err == nil && out[0].(bool) {
				r.Inconclusive("oracle control failed: EVM accepted a foreign signature")
			}
			r.Count("negative_controls", 1)
		case 1: // wrong start block
			out, err := c40Call(evm, caller, c40ValidatorAddr, &w.validator.abi, "validateSignatures", abiRes, new(big.Int).SetUint64(startBlock+1))
			if err == nil && out[0].(bool) {
				r.Inconclusive("oracle control failed: EVM accepted signatures for another start block")
			}
			r.Count("negative_controls", 1)
		case 2: // members hash over all members although some misbehaved
			if nMis > 0 {
				bad := convertDkgResultToAbiType(res)
				bad.MembersHash, _ = computeOperatorsIDsHash(members)
				out, err := c40Call(evm, caller, c40ValidatorAddr, &w.validator.abi, "validateMembersHash", bad)
				if err == nil && out[0].(bool) {
					r.Inconclusive("oracle control failed: EVM accepted a members hash that ignores misbehaved members")
				}
				r.Count("negative_controls", 1)
			}
		}
		if i%(n/4+1) == 0 {
			r.Sample(map[string]interface{}{"chain_id": chainID.String(), "misbehaved_sorted_by_client": res.MisbehavedMembersIndexes, "supporters": nSup,
				"operating": len(operating), "distinct_operators": len(seatCount), "members_hash": hex.EncodeToString(res.MembersHash[:8]), "evm": "validateFields/validateMembersHash/validateSignatures all true"})
		}
	})
}

func TestVerif_C40_InactivityClaim(t *testing.T) {
	r := verifkit.Start(t, "C40", "inactivity-claim")
	defer r.Finish()
	r.SetRule("100-seat wallets over PRNG operator IDs, inactive sets of 1..40 members (sorted ascending as heartbeat reports them), signer sets of 51..100, nonces, heartbeatFailed both ways, chain ids; the claim assembled by the client and signed over CalculateInactivityClaimHash is judged by the deployed EcdsaInactivity.verifyClaim bytecode (must not revert and must return exactly the inactive members' IDs); non-trivial = signer set != all members or multi-seat operator")
	r.Assume("trusted: go-ethereum core/vm, deployment artifacts, the monitor's in-memory StateDB")
	w, err := c40LoadWorld()
	if err != nil {
		r.Inconclusive("cannot load deployment artifacts: " + err.Error())
		return
	}
	ops := c40Operators()
	n := r.N(80, 3000)
	verifkit.Parallel(n, 0, func(i int) {
		rng := r.SubRand("claim", i)
		const groupSize = 100
		K := 30 + rng.Intn(len(ops)-31)
		members := make([]uint32, groupSize)
		seat := map[uint32]int{}
		for j := range members {
			members[j] = uint32(1 + rng.Intn(K))
			seat[members[j]]++
		}
		idAddress := make([]common.Address, len(ops))
		for id := range ops {
			idAddress[id] = ops[id].addr
		}
		chainID := c40ChainIDs(rng)
		nInactive := 1 + rng.Intn(40)
		inactive := c40Subset(rng, groupSize, nInactive)
		sort.Slice(inactive, func(a, b int) bool { return inactive[a] < inactive[b] })
		nSign := 51 + rng.Intn(50)
		signers := c40Subset(rng, groupSize, nSign)
		walletKey, _ := ecdsa.GenerateKey(crypto.S256(), rng)
		nonce := big.NewInt(rng.Int63n(1 << 32))
		hbFailed := rng.Intn(2) == 0
		desc := fmt.Sprintf("claim chain=%s K=%d inactive=%v signers=%d nonce=%s hb=%v", chainID, K, inactive, nSign, nonce, hbFailed)
		var claim *tbtc.InactivityClaim
		failed := ""
		if r.Guard("claim:", desc, func() {
			pre := &inactivity.ClaimPreimage{Nonce: nonce, WalletPublicKey: &walletKey.PublicKey, InactiveMembersIndexes: inactive, HeartbeatFailed: hbFailed}
			sigs := map[group.MemberIndex][]byte{}
			for _, m := range signers {
				tc := c40Chain(chainID, ops[members[m-1]].key)
				h, err := tc.CalculateInactivityClaimHash(pre)
				if err != nil {
					failed = "hash: " + err.Error()
					return
				}
				s, err := tc.Signing().Sign(h[:])
				if err != nil {
					failed = "sign: " + err.Error()
					return
				}
				sigs[m] = s
			}
			tc := c40Chain(chainID, ops[members[signers[0]-1]].key)
			wid, err := tc.CalculateWalletID(&walletKey.PublicKey)
			if err != nil {
				failed = "walletid: " + err.Error()
				return
			}
			claim, err = tc.AssembleInactivityClaim(wid, inactive, sigs, hbFailed)
			if err != nil {
				failed = "assemble: " + err.Error()
			}
		}) {
			return
		}
		r.Case(desc, nSign != groupSize || len(seat) < groupSize)
		if failed != "" {
			r.Violation("claim:client-error", "client could not build a claim for a legitimate input: "+failed, desc, nil)
			return
		}
		abiClaim := convertInactivityClaimToAbiType(claim)
		pub := make([]byte, 64)
		walletKey.X.FillBytes(pub[:32])
		walletKey.Y.FillBytes(pub[32:])
		evm := w.evm(chainID, idAddress)
		caller := ops[members[signers[0]-1]].addr
		out, err := c40Call(evm, caller, c40InactivityAddr, &w.inactivity.abi, "verifyClaim", c40PoolAddr, abiClaim, pub, nonce, members)
		r.Count("evm_calls", 1)
		if err != nil {
			r.Violation("claim:verifyClaim-reverted", "contract rejects the claim: "+err.Error(), desc, nil)
			return
		}
		got, _ := out[0].([]uint32)
		want := make([]uint32, len(inactive))
		for k, idx := range inactive {
			want[k] = members[idx-1]
		}
		if fmt.Sprint(got) != fmt.Sprint(want) {
			r.Violation("claim:inactive-members-mismatch", fmt.Sprintf("contract derives inactive member ids %v, expected %v", got, want), desc, nil)
		}
		// negative control: different nonce must make the contract reject
		if i%2 == 0 {
			_, err := c40Call(evm, caller, c40InactivityAddr, &w.inactivity.abi, "verifyClaim", c40PoolAddr, abiClaim, pub, new(big.Int).Add(nonce, big.NewInt(1)), members)
			if err == nil {
				r.Inconclusive("oracle control failed: EVM accepted a claim for another nonce")
			}
			r.Count("negative_controls", 1)
		}
		if i%(n/4+1) == 0 {
			r.Sample(map[string]interface{}{"chain_id": chainID.String(), "inactive": inactive, "signers": nSign, "heartbeat_failed": hbFailed, "evm_returned_ids": got})
		}
	})
}
