//go:build verif

package firewall

import (
	"errors"
	"fmt"
	"math/big"
	"reflect"
	"strings"
	"sync"
	"testing"
	"time"
	"unsafe"

	"github.com/keep-network/keep-core/internal/verifkit"
	"github.com/keep-network/keep-core/pkg/chain/local_v1"
	"github.com/keep-network/keep-core/pkg/operator"
)

// answers of an application stub
const (
	c21No  = 0
	c21Yes = 1
	c21Err = 2
)

var c21AnswerNames = [3]string{"no", "yes", "err"}

var c21ErrApp = fmt.Errorf("c21 scripted application failure")

const c21Peers = 6

func c21Keys(n int) []*operator.PublicKey {
	keys := make([]*operator.PublicKey, n)
	for i := range keys {
		_, pk, err := operator.GenerateKeyPair(local_v1.DefaultCurve)
		if err != nil {
			panic(err)
		}
		keys[i] = pk
		// every odd peer is the negation of the preceding one: a different,
		// valid operator key that shares its X coordinate (hostile input for
		// anything that identifies a peer by less than the whole key)
		if i%2 == 1 {
			prev := keys[i-1]
			keys[i] = &operator.PublicKey{
				Curve: prev.Curve,
				X:     new(big.Int).Set(prev.X),
				Y:     new(big.Int).Sub(c21FieldP, prev.Y),
			}
		}
	}
	return keys
}

// the secp256k1 field prime
var c21FieldP, _ = new(big.Int).SetString("fffffffffffffffffffffffffffffffffffffffffffffffffffffffefffffc2f", 16)

// c21Call is one IsRecognized call received by a stub.
type c21Call struct {
	app    int
	answer int
}

// c21World is the scripted environment of one history: the current answer of
// every (application, peer) pair and the calls received since the last reset.
// It is used by one goroutine only (sequential histories).
type c21World struct {
	index   map[string]int // public key string -> peer index
	answers [][c21Peers]int
	calls   []c21Call
	unknown int
}

type c21App struct {
	w   *c21World
	idx int
}

func (a *c21App) IsRecognized(pk *operator.PublicKey) (bool, error) {
	p, ok := a.w.index[pk.String()]
	if !ok {
		a.w.unknown++
		return false, nil
	}
	ans := a.w.answers[a.idx][p]
	a.w.calls = append(a.w.calls, c21Call{a.idx, ans})
	switch ans {
	case c21Yes:
		return true, nil
	case c21Err:
		// the value that comes with an error carries no information: half of
		// the failed checks return true next to the error
		return (a.idx+p)%2 == 0, c21ErrApp
	}
	return false, nil
}

// verdict remembered by the reference model for a peer
const (
	c21None = 0
	c21Pos  = 1
	c21Neg  = 2
)

// c21Step is one step of a history: either a validation of a peer or a change
// of one scripted answer.
type c21Step struct {
	validate bool
	peer     int
	app      int
	answer   int
	age      int // > 0: not a validation but "age minutes of virtual time pass"
}

func (s c21Step) String() string {
	if s.validate {
		return fmt.Sprintf("V%d", s.peer)
	}
	if s.age > 0 {
		return fmt.Sprintf("AGE(%dm)", s.age)
	}
	return fmt.Sprintf("S(a%d,p%d=%s)", s.app, s.peer, c21AnswerNames[s.answer])
}

type c21History struct {
	apps    int
	allowed [c21Peers]bool
	initial [][c21Peers]int
	steps   []c21Step
}

func (h *c21History) desc() string {
	var sb strings.Builder
	fmt.Fprintf(&sb, "apps=%d allow=", h.apps)
	for p := 0; p < c21Peers; p++ {
		if h.allowed[p] {
			sb.WriteByte('1')
		} else {
			sb.WriteByte('0')
		}
	}
	sb.WriteString(" init=")
	for a := 0; a < h.apps; a++ {
		if a > 0 {
			sb.WriteByte('/')
		}
		for p := 0; p < c21Peers; p++ {
			sb.WriteByte("nye"[h.initial[a][p]])
		}
	}
	sb.WriteString(" steps=")
	for i, s := range h.steps {
		if i > 0 {
			sb.WriteByte(' ')
		}
		sb.WriteString(s.String())
	}
	return sb.String()
}

func c21GenHistory(rng interface{ Intn(int) int }) *c21History {
	h := &c21History{}
	// mostly 1..3 applications, occasionally none
	h.apps = 1 + rng.Intn(3)
	if rng.Intn(25) == 0 {
		h.apps = 0
	}
	nAllowed := rng.Intn(3)
	for i := 0; i < nAllowed; i++ {
		h.allowed[rng.Intn(c21Peers)] = true
	}
	// answer distribution profile of this history
	errWeight := []int{0, 1, 3}[rng.Intn(3)]
	pick := func() int {
		x := rng.Intn(6 + errWeight)
		switch {
		case x < 3:
			return c21No
		case x < 6:
			return c21Yes
		}
		return c21Err
	}
	h.initial = make([][c21Peers]int, h.apps)
	for a := 0; a < h.apps; a++ {
		for p := 0; p < c21Peers; p++ {
			h.initial[a][p] = pick()
		}
	}
	nVal := 1 + rng.Intn(30)
	// a few histories concentrate on two peers so that repeated validations
	// of the same peer (cache hits, re-queries after an error) are frequent
	focus := c21Peers
	if rng.Intn(2) == 0 {
		focus = 2
	}
	base := rng.Intn(c21Peers)
	done := 0
	for done < nVal {
		if h.apps > 0 && rng.Intn(3) == 0 {
			h.steps = append(h.steps, c21Step{
				validate: false,
				app:      rng.Intn(h.apps),
				peer:     (base + rng.Intn(focus)) % c21Peers,
				answer:   pick(),
			})
			continue
		}
		h.steps = append(h.steps, c21Step{validate: true, peer: (base + rng.Intn(focus)) % c21Peers})
		done++
	}
	return h
}

// c21RunHistory executes one history against a fresh policy and decides every
// validation. The oracle works on the answers the stubs actually gave during
// the validation, so it does not depend on the order or number of queries the
// policy chooses to make.
func c21RunHistory(r *verifkit.Run, keys []*operator.PublicKey, index map[string]int, h *c21History) (nontrivial bool, stats map[string]int64) {
	stats = map[string]int64{}
	desc := h.desc()
	w := &c21World{index: index, answers: make([][c21Peers]int, h.apps)}
	copy(w.answers, h.initial)
	apps := make([]Application, h.apps)
	for a := range apps {
		apps[a] = &c21App{w, a}
	}
	var allowKeys []*operator.PublicKey
	for p := 0; p < c21Peers; p++ {
		if h.allowed[p] {
			allowKeys = append(allowKeys, keys[p])
		}
	}
	policy := AnyApplicationPolicy(apps, NewAllowList(allowKeys))

	var remembered [c21Peers]int
	var ageMin [c21Peers]int      // virtual minutes since remembered[p] was established
	var sawError [c21Peers]bool   // an error answer was given for the peer
	var errPending [c21Peers]bool // last decision for the peer failed on an error, nothing may be remembered
	changed := false

	for si, st := range h.steps {
		if !st.validate && st.age > 0 {
			if !c21AgeCaches(policy, time.Duration(st.age)*time.Minute) {
				stats["aging_unavailable"]++
				return nontrivial, stats
			}
			stats["agings"]++
			for p := 0; p < c21Peers; p++ {
				ageMin[p] += st.age
			}
			continue
		}
		if !st.validate {
			if w.answers[st.app][st.peer] != st.answer {
				changed = true
			}
			w.answers[st.app][st.peer] = st.answer
			continue
		}
		p := st.peer
		w.calls = w.calls[:0]
		var err error
		stepDesc := fmt.Sprintf("%s @step %d (%s)", desc, si, st)
		if r.Guard("validate:", stepDesc, func() { err = policy.Validate(keys[p]) }) {
			return nontrivial, stats
		}
		admitted := err == nil
		stats["validations"]++

		if h.allowed[p] {
			stats["allowlisted"]++
			if !admitted {
				r.Violation("allowlisted-rejected", "an allowlisted peer was not admitted: "+err.Error(), stepDesc, nil)
			}
			continue
		}

		// a remembered verdict whose caching period has passed (in virtual
		// time; ages are multiples of 25 min, so never within 5 min of a
		// period boundary) may no longer be reused
		expired := c21None
		if (remembered[p] == c21Pos && ageMin[p] > c21PosPeriodMin) || (remembered[p] == c21Neg && ageMin[p] > c21NegPeriodMin) {
			expired = remembered[p]
			remembered[p] = c21None
			if h.apps > 0 {
				nontrivial = true
			}
		}

		calls := append([]c21Call(nil), w.calls...)
		if expired != c21None && len(calls) > 0 {
			stats["requeried_after_expiry"]++
		}
		if len(calls) == 0 {
			// no application was asked: the verdict is either a reused
			// earlier answer or (no applications at all) a rejection
			switch {
			case remembered[p] == c21Pos:
				stats["reused_positive"]++
				if !admitted {
					r.Violation("cached-positive-rejected", "peer recognised earlier in the caching period was rejected without asking any application: "+err.Error(), stepDesc, nil)
				}
			case remembered[p] == c21Neg:
				stats["reused_negative"]++
				if admitted {
					r.Violation("cached-negative-admitted", "peer rejected earlier was admitted without asking any application", stepDesc, nil)
				}
			case h.apps == 0:
				stats["no_applications"]++
				if admitted {
					r.Violation("admitted-without-applications", "peer admitted although there is no application and no allowlist entry", stepDesc, nil)
				}
				remembered[p] = c21Neg
				ageMin[p] = 0
			default:
				// nothing may be remembered for this peer, yet nobody was asked
				fp := "verdict-without-query"
				what := "verdict given without asking any application although no earlier answer exists for the peer"
				if expired == c21Pos {
					fp, what = "expired-positive-reused", fmt.Sprintf("a recognition older than its caching period (%d virtual minutes > %d) was reused without asking any application", ageMin[p], c21PosPeriodMin)
				} else if expired == c21Neg {
					fp, what = "expired-negative-reused", fmt.Sprintf("a rejection older than its caching period (%d virtual minutes > %d) was reused without asking any application", ageMin[p], c21NegPeriodMin)
				} else if errPending[p] {
					if admitted {
						fp, what = "error-remembered-as-admission", "after a failed recognition check the peer was admitted without asking any application again"
					} else {
						fp, what = "error-remembered-as-rejection", "a failed recognition check was remembered: the next validation rejected the peer without asking any application"
					}
				}
				r.Violation(fp, what, stepDesc, map[string]interface{}{"admitted": admitted, "error": fmt.Sprint(err)})
			}
			continue
		}

		// fresh decision from the observed answers
		anyErr, anyYes := false, false
		yesBeforeAnyError := false
		asked := map[int]bool{}
		for _, c := range calls { // in the order the applications were asked
			asked[c.app] = true
			if c.answer == c21Err {
				anyErr = true
			}
			if c.answer == c21Yes {
				anyYes = true
				if !anyErr {
					yesBeforeAnyError = true
				}
			}
		}
		if yesBeforeAnyError && anyErr {
			// an application had already recognised the peer when another
			// check failed: "admitted iff ... at least one application
			// recognizes it" - the later failure must not turn the recognised
			// peer away (nor does the property allow it to be remembered as
			// anything but recognised)
			stats["decisions_yes_then_error"]++
			if !admitted {
				r.Violation("recognized-rejected-by-later-failure", "an application recognised the peer before any check failed, but the peer was rejected because a later application failed: "+fmt.Sprint(err), stepDesc, c21CallNames(calls))
			}
			remembered[p] = c21Pos
			ageMin[p] = 0
			errPending[p] = false
			continue
		}
		if errPending[p] {
			stats["requeried_after_error"]++
		}
		if remembered[p] != c21None {
			stats["requeried_although_remembered"]++
		}
		switch {
		case anyErr:
			sawError[p] = true
			stats["decisions_error"]++
			if admitted {
				r.Violation("admitted-on-error", "peer admitted by a validation in which a recognition check failed", stepDesc, c21CallNames(calls))
			} else if errors.Is(err, errNotRecognized) {
				// not demanded by the property; counted only
				stats["error_reported_as_not_recognized"]++
			}
			errPending[p] = true
		case anyYes:
			stats["decisions_yes"]++
			if !admitted {
				r.Violation("recognized-rejected", "an application recognised the peer and none failed, but the peer was rejected: "+err.Error(), stepDesc, c21CallNames(calls))
			}
			remembered[p] = c21Pos
			ageMin[p] = 0
			errPending[p] = false
		default:
			stats["decisions_no"]++
			if admitted {
				r.Violation("unrecognized-admitted", "every application asked answered no, but the peer was admitted", stepDesc, c21CallNames(calls))
			}
			if len(asked) < h.apps {
				// rejected without asking everybody: only wrong when one of
				// the others would have recognised the peer
				for a := 0; a < h.apps; a++ {
					if !asked[a] && w.answers[a][p] == c21Yes {
						r.Violation("rejected-without-asking-recognizing-application", fmt.Sprintf("peer rejected although application %d, which was not asked, recognises it", a), stepDesc, c21CallNames(calls))
						break
					}
				}
			}
			remembered[p] = c21Neg
			ageMin[p] = 0
			errPending[p] = false
		}
	}
	for p := 0; p < c21Peers; p++ {
		if sawError[p] {
			nontrivial = true
		}
	}
	if changed {
		nontrivial = true
	}
	if w.unknown > 0 {
		r.Violation("unknown-key-queried", "an application was asked about a public key that was never validated", desc, w.unknown)
	}
	return nontrivial, stats
}

func c21CallNames(cs []c21Call) []string {
	out := make([]string, len(cs))
	for i, c := range cs {
		out[i] = fmt.Sprintf("app%d:%s", c.app, c21AnswerNames[c.answer])
	}
	return out
}

func TestVerif_C21_Policy(t *testing.T) {
	r := verifkit.Start(t, "C21", "policy")
	defer r.Finish()
	r.SetRule("histories from the PRNG: 0-3 scripted applications, 6 peers (0-2 allowlisted), 1-30 validations interleaved with changes of single (application, peer) answers among yes/no/error; each validation is decided from the answers the stubs actually gave during it and from the verdicts a reference remembers. non-trivial = an error answer was given during the history or a scripted answer changed")
	r.Assume("this part never advances time: every remembered verdict is still inside its period (expiry is exercised by the expiry part)")
	r.Assume("the policy is built by the production constructor AnyApplicationPolicy (real keep-common TimeCache)")

	keys := c21Keys(c21Peers)
	index := map[string]int{}
	for i, k := range keys {
		index[k.String()] = i
	}
	n := r.N(20000, 200000)
	var mu sync.Mutex
	total := map[string]int64{}
	verifkit.Parallel(n, 0, func(i int) {
		h := c21GenHistory(r.SubRand("history", i))
		nt, stats := c21RunHistory(r, keys, index, h)
		r.Case(h.desc(), nt)
		mu.Lock()
		for k, v := range stats {
			total[k] += v
		}
		mu.Unlock()
		if i < 4 {
			r.Sample(map[string]interface{}{"history": h.desc(), "nontrivial": nt, "stats": stats})
		}
	})
	for k, v := range total {
		r.Count(k, v)
	}
	if total["requeried_after_error"] == 0 || total["reused_negative"] == 0 || total["reused_positive"] == 0 {
		r.Inconclusive("the workload never exercised a cache reuse or a re-query after an error")
	}
}

// caching periods in minutes, from the production constants
var (
	c21PosPeriodMin = int(PositiveIsRecognizedCachePeriod / time.Minute)
	c21NegPeriodMin = int(NegativeIsRecognizedCachePeriod / time.Minute)
)

// c21AgeCaches lets d of virtual time pass for the policy: every time stamp
// held by a keep-common TimeCache reachable from the policy struct is moved d
// into the past, under the cache's own mutex. Nothing else is touched, so the
// production expiry logic (Sweep / Has / Add) runs unmodified on the aged
// entries. The caches are found reflectively (any field of type
// *cache.TimeCache), so renaming or adding a cache does not blind the monitor.
// Returns false when no cache was found or its layout is not the expected one.
func c21AgeCaches(policy interface{}, d time.Duration) bool {
	v := reflect.ValueOf(policy)
	for v.Kind() == reflect.Ptr || v.Kind() == reflect.Interface {
		if v.IsNil() {
			return false
		}
		v = v.Elem()
	}
	if v.Kind() != reflect.Struct {
		return false
	}
	found := 0
	for i := 0; i < v.NumField(); i++ {
		f := v.Field(i)
		if f.Kind() != reflect.Ptr || f.IsNil() || f.Type().Elem().Kind() != reflect.Struct || f.Type().Elem().Name() != "TimeCache" {
			continue
		}
		tc := f.Elem()
		cf, mf := tc.FieldByName("cache"), tc.FieldByName("mutex")
		if !cf.IsValid() || !mf.IsValid() || !cf.CanAddr() || !mf.CanAddr() {
			return false
		}
		m, ok1 := reflect.NewAt(cf.Type(), unsafe.Pointer(cf.UnsafeAddr())).Elem().Interface().(map[string]time.Time)
		mu, ok2 := reflect.NewAt(mf.Type(), unsafe.Pointer(mf.UnsafeAddr())).Interface().(*sync.RWMutex)
		if !ok1 || !ok2 {
			return false
		}
		mu.Lock()
		for k, ts := range m {
			m[k] = ts.Add(-d)
		}
		mu.Unlock()
		found++
	}
	return found > 0
}

// c21GenAgingHistory is c21GenHistory with "virtual time passes" steps mixed
// in: 25 min (three of them outlive a rejection) and 425 min (one outlives a
// rejection, two a recognition). All reachable ages are multiples of 25 min;
// the periods (60 and 720 min) are not, so no verdict is ever evaluated within
// 5 virtual minutes of its expiry and the seconds a run really takes cannot
// change the outcome.
func c21GenAgingHistory(rng interface{ Intn(int) int }) *c21History {
	h := c21GenHistory(rng)
	profile := rng.Intn(3) // 0: short steps mostly, 1: long steps mostly, 2: mixed, rare
	var out []c21Step
	for _, st := range h.steps {
		out = append(out, st)
		var doAge bool
		switch profile {
		case 0, 1:
			doAge = rng.Intn(3) == 0
		default:
			doAge = rng.Intn(8) == 0
		}
		if !doAge {
			continue
		}
		age := 25
		if (profile == 1 && rng.Intn(4) != 0) || (profile != 1 && rng.Intn(4) == 0) {
			age = 425
		}
		out = append(out, c21Step{age: age})
	}
	h.steps = out
	return h
}

func TestVerif_C21_Expiry(t *testing.T) {
	r := verifkit.Start(t, "C21", "expiry")
	defer r.Finish()
	r.SetRule("the histories of the policy part with steps 'N minutes of virtual time pass' mixed in (25 or 425 min; the time stamps inside the policy's keep-common TimeCaches are moved into the past under the caches' own mutex, the production expiry code runs unmodified). A remembered verdict may be reused only while younger than its production caching period (1 h for rejections, 12 h for recognitions); after that a validation must ask the applications again and follow their current answers. non-trivial = an error answer was given, a scripted answer changed or a remembered verdict expired before a validation")
	r.Assume("virtual ages are multiples of 25 min, the periods are not: no verdict is evaluated within 5 virtual minutes of its expiry, so the real duration of a history (microseconds) cannot change a verdict")
	r.Assume("the policy is built by the production constructor AnyApplicationPolicy; its TimeCache fields are located reflectively")

	keys := c21Keys(c21Peers)
	index := map[string]int{}
	for i, k := range keys {
		index[k.String()] = i
	}
	n := r.N(20000, 200000)
	var mu sync.Mutex
	total := map[string]int64{}
	verifkit.Parallel(n, 0, func(i int) {
		h := c21GenAgingHistory(r.SubRand("aging-history", i))
		nt, stats := c21RunHistory(r, keys, index, h)
		r.Case(h.desc(), nt)
		mu.Lock()
		for k, v := range stats {
			total[k] += v
		}
		mu.Unlock()
		if i < 4 {
			r.Sample(map[string]interface{}{"history": h.desc(), "nontrivial": nt, "stats": stats})
		}
	})
	for k, v := range total {
		r.Count(k, v)
	}
	if total["aging_unavailable"] > 0 {
		r.Inconclusive("no keep-common TimeCache with the expected layout was found in the policy: virtual time could not be advanced")
	} else if total["requeried_after_expiry"] == 0 || total["reused_negative"] == 0 || total["reused_positive"] == 0 {
		r.Inconclusive("the workload never exercised a reuse inside the period and a re-query after expiry")
	}
}
