//go:build verif

package firewall

import (
	"fmt"
	"strings"
	"sync"
	"testing"

	"github.com/keep-network/keep-core/internal/verifkit"
	"github.com/keep-network/keep-core/pkg/operator"
)

// Concurrent part of C21 (run under -race): several goroutines validate an
// overlapping set of peers against one policy. The application answers are
// constant during a phase and change only between phases (after wg.Wait), so
// the admissible verdicts of every validation are known without observing the
// interleaving. Stubs only read an immutable table and results go to
// per-goroutine slots, so the monitor adds no synchronisation of its own.

const (
	c21RacePeers   = 10
	c21RaceApps    = 3
	c21RacePhases  = 3
	c21RaceWorkers = 8
	c21RaceOps     = 24
)

type c21RaceTable [c21RaceApps][c21RacePeers]int

type c21RaceApp struct {
	index map[string]int
	idx   int
	table *c21RaceTable // replaced between phases only
}

func (a *c21RaceApp) IsRecognized(pk *operator.PublicKey) (bool, error) {
	p, ok := a.index[pk.String()]
	if !ok {
		return false, nil
	}
	switch a.table[a.idx][p] {
	case c21Yes:
		return true, nil
	case c21Err:
		return (a.idx+p)%2 == 0, c21ErrApp
	}
	return false, nil
}

// c21Fresh returns which verdicts a fresh decision may give for the column of
// answers (admit, reject) and which verdicts it may leave remembered.
func c21Fresh(col [c21RaceApps]int) (admit, reject, remPos, remNeg, remNone bool) {
	firstErr, firstYes := -1, -1
	for a, x := range col {
		if x == c21Err && firstErr < 0 {
			firstErr = a
		}
		if x == c21Yes && firstYes < 0 {
			firstYes = a
		}
	}
	switch {
	case firstErr < 0 && firstYes >= 0:
		return true, false, true, false, false
	case firstErr < 0:
		return false, true, false, true, false
	case firstYes < 0 || firstErr < firstYes:
		// a check fails before anybody recognises the peer
		return false, true, false, false, true
	default:
		// recognised before the failing application is reached: admitting
		// (and remembering) is correct, asking everybody and failing too
		return true, true, true, false, true
	}
}

func TestVerif_C21_ConcurrentRace(t *testing.T) {
	r := verifkit.Start(t, "C21", "concurrent")
	defer r.Finish()
	r.SetRule(fmt.Sprintf("concurrent histories: one policy, %d applications, %d peers (0-2 allowlisted), %d phases with a fresh random answer table each, %d goroutines x %d validations per phase on PRNG-chosen peers; admissible verdicts per (phase, peer) from a set-valued reference of remembered verdicts. non-trivial = a peer with an error answer or a changed answer was validated", c21RaceApps, c21RacePeers, c21RacePhases, c21RaceWorkers, c21RaceOps))
	r.Assume("cache expiry is not exercised (periods 12 h / 1 h)")
	r.Assume("answers are constant while validations run; they change only at quiescent points")

	keys := c21Keys(c21RacePeers)
	index := map[string]int{}
	for i, k := range keys {
		index[k.String()] = i
	}
	n := r.N(200, 5000)
	type outcome struct {
		peer     int
		admitted bool
	}
	for hi := 0; hi < n; hi++ {
		rng := r.SubRand("concurrent", hi)
		var allowed [c21RacePeers]bool
		var allowKeys []*operator.PublicKey
		for i := rng.Intn(3); i > 0; i-- {
			p := rng.Intn(c21RacePeers)
			if !allowed[p] {
				allowed[p] = true
				allowKeys = append(allowKeys, keys[p])
			}
		}
		tables := make([]*c21RaceTable, c21RacePhases)
		for ph := range tables {
			tb := &c21RaceTable{}
			for a := 0; a < c21RaceApps; a++ {
				for p := 0; p < c21RacePeers; p++ {
					switch x := rng.Intn(8); {
					case x < 3:
						tb[a][p] = c21No
					case x < 5:
						tb[a][p] = c21Yes
					default:
						tb[a][p] = c21Err
					}
				}
			}
			// make whole columns uniform now and then so that all-no /
			// all-error peers are common
			for p := 0; p < c21RacePeers; p++ {
				if u := rng.Intn(4); u < 2 {
					v := []int{c21No, c21Err}[u]
					for a := 0; a < c21RaceApps; a++ {
						tb[a][p] = v
					}
				}
			}
			tables[ph] = tb
		}
		// scripts
		scripts := make([][][]int, c21RacePhases)
		for ph := range scripts {
			scripts[ph] = make([][]int, c21RaceWorkers)
			hot := rng.Intn(c21RacePeers)
			for g := range scripts[ph] {
				ops := make([]int, c21RaceOps)
				for k := range ops {
					if rng.Intn(3) == 0 {
						ops[k] = hot
					} else {
						ops[k] = rng.Intn(c21RacePeers)
					}
				}
				scripts[ph][g] = ops
			}
		}
		var sb strings.Builder
		fmt.Fprintf(&sb, "concurrent#%d allow=%v tables=", hi, allowed)
		for _, tb := range tables {
			for a := 0; a < c21RaceApps; a++ {
				for p := 0; p < c21RacePeers; p++ {
					sb.WriteByte("nye"[tb[a][p]])
				}
				sb.WriteByte('/')
			}
			sb.WriteByte(' ')
		}
		fmt.Fprintf(&sb, "scripts=%v", scripts)
		desc := sb.String()

		apps := make([]*c21RaceApp, c21RaceApps)
		ifaces := make([]Application, c21RaceApps)
		for a := range apps {
			apps[a] = &c21RaceApp{index: index, idx: a}
			ifaces[a] = apps[a]
		}
		policy := AnyApplicationPolicy(ifaces, NewAllowList(allowKeys))

		// possible remembered verdicts per peer
		var mayPos, mayNeg [c21RacePeers]bool
		nontrivial := false
		panicked := false
		for ph := 0; ph < c21RacePhases && !panicked; ph++ {
			for a := range apps {
				apps[a].table = tables[ph]
			}
			results := make([][]outcome, c21RaceWorkers)
			pan := make([]bool, c21RaceWorkers)
			var wg sync.WaitGroup
			for g := 0; g < c21RaceWorkers; g++ {
				wg.Add(1)
				go func(g int) {
					defer wg.Done()
					out := make([]outcome, 0, c21RaceOps)
					pan[g] = r.Guard("concurrent:", desc, func() {
						for _, p := range scripts[ph][g] {
							err := policy.Validate(keys[p])
							out = append(out, outcome{p, err == nil})
						}
					})
					results[g] = out
				}(g)
			}
			wg.Wait()
			var validated [c21RacePeers]bool
			for g := range results {
				if pan[g] {
					panicked = true
				}
				for _, o := range results[g] {
					validated[o.peer] = true
					p := o.peer
					var col [c21RaceApps]int
					for a := 0; a < c21RaceApps; a++ {
						col[a] = tables[ph][a][p]
					}
					fa, fr, _, _, _ := c21Fresh(col)
					okAdmit := allowed[p] || mayPos[p] || fa
					okReject := !allowed[p] && (mayNeg[p] || fr)
					caseDesc := func() string { return fmt.Sprintf("%s @phase %d goroutine %d peer %d", desc, ph, g, p) }
					if o.admitted && !okAdmit {
						fp := "concurrent:admitted-unrecognized"
						for _, x := range col {
							if x == c21Err {
								fp = "concurrent:admitted-on-error"
							}
						}
						r.Violation(fp, "peer admitted although it is not allowlisted, no application recognises it without a failing check, and no earlier admission can be remembered", caseDesc(), col)
					}
					if !o.admitted && !okReject {
						fp := "concurrent:rejected-recognized"
						if allowed[p] {
							fp = "concurrent:rejected-allowlisted"
						}
						r.Violation(fp, "peer rejected although it is allowlisted / recognised and no earlier rejection can be remembered (an earlier error must not be remembered)", caseDesc(), col)
					}
				}
			}
			// advance the set of verdicts that may be remembered
			for p := 0; p < c21RacePeers; p++ {
				if !validated[p] || allowed[p] {
					continue
				}
				var col [c21RaceApps]int
				hasErr := false
				for a := 0; a < c21RaceApps; a++ {
					col[a] = tables[ph][a][p]
					if col[a] == c21Err {
						hasErr = true
					}
				}
				if hasErr || (ph > 0 && tables[ph-1] != nil && func() bool {
					for a := 0; a < c21RaceApps; a++ {
						if tables[ph-1][a][p] != col[a] {
							return true
						}
					}
					return false
				}()) {
					nontrivial = true
				}
				// a fresh decision is always possible (reuse is optional), so
				// the remembered sets only grow
				_, _, rp, rn, _ := c21Fresh(col)
				mayPos[p] = mayPos[p] || rp
				mayNeg[p] = mayNeg[p] || rn
			}
		}
		r.Case(desc, nontrivial)
		if hi < 2 {
			r.Sample(map[string]interface{}{"history": hi, "allowlisted": allowed, "tables": tables, "validations": c21RacePhases * c21RaceWorkers * c21RaceOps})
		}
		r.Count("validations", int64(c21RacePhases*c21RaceWorkers*c21RaceOps))
	}
}
