//go:build verif

package bitcoin

import (
	"bytes"
	"crypto/sha256"
	"encoding/binary"
	"encoding/hex"
	"fmt"
	"math/rand"
	"strings"
	"sync/atomic"
	"testing"

	"github.com/keep-network/keep-core/internal/verifkit"
)

// ---------------------------------------------------------------------------
// Independent reference encoders (written from the Bitcoin developer
// reference / BIP-144; they share no code with btcd or the package).
// ---------------------------------------------------------------------------

func c29CompactSize(v uint64) []byte {
	switch {
	case v <= 252:
		return []byte{byte(v)}
	case v <= 0xffff:
		return []byte{0xfd, byte(v), byte(v >> 8)}
	case v <= 0xffffffff:
		return []byte{0xfe, byte(v), byte(v >> 8), byte(v >> 16), byte(v >> 24)}
	default:
		b := make([]byte, 9)
		b[0] = 0xff
		binary.LittleEndian.PutUint64(b[1:], v)
		return b
	}
}

func c29LE32(v uint32) []byte {
	return []byte{byte(v), byte(v >> 8), byte(v >> 16), byte(v >> 24)}
}

func c29HasWitness(tx *Transaction) bool {
	for _, in := range tx.Inputs {
		if len(in.Witness) > 0 {
			return true
		}
	}
	return false
}

func c29EncodeInputs(tx *Transaction) []byte {
	var b bytes.Buffer
	b.Write(c29CompactSize(uint64(len(tx.Inputs))))
	for _, in := range tx.Inputs {
		b.Write(in.Outpoint.TransactionHash[:])
		b.Write(c29LE32(in.Outpoint.OutputIndex))
		b.Write(c29CompactSize(uint64(len(in.SignatureScript))))
		b.Write(in.SignatureScript)
		b.Write(c29LE32(in.Sequence))
	}
	return b.Bytes()
}

func c29EncodeOutputs(tx *Transaction) []byte {
	var b bytes.Buffer
	b.Write(c29CompactSize(uint64(len(tx.Outputs))))
	for _, out := range tx.Outputs {
		var v [8]byte
		binary.LittleEndian.PutUint64(v[:], uint64(out.Value))
		b.Write(v[:])
		b.Write(c29CompactSize(uint64(len(out.PublicKeyScript))))
		b.Write(out.PublicKeyScript)
	}
	return b.Bytes()
}

func c29Encode(tx *Transaction, witnessFormat bool) []byte {
	var b bytes.Buffer
	b.Write(c29LE32(uint32(tx.Version)))
	wit := witnessFormat && c29HasWitness(tx)
	if wit {
		b.Write([]byte{0x00, 0x01})
	}
	b.Write(c29EncodeInputs(tx))
	b.Write(c29EncodeOutputs(tx))
	if wit {
		for _, in := range tx.Inputs {
			b.Write(c29CompactSize(uint64(len(in.Witness))))
			for _, item := range in.Witness {
				b.Write(c29CompactSize(uint64(len(item))))
				b.Write(item)
			}
		}
	}
	b.Write(c29LE32(tx.Locktime))
	return b.Bytes()
}

func c29DSha(b []byte) Hash {
	h1 := sha256.Sum256(b)
	return Hash(sha256.Sum256(h1[:]))
}

func c29Reverse(b []byte) []byte {
	o := make([]byte, len(b))
	for i := range b {
		o[len(b)-1-i] = b[i]
	}
	return o
}

// c29Diff compares two transactions field by field; nil and empty slices are
// the same value. It returns "" when equal.
func c29Diff(a, b *Transaction) string {
	if a.Version != b.Version {
		return fmt.Sprintf("version %d != %d", a.Version, b.Version)
	}
	if a.Locktime != b.Locktime {
		return fmt.Sprintf("locktime %d != %d", a.Locktime, b.Locktime)
	}
	if len(a.Inputs) != len(b.Inputs) {
		return fmt.Sprintf("input count %d != %d", len(a.Inputs), len(b.Inputs))
	}
	if len(a.Outputs) != len(b.Outputs) {
		return fmt.Sprintf("output count %d != %d", len(a.Outputs), len(b.Outputs))
	}
	for i := range a.Inputs {
		x, y := a.Inputs[i], b.Inputs[i]
		if x.Outpoint == nil || y.Outpoint == nil {
			return fmt.Sprintf("input %d: nil outpoint", i)
		}
		if *x.Outpoint != *y.Outpoint {
			return fmt.Sprintf("input %d: outpoint differs", i)
		}
		if x.Sequence != y.Sequence {
			return fmt.Sprintf("input %d: sequence %d != %d", i, x.Sequence, y.Sequence)
		}
		if !bytes.Equal(x.SignatureScript, y.SignatureScript) {
			return fmt.Sprintf("input %d: signature script differs (len %d vs %d)", i, len(x.SignatureScript), len(y.SignatureScript))
		}
		if len(x.Witness) != len(y.Witness) {
			return fmt.Sprintf("input %d: witness stack size %d != %d", i, len(x.Witness), len(y.Witness))
		}
		for k := range x.Witness {
			if !bytes.Equal(x.Witness[k], y.Witness[k]) {
				return fmt.Sprintf("input %d: witness item %d differs", i, k)
			}
		}
	}
	for i := range a.Outputs {
		if a.Outputs[i].Value != b.Outputs[i].Value {
			return fmt.Sprintf("output %d: value %d != %d", i, a.Outputs[i].Value, b.Outputs[i].Value)
		}
		if !bytes.Equal(a.Outputs[i].PublicKeyScript, b.Outputs[i].PublicKeyScript) {
			return fmt.Sprintf("output %d: script differs", i)
		}
	}
	return ""
}

func c29Clone(tx *Transaction, keepWitness bool) *Transaction {
	o := &Transaction{Version: tx.Version, Locktime: tx.Locktime}
	for _, in := range tx.Inputs {
		op := *in.Outpoint
		ni := &TransactionInput{Outpoint: &op, Sequence: in.Sequence,
			SignatureScript: append([]byte(nil), in.SignatureScript...)}
		if keepWitness {
			for _, it := range in.Witness {
				ni.Witness = append(ni.Witness, append([]byte{}, it...))
			}
		}
		o.Inputs = append(o.Inputs, ni)
	}
	for _, out := range tx.Outputs {
		o.Outputs = append(o.Outputs, &TransactionOutput{Value: out.Value,
			PublicKeyScript: append(Script(nil), out.PublicKeyScript...)})
	}
	return o
}

// ---------------------------------------------------------------------------
// Generators
// ---------------------------------------------------------------------------

func c29Bytes(rng *rand.Rand, n int) []byte {
	b := make([]byte, n)
	rng.Read(b)
	return b
}

func c29Count(rng *rand.Rand, allowZero bool, huge bool) int {
	if huge {
		return []int{65535, 65536}[rng.Intn(2)]
	}
	var n int
	switch rng.Intn(12) {
	case 0, 1, 2:
		n = 1
	case 3, 4:
		n = 1 + rng.Intn(4)
	case 5:
		n = 1 + rng.Intn(20)
	case 6:
		n = 252
	case 7:
		n = 253
	case 8:
		n = 254 + rng.Intn(3)
	case 9:
		n = 1 + rng.Intn(300)
	case 10:
		n = 250 + rng.Intn(8)
	default:
		if allowZero {
			n = 0
		} else {
			n = 2
		}
	}
	return n
}

func c29ScriptLen(rng *rand.Rand, small bool) int {
	if small {
		switch rng.Intn(40) {
		case 0:
			return 253
		case 1:
			return 252
		default:
			return rng.Intn(30)
		}
	}
	switch rng.Intn(10) {
	case 0:
		return 0
	case 1:
		return 252
	case 2:
		return 253
	case 3:
		return 254 + rng.Intn(3)
	case 4:
		return rng.Intn(601)
	case 5:
		return 107
	default:
		return rng.Intn(80)
	}
}

type c29Shape struct {
	In, Out     int
	WitnessIn   int
	MaxStack    int
	BothScripts int
	MaxScript   int
	Bytes       int
}

// c29GenTx generates a transaction. mode: 0 mixed, 1 no witness at all,
// 2 every input has a witness.
func c29GenTx(rng *rand.Rand, hugeIn, hugeOut bool) (*Transaction, c29Shape) {
	var sh c29Shape
	tx := &Transaction{}
	switch rng.Intn(6) {
	case 0:
		tx.Version = 1
	case 1:
		tx.Version = 2
	case 2:
		tx.Version = -1
	case 3:
		tx.Version = int32(rng.Uint32())
	default:
		tx.Version = int32(1 + rng.Intn(2))
	}
	switch rng.Intn(4) {
	case 0:
		tx.Locktime = 0
	case 1:
		tx.Locktime = 0xffffffff
	default:
		tx.Locktime = rng.Uint32()
	}
	nIn := c29Count(rng, false, hugeIn)
	nOut := c29Count(rng, true, hugeOut)
	mode := rng.Intn(4) // 0,3 mixed; 1 none; 2 all
	small := nIn+nOut > 40
	if hugeIn || hugeOut {
		small = true
	}
	sh.In, sh.Out = nIn, nOut
	for i := 0; i < nIn; i++ {
		in := &TransactionInput{Outpoint: &TransactionOutpoint{}}
		rng.Read(in.Outpoint.TransactionHash[:])
		switch rng.Intn(4) {
		case 0:
			in.Outpoint.OutputIndex = 0
		case 1:
			in.Outpoint.OutputIndex = 0xffffffff
		default:
			in.Outpoint.OutputIndex = rng.Uint32()
		}
		switch rng.Intn(3) {
		case 0:
			in.Sequence = 0xffffffff
		case 1:
			in.Sequence = 0xfffffffd
		default:
			in.Sequence = rng.Uint32()
		}
		wit := mode == 2 || ((mode == 0 || mode == 3) && rng.Intn(2) == 0)
		if hugeIn {
			wit = i%4096 == 7
		}
		sig := !wit
		if wit && rng.Intn(6) == 0 {
			sig = true // nested SegWit: both a signature script and a witness
			sh.BothScripts++
		}
		if sig && !hugeIn {
			l := c29ScriptLen(rng, small)
			if rng.Intn(2) == 0 {
				in.SignatureScript = c29Bytes(rng, l) // may be empty non-nil
			} else if l > 0 {
				in.SignatureScript = c29Bytes(rng, l)
			}
			if l > sh.MaxScript {
				sh.MaxScript = l
			}
		}
		if wit {
			items := rng.Intn(6)
			if rng.Intn(5) == 0 || mode == 2 {
				items = 1 + rng.Intn(5)
			}
			if !small && rng.Intn(60) == 0 {
				items = 252 + rng.Intn(4) // stack size across the compact-size boundary
			}
			if items > 0 {
				sh.WitnessIn++
			}
			if items > sh.MaxStack {
				sh.MaxStack = items
			}
			in.Witness = make([][]byte, 0, items)
			for k := 0; k < items; k++ {
				l := c29ScriptLen(rng, small || items > 10)
				if l > sh.MaxScript {
					sh.MaxScript = l
				}
				in.Witness = append(in.Witness, c29Bytes(rng, l))
			}
		}
		tx.Inputs = append(tx.Inputs, in)
	}
	for i := 0; i < nOut; i++ {
		out := &TransactionOutput{}
		switch rng.Intn(6) {
		case 0:
			out.Value = 0
		case 1:
			out.Value = 1<<63 - 1
		case 2:
			out.Value = -rng.Int63()
		default:
			out.Value = rng.Int63n(21_000_000 * 100_000_000)
		}
		if !hugeOut {
			l := c29ScriptLen(rng, small)
			if l > sh.MaxScript {
				sh.MaxScript = l
			}
			if l > 0 || rng.Intn(2) == 0 {
				out.PublicKeyScript = c29Bytes(rng, l)
			}
		}
		tx.Outputs = append(tx.Outputs, out)
	}
	return tx, sh
}

// ---------------------------------------------------------------------------
// Transactions
// ---------------------------------------------------------------------------

func c29CheckTx(r *verifkit.Run, origin string, tx *Transaction, desc string) {
	refStd := c29Encode(tx, false)
	refWit := c29Encode(tx, true)
	hasWit := c29HasWitness(tx)
	w := func(extra ...interface{}) interface{} {
		m := map[string]interface{}{"inputs": len(tx.Inputs), "outputs": len(tx.Outputs), "has_witness": hasWit}
		if len(refWit) <= 400 {
			m["reference_witness_serialization"] = hex.EncodeToString(refWit)
		}
		if len(extra) > 0 {
			m["detail"] = extra
		}
		return m
	}
	var std, wit, def, ins, outs []byte
	var ver, lock [4]byte
	var hash, whash Hash
	if r.Guard(origin+":serialize:", desc, func() {
		std = tx.Serialize(Standard)
		wit = tx.Serialize(Witness)
		def = tx.Serialize()
		ver = tx.SerializeVersion()
		ins = tx.SerializeInputs()
		outs = tx.SerializeOutputs()
		lock = tx.SerializeLocktime()
		hash = tx.Hash()
		whash = tx.WitnessHash()
	}) {
		return
	}
	// bytes against the independent encoder
	if !bytes.Equal(std, refStd) {
		r.Violation(origin+":bytes:standard", "Serialize(Standard) differs from the reference encoding", desc, w(len(std), len(refStd)))
	}
	if !bytes.Equal(wit, refWit) {
		r.Violation(origin+":bytes:witness", "Serialize(Witness) differs from the reference encoding", desc, w(len(wit), len(refWit)))
	}
	if !bytes.Equal(def, wit) {
		r.Violation(origin+":bytes:default-format", "Serialize() differs from Serialize(Witness)", desc, w())
	}
	// parts
	parts := append(append(append(append([]byte{}, ver[:]...), ins...), outs...), lock[:]...)
	if !bytes.Equal(parts, std) {
		r.Violation(origin+":parts:concatenation", "version||inputs||outputs||locktime differs from Serialize(Standard)", desc, w(len(parts), len(std)))
	}
	if !bytes.Equal(ins, c29EncodeInputs(tx)) {
		r.Violation(origin+":parts:inputs", "SerializeInputs is not the input vector of the serialization", desc, w(len(ins)))
	}
	if !bytes.Equal(outs, c29EncodeOutputs(tx)) {
		r.Violation(origin+":parts:outputs", "SerializeOutputs is not the output vector of the serialization", desc, w(len(outs)))
	}
	if !bytes.Equal(ver[:], c29LE32(uint32(tx.Version))) || !bytes.Equal(lock[:], c29LE32(tx.Locktime)) {
		r.Violation(origin+":parts:version-locktime", "SerializeVersion/SerializeLocktime wrong", desc, w())
	}
	// hashes
	if hash != c29DSha(refStd) {
		r.Violation(origin+":hash:txid", "Hash() is not the double SHA-256 of the witness-stripped serialization", desc, w(hash.String()))
	}
	if whash != c29DSha(refWit) {
		r.Violation(origin+":hash:wtxid", "WitnessHash() is not the double SHA-256 of the witness serialization", desc, w())
	}
	stripped := c29Clone(tx, false)
	var sh Hash
	if !r.Guard(origin+":hash:", desc, func() { sh = stripped.Hash() }) && sh != hash {
		r.Violation(origin+":hash:depends-on-witness", "Hash() changes when witness data is removed", desc, w())
	}
	// round trips
	var backW, backS Transaction
	var errW, errS error
	if r.Guard(origin+":deserialize:", desc, func() {
		errW = backW.Deserialize(wit)
		errS = backS.Deserialize(std)
	}) {
		return
	}
	if errW != nil {
		r.Violation(origin+":roundtrip:witness:error", "Deserialize(Serialize(Witness)) failed: "+errW.Error(), desc, w())
	} else if d := c29Diff(tx, &backW); d != "" {
		r.Violation(origin+":roundtrip:witness:differs", "Deserialize(Serialize(Witness)) != tx: "+d, desc, w())
	}
	if errS != nil {
		r.Violation(origin+":roundtrip:standard:error", "Deserialize(Serialize(Standard)) failed: "+errS.Error(), desc, w())
	} else if d := c29Diff(stripped, &backS); d != "" {
		r.Violation(origin+":roundtrip:standard:differs", "Deserialize(Serialize(Standard)) != witness-stripped tx: "+d, desc, w())
	}
}

func TestVerif_C29_Transactions(t *testing.T) {
	r := verifkit.Start(t, "C29", "transactions")
	defer r.Finish()
	r.SetRule("PRNG transactions: 1..300 inputs and 0..300 outputs weighted to 252/253/254 (+ 65535/65536 once each), scripts 0..600 B weighted to 252/253/254, per-input witness stacks of 0..5 (rarely 252..255) items, nested-SegWit inputs with both scripts, negative versions/values, nil vs empty slices; each checked against a hand-written BIP-144 encoder, round trip in both formats, part concatenation, txid independence of witness. Second pass: transactions obtained by deserialising bit-flipped serializations (whatever btcd accepts) are put through the same checks. non-trivial = a witness is present or an input/output/stack/script length is >= 253")
	r.Assume("nil and empty byte slices / witness stacks are the same value (the wire format cannot distinguish them)")
	n := r.N(3000, 120000)
	huge := 4
	var mutOK, mutErr, mutPanic, mutChecked int64
	verifkit.Parallel(n+huge, 0, func(i int) {
		rng := r.SubRand("tx", i)
		tx, sh := c29GenTx(rng, i == n || i == n+1, i == n+2 || i == n+3)
		desc := fmt.Sprintf("tx#%d shape=%s", i, verifkit.JSON(sh))
		nontrivial := sh.WitnessIn > 0 || sh.In >= 253 || sh.Out >= 253 || sh.MaxScript >= 253 || sh.MaxStack >= 253
		r.Case(desc, nontrivial)
		if sh.WitnessIn > 0 {
			r.Count("tx_with_witness", 1)
		}
		if sh.In >= 253 {
			r.Count("tx_inputs_ge_253", 1)
		}
		if sh.Out >= 253 {
			r.Count("tx_outputs_ge_253", 1)
		}
		if sh.In >= 253 && sh.WitnessIn > 0 {
			r.Count("tx_inputs_ge_253_with_witness", 1)
		}
		if sh.BothScripts > 0 {
			r.Count("tx_nested_segwit_inputs", 1)
		}
		c29CheckTx(r, "tx", tx, desc)
		if i%701 == 3 {
			sh.Bytes = len(c29Encode(tx, true))
			r.Sample(map[string]interface{}{"case": i, "shape": sh, "txid": c29DSha(c29Encode(tx, false)).Hex(ReversedByteOrder)})
		}
		// hash ignores witness: replace the witness data by other data
		if sh.WitnessIn > 0 {
			other := c29Clone(tx, true)
			for _, in := range other.Inputs {
				if len(in.Witness) > 0 {
					in.Witness = [][]byte{c29Bytes(rng, 1+rng.Intn(72))}
				} else if rng.Intn(3) == 0 {
					in.Witness = [][]byte{c29Bytes(rng, 33)}
				}
			}
			var h1, h2 Hash
			if !r.Guard("tx:hash:", desc, func() { h1, h2 = tx.Hash(), other.Hash() }) && h1 != h2 {
				r.Violation("tx:hash:depends-on-witness", "Hash() changes when witness data is replaced", desc, nil)
			}
		}
		// mutant-derived transactions (small ones only: keep the pass cheap)
		if sh.In+sh.Out > 12 || i >= n {
			return
		}
		base := c29Encode(tx, true)
		for m := 0; m < 6; m++ {
			mut := append([]byte(nil), base...)
			switch rng.Intn(3) {
			case 0:
				mut[rng.Intn(len(mut))] ^= 1 << uint(rng.Intn(8))
			case 1:
				// hit the structural bytes at the front (version, marker, flag, counts)
				k := rng.Intn(8)
				if k < len(mut) {
					mut[k] = byte(rng.Intn(4))
				}
			default:
				mut = append(mut, c29Bytes(rng, 1+rng.Intn(3))...)
			}
			var mt Transaction
			var err error
			panicked := false
			func() {
				defer func() {
					if recover() != nil {
						panicked = true
					}
				}()
				err = mt.Deserialize(mut)
			}()
			switch {
			case panicked:
				atomic.AddInt64(&mutPanic, 1)
			case err != nil:
				atomic.AddInt64(&mutErr, 1)
			case len(mt.Inputs) == 0:
				atomic.AddInt64(&mutOK, 1)
			default:
				atomic.AddInt64(&mutOK, 1)
				atomic.AddInt64(&mutChecked, 1)
				mdesc := fmt.Sprintf("mutant of tx#%d mutation#%d bytes=%s", i, m, c29ClipHex(mut))
				r.Case(mdesc, c29HasWitness(&mt))
				c29CheckTx(r, "mutant", &mt, mdesc)
			}
		}
	})
	r.Count("mutants_accepted", mutOK)
	r.Count("mutants_rejected", mutErr)
	r.Count("mutants_checked", mutChecked)
	r.Count("mutants_deserialize_panicked_not_judged", mutPanic)
}

func c29ClipHex(b []byte) string {
	s := hex.EncodeToString(b)
	if len(s) > 4000 {
		return s[:4000] + fmt.Sprintf("...(%d bytes)", len(b))
	}
	return s
}

// ---------------------------------------------------------------------------
// Hashes and byte orders
// ---------------------------------------------------------------------------

func TestVerif_C29_Hashes(t *testing.T) {
	r := verifkit.Start(t, "C29", "hashes")
	defer r.Finish()
	r.SetRule("PRNG 32-byte values plus patterned ones (zero, 0x01.., leading/trailing zero runs, palindromes): NewHash/NewHashFromString/Hex/String in both byte orders, reversed = byte reverse; malformed strings (wrong length, non-hex digit) must be rejected. non-trivial = value is not a byte palindrome (the two orders differ)")
	n := r.N(4000, 200000)
	rng := r.Rand("hashes")
	for i := 0; i < n; i++ {
		var raw [32]byte
		switch {
		case i == 0:
		case i == 1:
			for k := range raw {
				raw[k] = byte(k + 1)
			}
		case i == 2:
			raw[0] = 1
		case i == 3:
			raw[31] = 1
		case i%50 == 4:
			rng.Read(raw[:16])
			for k := 0; k < 16; k++ {
				raw[31-k] = raw[k]
			}
		case i%50 == 5:
			rng.Read(raw[:])
			for k := 0; k < 1+rng.Intn(12); k++ {
				raw[31-k] = 0 // block-hash like
			}
		default:
			rng.Read(raw[:])
		}
		rev := c29Reverse(raw[:])
		desc := "hash " + hex.EncodeToString(raw[:])
		r.Case(desc, !bytes.Equal(rev, raw[:]))
		if i < 3 {
			r.Sample(map[string]string{"internal": hex.EncodeToString(raw[:]), "reversed": hex.EncodeToString(rev)})
		}
		r.Guard("hash:", desc, func() {
			h, err := NewHash(raw[:], InternalByteOrder)
			if err != nil || h != Hash(raw) {
				r.Violation("hash:newhash:internal", "NewHash(b, Internal) != b", desc, fmt.Sprint(err))
			}
			hr, err := NewHash(rev, ReversedByteOrder)
			if err != nil || hr != Hash(raw) {
				r.Violation("hash:newhash:reversed", "NewHash(reverse(b), Reversed) != b", desc, fmt.Sprint(err))
			}
			if !bytes.Equal(rev, c29Reverse(raw[:])) {
				r.Violation("hash:newhash:mutates-argument", "NewHash modified its argument", desc, nil)
			}
			keep := h
			si, sr := h.Hex(InternalByteOrder), h.Hex(ReversedByteOrder)
			if h != keep {
				r.Violation("hash:hex:mutates-receiver", "Hex modified the hash", desc, nil)
			}
			if si != hex.EncodeToString(raw[:]) || h.String() != si {
				r.Violation("hash:hex:internal", "Hex(Internal)/String() is not the hex of the bytes", desc, si)
			}
			if sr != hex.EncodeToString(rev) {
				r.Violation("hash:hex:reversed", "Hex(Reversed) is not the hex of the reversed bytes", desc, sr)
			}
			for _, o := range []ByteOrder{InternalByteOrder, ReversedByteOrder} {
				back, err := NewHashFromString(h.Hex(o), o)
				if err != nil || back != h {
					r.Violation(fmt.Sprintf("hash:string-roundtrip:order%d", o), "NewHashFromString(h.Hex(o), o) != h", desc, fmt.Sprint(err))
				}
				if up, err := NewHashFromString(strings.ToUpper(h.Hex(o)), o); err == nil && up != h {
					r.Violation(fmt.Sprintf("hash:string-roundtrip:uppercase:order%d", o), "upper-case hex accepted but decoded to another hash", desc, nil)
				}
			}
			// malformed
			if i%8 == 0 {
				bad := []string{"", si[:63], si[:62], si + "0", si + "00", si[:31] + "g" + si[32:], si[:63] + " ", "0x" + si[:62]}
				for k, s := range bad {
					for _, o := range []ByteOrder{InternalByteOrder, ReversedByteOrder} {
						if got, err := NewHashFromString(s, o); err == nil {
							r.Violation(fmt.Sprintf("hash:malformed-accepted:%d", k), "malformed hash string accepted", desc, map[string]string{"string": s, "got": got.String()})
						}
					}
				}
				for _, l := range []int{0, 1, 31, 33, 64} {
					if _, err := NewHash(make([]byte, l), ReversedByteOrder); err == nil {
						r.Violation("hash:wrong-length-accepted", fmt.Sprintf("NewHash accepted %d bytes", l), desc, nil)
					}
				}
			}
		})
	}
}

// ---------------------------------------------------------------------------
// Compact size, var-len scripts
// ---------------------------------------------------------------------------

func TestVerif_C29_VarLen(t *testing.T) {
	r := verifkit.Start(t, "C29", "varlen")
	defer r.Finish()
	r.SetRule("compact size: every boundary value (0,252,253,0xffff,0x10000,0xffffffff,2^32,2^64-1 and neighbours) plus PRNG values of every width: write == reference, read(write(v) || junk) == (v, width); every non-canonical or truncated prefix must be rejected. scripts: lengths 0..70000 weighted to 252/253/65535/65536: NewScriptFromVarLenData(ToVarLenData(s)) == s and bytes == reference; decode-then-encode of PRNG/malformed var-len data must reproduce the data or be rejected. non-trivial = value/length >= 253 or a malformed prefix")
	rng := r.Rand("varlen")
	vals := []uint64{0, 1, 2, 127, 128, 251, 252, 253, 254, 255, 256, 257, 0xfffe, 0xffff, 0x10000, 0x10001, 0xfffffffe, 0xffffffff,
		0x100000000, 0x100000001, 1 << 62, 1<<63 - 1, 1 << 63, 1<<64 - 2, 1<<64 - 1}
	n := r.N(3000, 100000)
	for i := 0; i < n; i++ {
		v := rng.Uint64() >> uint(rng.Intn(64))
		vals = append(vals, v)
	}
	for _, v := range vals {
		desc := fmt.Sprintf("compactsize %d", v)
		r.Case(desc, v >= 253)
		ref := c29CompactSize(v)
		r.Guard("compactsize:", desc, func() {
			enc, err := writeCompactSizeUint(CompactSizeUint(v))
			if err != nil || !bytes.Equal(enc, ref) {
				r.Violation(fmt.Sprintf("compactsize:write:width%d", len(ref)), "writeCompactSizeUint differs from the reference encoding", desc, map[string]string{"got": hex.EncodeToString(enc), "want": hex.EncodeToString(ref), "err": fmt.Sprint(err)})
			}
			junk := c29Bytes(rng, rng.Intn(4))
			got, width, err := readCompactSizeUint(append(append([]byte{}, ref...), junk...))
			if err != nil || uint64(got) != v || width != len(ref) {
				r.Violation(fmt.Sprintf("compactsize:read:width%d", len(ref)), "readCompactSizeUint(write(v)) != (v, width)", desc, map[string]interface{}{"got": uint64(got), "width": width, "err": fmt.Sprint(err)})
			}
			// truncated
			for k := 0; k < len(ref); k++ {
				if _, _, err := readCompactSizeUint(ref[:k]); err == nil {
					r.Violation("compactsize:truncated-accepted", "truncated compact size accepted", desc, hex.EncodeToString(ref[:k]))
				}
			}
		})
	}
	// non-canonical encodings
	nonCanon := [][]byte{
		{0xfd, 0x00, 0x00}, {0xfd, 0xfc, 0x00}, {0xfd, 0x01, 0x00},
		{0xfe, 0x00, 0x00, 0x00, 0x00}, {0xfe, 0xff, 0xff, 0x00, 0x00}, {0xfe, 0xfc, 0x00, 0x00, 0x00},
		{0xff, 0, 0, 0, 0, 0, 0, 0, 0}, {0xff, 0xff, 0xff, 0xff, 0xff, 0, 0, 0, 0}, {0xff, 0xfc, 0, 0, 0, 0, 0, 0, 0},
	}
	for _, enc := range nonCanon {
		desc := "noncanonical compactsize " + hex.EncodeToString(enc)
		r.Case(desc, true)
		r.Guard("compactsize:", desc, func() {
			if v, _, err := readCompactSizeUint(enc); err == nil {
				// judged through the script round trip below (decode-then-encode); recorded here as a count only
				r.Count("noncanonical_prefix_read_ok", 1)
				_ = v
			}
		})
	}

	// scripts
	lens := []int{0, 1, 2, 75, 76, 251, 252, 253, 254, 255, 256, 600, 65534, 65535, 65536, 65537, 70000}
	ns := r.N(1500, 60000)
	for i := 0; i < ns; i++ {
		switch rng.Intn(5) {
		case 0:
			lens = append(lens, 250+rng.Intn(8))
		case 1:
			lens = append(lens, rng.Intn(700))
		default:
			lens = append(lens, rng.Intn(120))
		}
	}
	for i, l := range lens {
		s := Script(c29Bytes(rng, l))
		desc := fmt.Sprintf("script len=%d #%d", l, i)
		r.Case(desc, l >= 253)
		ref := append(c29CompactSize(uint64(l)), s...)
		r.Guard("script:", desc, func() {
			enc, err := s.ToVarLenData()
			if err != nil || !bytes.Equal(enc, ref) {
				r.Violation("script:tovarlen", "ToVarLenData differs from compact-size || script", desc, fmt.Sprint(err))
				return
			}
			back, err := NewScriptFromVarLenData(enc)
			if err != nil || !bytes.Equal(back, s) {
				r.Violation("script:roundtrip", "NewScriptFromVarLenData(ToVarLenData(s)) != s", desc, fmt.Sprint(err))
			}
			// malformed: length prefix does not match the data
			bad := map[string][]byte{
				"extra-byte": append(append([]byte{}, enc...), 0x00),
			}
			if len(enc) > 1 {
				bad["missing-byte"] = enc[:len(enc)-1]
			}
			if l >= 1 && l <= 252 {
				x := append([]byte{}, enc...)
				x[0]++
				if x[0] <= 252 {
					bad["prefix-plus-one"] = x
				}
				y := append([]byte{}, enc...)
				y[0]--
				bad["prefix-minus-one"] = y
			}
			if l < 253 {
				// non-canonical wide prefix for a short script
				bad["noncanonical-fd"] = append([]byte{0xfd, byte(l), 0}, s...)
				bad["noncanonical-fe"] = append([]byte{0xfe, byte(l), 0, 0, 0}, s...)
				bad["noncanonical-ff"] = append([]byte{0xff, byte(l), 0, 0, 0, 0, 0, 0, 0}, s...)
			}
			for kind, data := range bad {
				if i%4 != 0 && l > 300 {
					continue
				}
				r.Count("malformed_varlen_tried", 1)
				if got, err := NewScriptFromVarLenData(data); err == nil {
					r.Violation("script:malformed-accepted:"+kind, "var-len data whose prefix does not match (or is not canonical) was accepted", desc, map[string]interface{}{"data_prefix": hex.EncodeToString(data[:c29Min(len(data), 12)]), "data_len": len(data), "script_len": len(got)})
				}
			}
		})
	}
	r.Guard("script:", "empty var-len data", func() {
		r.Case("script empty input", true)
		if _, err := NewScriptFromVarLenData(nil); err == nil {
			r.Violation("script:malformed-accepted:empty", "empty var-len data accepted", "nil", nil)
		}
	})
	// decode-then-encode over PRNG data: whatever is accepted must re-encode to the same bytes
	nd := r.N(4000, 200000)
	accepted := 0
	for i := 0; i < nd; i++ {
		var data []byte
		body := rng.Intn(300)
		switch rng.Intn(6) {
		case 0:
			data = c29Bytes(rng, rng.Intn(12))
		case 1:
			data = append([]byte{0xfd, byte(rng.Intn(256)), byte(rng.Intn(2))}, c29Bytes(rng, body)...)
		case 2:
			data = append([]byte{0xfe, byte(rng.Intn(256)), byte(rng.Intn(2)), 0, 0}, c29Bytes(rng, body)...)
		case 3:
			data = append([]byte{0xff, byte(rng.Intn(256)), byte(rng.Intn(2)), 0, 0, 0, 0, 0, 0}, c29Bytes(rng, body)...)
		default:
			data = append([]byte{byte(body + rng.Intn(3) - 1)}, c29Bytes(rng, body)...)
		}
		desc := "varlen data " + c29ClipHex(data)
		r.Guard("script:", desc, func() {
			s, err := NewScriptFromVarLenData(data)
			r.Case(desc, err != nil)
			if err != nil {
				return
			}
			accepted++
			again, err := s.ToVarLenData()
			if err != nil || !bytes.Equal(again, data) {
				r.Violation("script:decode-encode-differs", "accepted var-len data does not re-encode to itself (non-canonical or mis-sized prefix accepted)", desc, hex.EncodeToString(again[:c29Min(len(again), 12)]))
			}
		})
	}
	r.Count("prng_varlen_accepted", int64(accepted))
}

func c29Min(a, b int) int {
	if a < b {
		return a
	}
	return b
}

// ---------------------------------------------------------------------------
// Block headers
// ---------------------------------------------------------------------------

func TestVerif_C29_Headers(t *testing.T) {
	r := verifkit.Start(t, "C29", "headers")
	defer r.Finish()
	r.SetRule("PRNG 80-byte strings (plus all-zero, all-0xff, single-bit patterns): Serialize(Deserialize(raw)) == raw, every field at its documented offset in little-endian, hash fields in internal order with Hex(Reversed) = reversed bytes; PRNG header structs: Deserialize(Serialize(h)) == h. non-trivial = the header's hash fields are not byte palindromes (byte order observable)")
	n := r.N(4000, 200000)
	rng := r.Rand("headers")
	for i := 0; i < n; i++ {
		var raw [BlockHeaderByteLength]byte
		switch {
		case i == 0:
		case i == 1:
			for k := range raw {
				raw[k] = 0xff
			}
		case i < 2+80:
			raw[i-2] = 0x80
		case i < 2+160:
			raw[i-82] = 0x01
		default:
			rng.Read(raw[:])
		}
		desc := "header " + hex.EncodeToString(raw[:])
		r.Case(desc, !bytes.Equal(raw[4:36], c29Reverse(raw[4:36])) || !bytes.Equal(raw[36:68], c29Reverse(raw[36:68])))
		if i == 200 {
			r.Sample(map[string]string{"raw_header": hex.EncodeToString(raw[:])})
		}
		r.Guard("header:", desc, func() {
			var h BlockHeader
			h.Deserialize(raw)
			out := h.Serialize()
			if out != raw {
				r.Violation("header:bytes-roundtrip", "Serialize(Deserialize(raw)) != raw", desc, hex.EncodeToString(out[:]))
			}
			if uint32(h.Version) != binary.LittleEndian.Uint32(raw[0:4]) ||
				h.Time != binary.LittleEndian.Uint32(raw[68:72]) ||
				h.Bits != binary.LittleEndian.Uint32(raw[72:76]) ||
				h.Nonce != binary.LittleEndian.Uint32(raw[76:80]) {
				r.Violation("header:field-offsets", "an integer field is not read from its documented offset (LE)", desc, verifkit.JSON(h))
			}
			if !bytes.Equal(h.PreviousBlockHeaderHash[:], raw[4:36]) || !bytes.Equal(h.MerkleRootHash[:], raw[36:68]) {
				r.Violation("header:hash-fields", "hash fields are not the raw bytes 4..36 / 36..68 in internal order", desc, nil)
			}
			if h.PreviousBlockHeaderHash.Hex(ReversedByteOrder) != hex.EncodeToString(c29Reverse(raw[4:36])) {
				r.Violation("header:hash-reversed", "previous block hash in reversed order is not the byte reverse", desc, nil)
			}
			// struct round trip
			var g BlockHeader
			g.Version = int32(rng.Uint32())
			rng.Read(g.PreviousBlockHeaderHash[:])
			rng.Read(g.MerkleRootHash[:])
			g.Time, g.Bits, g.Nonce = rng.Uint32(), rng.Uint32(), rng.Uint32()
			var g2 BlockHeader
			g2.Deserialize(g.Serialize())
			if g2 != g {
				r.Violation("header:struct-roundtrip", "Deserialize(Serialize(h)) != h", desc, verifkit.JSON(g))
			}
		})
	}
}
