//go:build verif

package bitcoin

// Shared helpers of the C27 and C30 monitors of pkg/bitcoin: secp256k1 keys
// and a plain ECDSA signer driven by the monitor's PRNG, hand-written
// locking/redeem scripts (pkg/bitcoin cannot import pkg/tbtc, so the deposit
// script template is reproduced here byte by byte from the tBTC Bridge
// specification; the real Deposit.Script() is exercised by the pkg/tbtc
// monitors), funding transactions on the package's localChain test helper,
// a transaction "plan" that is pushed through the real TransactionBuilder,
// conversion to wire.MsgTx and execution in btcd's script engine.

import (
	"crypto/ecdsa"
	"crypto/sha256"
	"fmt"
	"math/big"
	"math/rand"
	"strings"

	"github.com/btcsuite/btcd/btcec"
	"github.com/btcsuite/btcd/chaincfg/chainhash"
	"github.com/btcsuite/btcd/txscript"
	"github.com/btcsuite/btcd/wire"
	"github.com/btcsuite/btcutil"
)

const c27kitMaxMoney = int64(21_000_000) * 100_000_000

// Input / output kinds.
const (
	c27kitP2PKHKind = iota
	c27kitP2WPKHKind
	c27kitP2SHKind
	c27kitP2WSHKind
)

var c27kitKindNames = []string{"P2PKH", "P2WPKH", "P2SH", "P2WSH"}

// ---------------------------------------------------------------- keys

type c27kitKey struct {
	D   *big.Int
	Pub *ecdsa.PublicKey
	Ser []byte
	PKH [20]byte
}

func c27kitScalar(rng *rand.Rand) *big.Int {
	n := btcec.S256().N
	for {
		b := make([]byte, 32)
		rng.Read(b)
		k := new(big.Int).SetBytes(b)
		if k.Sign() > 0 && k.Cmp(n) < 0 {
			return k
		}
	}
}

func c27kitNewKey(rng *rand.Rand) *c27kitKey {
	d := c27kitScalar(rng)
	x, y := btcec.S256().ScalarBaseMult(d.Bytes())
	ser := make([]byte, 33)
	ser[0] = 0x02 | byte(y.Bit(0))
	x.FillBytes(ser[1:])
	k := &c27kitKey{D: d, Pub: &ecdsa.PublicKey{Curve: btcec.S256(), X: x, Y: y}, Ser: ser}
	copy(k.PKH[:], btcutil.Hash160(ser))
	return k
}

type c27kitSigMode struct {
	LongR int  // 1 = top bit of R set (33-byte DER integer), 0 = not set, -1 = any
	FullS bool // low form of S occupies 32 bytes
	HighS bool // hand out N - s_low
}

// c27kitSign is textbook ECDSA over secp256k1 with the nonce from the PRNG.
func c27kitSign(key *c27kitKey, z *big.Int, rng *rand.Rand, mode c27kitSigMode) (r, s *big.Int, tries int) {
	curve := btcec.S256()
	n := curve.N
	for {
		tries++
		k := c27kitScalar(rng)
		x, _ := curve.ScalarBaseMult(k.Bytes())
		r = new(big.Int).Mod(x, n)
		if r.Sign() == 0 {
			continue
		}
		if mode.LongR == 1 && r.BitLen() != 256 {
			continue
		}
		if mode.LongR == 0 && r.BitLen() == 256 {
			continue
		}
		kinv := new(big.Int).ModInverse(k, n)
		s = new(big.Int).Mul(r, key.D)
		s.Add(s, z)
		s.Mul(s, kinv)
		s.Mod(s, n)
		if s.Sign() == 0 {
			continue
		}
		low := new(big.Int).Set(s)
		if other := new(big.Int).Sub(n, s); other.Cmp(low) < 0 {
			low = other
		}
		if mode.FullS && low.BitLen() <= 248 {
			continue
		}
		if mode.HighS {
			s = new(big.Int).Sub(n, low)
		} else {
			s = low
		}
		return r, s, tries
	}
}

// c27kitDERLen is the length of the strict-DER encoding of (r, low(s)).
func c27kitDERLen(r, s *big.Int) int {
	n := btcec.S256().N
	low := new(big.Int).Set(s)
	if other := new(big.Int).Sub(n, s); other.Cmp(low) < 0 {
		low = other
	}
	il := func(v *big.Int) int { return v.BitLen()/8 + 1 }
	return 6 + il(r) + il(low)
}

// ---------------------------------------------------------------- scripts

func c27kitP2PKH(h [20]byte) []byte {
	return append(append([]byte{0x76, 0xa9, 0x14}, h[:]...), 0x88, 0xac)
}

func c27kitP2WPKH(h [20]byte) []byte { return append([]byte{0x00, 0x14}, h[:]...) }

func c27kitP2SH(redeem []byte) []byte {
	return append(append([]byte{0xa9, 0x14}, btcutil.Hash160(redeem)...), 0x87)
}

func c27kitP2WSH(ws []byte) []byte {
	h := sha256.Sum256(ws)
	return append([]byte{0x00, 0x20}, h[:]...)
}

func c27kitRandomOutputScript(rng *rand.Rand, kind int) []byte {
	var h20 [20]byte
	rng.Read(h20[:])
	switch kind {
	case c27kitP2PKHKind:
		return c27kitP2PKH(h20)
	case c27kitP2WPKHKind:
		return c27kitP2WPKH(h20)
	case c27kitP2SHKind:
		return append(append([]byte{0xa9, 0x14}, h20[:]...), 0x87)
	default:
		var h [32]byte
		rng.Read(h[:])
		return append([]byte{0x00, 0x20}, h[:]...)
	}
}

// c27kitDepositScript is the tBTC deposit script (92 bytes, 126 with extra
// data) written out opcode by opcode.
func c27kitDepositScript(rng *rand.Rand, walletPKH [20]byte, extra bool) []byte {
	var depositor, refund [20]byte
	var blinding [8]byte
	rng.Read(depositor[:])
	rng.Read(refund[:])
	rng.Read(blinding[:])
	lock := 1_600_000_000 + uint32(rng.Intn(400_000_000))
	s := []byte{0x14}
	s = append(s, depositor[:]...)
	s = append(s, 0x75) // DROP
	if extra {
		var e [32]byte
		rng.Read(e[:])
		s = append(s, 0x20)
		s = append(s, e[:]...)
		s = append(s, 0x75)
	}
	s = append(s, 0x08)
	s = append(s, blinding[:]...)
	s = append(s, 0x75, 0x76, 0xa9, 0x14) // DROP DUP HASH160 push20
	s = append(s, walletPKH[:]...)
	s = append(s, 0x87, 0x63, 0xac, 0x67, 0x76, 0xa9, 0x14) // EQUAL IF CHECKSIG ELSE DUP HASH160 push20
	s = append(s, refund[:]...)
	s = append(s, 0x88, 0x04, byte(lock), byte(lock>>8), byte(lock>>16), byte(lock>>24)) // EQUALVERIFY push4
	s = append(s, 0xb1, 0x75, 0xac, 0x68)                                                // CLTV DROP CHECKSIG ENDIF
	return s
}

// c27kitPaddedScript is a pay-to-public-key-hash style redeem script
// (<sig> <pubkey> on the stack) of exactly `length` bytes, 25 <= length <= 520,
// padded in front with NOPs and "<data> DROP" segments.
func c27kitPaddedScript(rng *rand.Rand, pkh [20]byte, length int) []byte {
	if length < 25 {
		length = 25
	}
	pad := length - 25
	var s []byte
	for pad > 0 {
		// largest segment "<push d bytes> DROP" of total size <= pad
		d := -1
		switch {
		case pad >= 4 && pad-2 <= 75:
			d = pad - 2
		case pad-3 >= 76 && pad-3 <= 255:
			d = pad - 3
		case pad-4 >= 256 && pad-4 <= 490:
			d = pad - 4
		}
		if d < 2 {
			s = append(s, 0x61) // NOP
			pad--
			continue
		}
		data := make([]byte, d)
		rng.Read(data)
		switch {
		case d <= 75:
			s = append(s, byte(d))
		case d <= 255:
			s = append(s, 0x4c, byte(d))
		default:
			s = append(s, 0x4d, byte(d), byte(d>>8))
		}
		s = append(s, data...)
		s = append(s, 0x75)
		pad = length - 25 - len(s)
	}
	return append(s, c27kitP2PKH(pkh)...)
}

// ---------------------------------------------------------------- amounts

func c27kitAmount(rng *rand.Rand) int64 {
	switch rng.Intn(10) {
	case 0:
		return 1 + rng.Int63n(1000)
	case 1:
		return 1 + rng.Int63n(c27kitMaxMoney/16)
	case 2:
		return int64(1) << uint(rng.Intn(46))
	default:
		return 10_000 + rng.Int63n(1_000_000_000)
	}
}

// ---------------------------------------------------------------- chain

func c27kitFund(lc *localChain, rng *rand.Rand, pkScript []byte, value int64) *UnspentTransactionOutput {
	for {
		tx := &Transaction{Version: int32(1 + rng.Intn(2))}
		var h Hash
		rng.Read(h[:])
		sig := make([]byte, rng.Intn(20))
		rng.Read(sig)
		tx.Inputs = append(tx.Inputs, &TransactionInput{
			Outpoint:        &TransactionOutpoint{TransactionHash: h, OutputIndex: uint32(rng.Intn(4))},
			SignatureScript: sig,
			Sequence:        0xffffffff,
		})
		nout := 1 + rng.Intn(3)
		pos := rng.Intn(nout)
		for i := 0; i < nout; i++ {
			if i == pos {
				tx.Outputs = append(tx.Outputs, &TransactionOutput{Value: value, PublicKeyScript: pkScript})
			} else {
				tx.Outputs = append(tx.Outputs, &TransactionOutput{Value: c27kitAmount(rng), PublicKeyScript: c27kitRandomOutputScript(rng, rng.Intn(4))})
			}
		}
		if err := lc.addTransaction(tx); err != nil {
			continue
		}
		return &UnspentTransactionOutput{
			Outpoint: &TransactionOutpoint{TransactionHash: tx.Hash(), OutputIndex: uint32(pos)},
			Value:    value,
		}
	}
}

// ---------------------------------------------------------------- plans

type c27kitInput struct {
	Kind     int
	Key      *c27kitKey
	Redeem   []byte // script-hash kinds
	PkScript []byte
	Value    int64
	Utxo     *UnspentTransactionOutput
	Mode     c27kitSigMode
}

type c27kitPlan struct {
	Chain   *localChain
	Inputs  []*c27kitInput
	Outputs []*TransactionOutput
	shared  bool
}

// shareFunding makes the first two or three inputs of every third plan
// outputs of ONE previous transaction (a user funding several deposits, or a
// deposit and a change output, in one transaction): what the builder learns
// about a previous transaction must stay tied to the output it was read for.
func (p *c27kitPlan) shareFunding() {
	if p.shared || len(p.Inputs) < 2 || (len(p.Inputs)*7+len(p.Outputs))%3 != 0 {
		return
	}
	p.shared = true
	m := len(p.Inputs)
	if m > 3 {
		m = 3
	}
	tx := &Transaction{Version: 2}
	seed := p.Inputs[0].Utxo.Outpoint.TransactionHash
	tx.Inputs = append(tx.Inputs, &TransactionInput{Outpoint: &TransactionOutpoint{TransactionHash: seed, OutputIndex: 7}, Sequence: 0xffffffff})
	for i := 0; i < m; i++ {
		tx.Outputs = append(tx.Outputs, &TransactionOutput{Value: p.Inputs[i].Value, PublicKeyScript: p.Inputs[i].PkScript})
	}
	if err := p.Chain.addTransaction(tx); err != nil {
		return
	}
	h := tx.Hash()
	for i := 0; i < m; i++ {
		p.Inputs[i].Utxo = &UnspentTransactionOutput{Outpoint: &TransactionOutpoint{TransactionHash: h, OutputIndex: uint32(i)}, Value: p.Inputs[i].Value}
	}
}

// c27kitAddInput funds an input of the given kind for the key on the plan's
// chain. redeem is used for script-hash kinds.
func (p *c27kitPlan) c27kitAddInput(rng *rand.Rand, kind int, key *c27kitKey, redeem []byte, value int64, mode c27kitSigMode) {
	in := &c27kitInput{Kind: kind, Key: key, Value: value, Mode: mode}
	switch kind {
	case c27kitP2PKHKind:
		in.PkScript = c27kitP2PKH(key.PKH)
	case c27kitP2WPKHKind:
		in.PkScript = c27kitP2WPKH(key.PKH)
	case c27kitP2SHKind:
		in.Redeem = redeem
		in.PkScript = c27kitP2SH(redeem)
	case c27kitP2WSHKind:
		in.Redeem = redeem
		in.PkScript = c27kitP2WSH(redeem)
	}
	in.Utxo = c27kitFund(p.Chain, rng, in.PkScript, value)
	p.Inputs = append(p.Inputs, in)
}

func (p *c27kitPlan) Desc() string {
	var b strings.Builder
	b.WriteString("inputs=[")
	for _, in := range p.Inputs {
		fmt.Fprintf(&b, "%s", c27kitKindNames[in.Kind])
		if in.Redeem != nil {
			fmt.Fprintf(&b, "/L%d", len(in.Redeem))
		}
		fmt.Fprintf(&b, ":%d ", in.Value)
	}
	b.WriteString("] outputs=[")
	for _, o := range p.Outputs {
		fmt.Fprintf(&b, "%dB:%d ", len(o.PublicKeyScript), o.Value)
	}
	b.WriteString("]")
	return b.String()
}

// Builder pushes the plan through the production TransactionBuilder.
func (p *c27kitPlan) Builder() (*TransactionBuilder, error) {
	p.shareFunding()
	b := NewTransactionBuilder(p.Chain)
	for i, in := range p.Inputs {
		var err error
		if in.Kind == c27kitP2PKHKind || in.Kind == c27kitP2WPKHKind {
			err = b.AddPublicKeyHashInput(in.Utxo)
		} else {
			err = b.AddScriptHashInput(in.Utxo, in.Redeem)
		}
		if err != nil {
			return nil, fmt.Errorf("input %d: %v", i, err)
		}
	}
	// Every second plan asks the builder for signature hashes while the
	// transaction is still being put together (after the inputs, and again
	// after the first output): the hashes that count are the ones computed
	// on the finished transaction, whatever was computed before.
	early := (len(p.Inputs)+len(p.Outputs))%2 == 1
	if early {
		_, _ = b.ComputeSignatureHashes()
	}
	for i, o := range p.Outputs {
		b.AddOutput(o)
		if early && i == 0 && len(p.Outputs) > 1 {
			_, _ = b.ComputeSignatureHashes()
		}
	}
	return b, nil
}

// Sign computes the signature hashes and signs each with the key of its input.
func (p *c27kitPlan) Sign(b *TransactionBuilder, rng *rand.Rand) ([]*SignatureContainer, []*big.Int, int, error) {
	hashes, err := b.ComputeSignatureHashes()
	if err != nil {
		return nil, nil, 0, err
	}
	if len(hashes) != len(p.Inputs) {
		return nil, nil, 0, fmt.Errorf("%d signature hashes for %d inputs", len(hashes), len(p.Inputs))
	}
	sigs := make([]*SignatureContainer, len(hashes))
	tries := 0
	for i, h := range hashes {
		r, s, t := c27kitSign(p.Inputs[i].Key, h, rng, p.Inputs[i].Mode)
		tries += t
		sigs[i] = &SignatureContainer{R: r, S: s, PublicKey: p.Inputs[i].Key.Pub}
	}
	return sigs, hashes, tries, nil
}

// ---------------------------------------------------------------- btcd bridge

func c27kitMsgTx(tx *Transaction) *wire.MsgTx {
	m := &wire.MsgTx{Version: tx.Version, LockTime: tx.Locktime}
	for _, in := range tx.Inputs {
		ti := &wire.TxIn{
			PreviousOutPoint: wire.OutPoint{Hash: chainhash.Hash(in.Outpoint.TransactionHash), Index: in.Outpoint.OutputIndex},
			SignatureScript:  in.SignatureScript,
			Sequence:         in.Sequence,
		}
		for _, w := range in.Witness {
			ti.Witness = append(ti.Witness, w)
		}
		m.TxIn = append(m.TxIn, ti)
	}
	for _, out := range tx.Outputs {
		m.TxOut = append(m.TxOut, &wire.TxOut{Value: out.Value, PkScript: out.PublicKeyScript})
	}
	return m
}

// c27kitVerify executes every input of the signed transaction against the
// plan's previous outputs under the standard verification flags and checks
// that the transaction spends the planned outpoints.
func (p *c27kitPlan) c27kitVerify(tx *Transaction) (failedInput int, err error) {
	if len(tx.Inputs) != len(p.Inputs) {
		return 0, fmt.Errorf("transaction has %d inputs, plan %d", len(tx.Inputs), len(p.Inputs))
	}
	msg := c27kitMsgTx(tx)
	hc := txscript.NewTxSigHashes(msg)
	for i, in := range p.Inputs {
		got := tx.Inputs[i].Outpoint
		if got.TransactionHash != in.Utxo.Outpoint.TransactionHash || got.OutputIndex != in.Utxo.Outpoint.OutputIndex {
			return i, fmt.Errorf("input spends another outpoint than planned")
		}
		vm, err := txscript.NewEngine(in.PkScript, msg, i, txscript.StandardVerifyFlags, nil, hc, in.Value)
		if err != nil {
			return i, err
		}
		if err := vm.Execute(); err != nil {
			return i, err
		}
	}
	return -1, nil
}

// c27kitVSize is the virtual size computed from btcd's serialisation sizes:
// ceil((3*stripped + total) / 4).
func c27kitVSize(msg *wire.MsgTx) int64 {
	stripped := int64(msg.SerializeSizeStripped())
	total := int64(msg.SerializeSize())
	return (3*stripped + total + 3) / 4
}
