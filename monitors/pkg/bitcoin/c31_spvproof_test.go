//go:build verif

package bitcoin

import (
	"crypto/sha256"
	"encoding/binary"
	"encoding/hex"
	"fmt"
	"math/rand"
	"strings"
	"sync"
	"testing"

	"github.com/keep-network/keep-core/internal/verifkit"
)

// ---------------------------------------------------------------------------
// Simulated Bitcoin chain (trusted base, independent of the code under test
// except for Transaction.Hash(), which C29 decides separately).
// ---------------------------------------------------------------------------

func c31DSha(b []byte) (o [32]byte) {
	h := sha256.Sum256(b)
	return sha256.Sum256(h[:])
}

func c31Rev(b []byte) []byte {
	o := make([]byte, len(b))
	for i := range b {
		o[len(b)-1-i] = b[i]
	}
	return o
}

// c31HeaderBytes is the 80-byte header encoding written from the Bitcoin
// reference (not BlockHeader.Serialize).
func c31HeaderBytes(h *BlockHeader) []byte {
	b := make([]byte, 80)
	binary.LittleEndian.PutUint32(b[0:], uint32(h.Version))
	copy(b[4:36], h.PreviousBlockHeaderHash[:])
	copy(b[36:68], h.MerkleRootHash[:])
	binary.LittleEndian.PutUint32(b[68:], h.Time)
	binary.LittleEndian.PutUint32(b[72:], h.Bits)
	binary.LittleEndian.PutUint32(b[76:], h.Nonce)
	return b
}

// c31MerkleLevels returns all levels of the Bitcoin Merkle tree (level 0 =
// leaves; an odd level duplicates its last element).
func c31MerkleLevels(leaves [][32]byte) [][][32]byte {
	levels := [][][32]byte{leaves}
	cur := leaves
	for len(cur) > 1 {
		var next [][32]byte
		for i := 0; i < len(cur); i += 2 {
			l := cur[i]
			rgt := l
			if i+1 < len(cur) {
				rgt = cur[i+1]
			}
			next = append(next, c31DSha(append(append([]byte{}, l[:]...), rgt[:]...)))
		}
		levels = append(levels, next)
		cur = next
	}
	return levels
}

type c31Block struct {
	header *BlockHeader
	raw    []byte
	txs    []*Transaction
	hashes [][32]byte
	levels [][][32]byte
}

type c31Loc struct {
	block int // index into chain.blocks
	pos   int
}

type c31Chain struct {
	Chain // nil: methods not needed by proof assembly panic (reported through Guard)

	mu      sync.Mutex
	base    uint
	blocks  []*c31Block // all blocks, including those not mined yet
	visible int         // blocks[:visible] exist "now"
	index   map[Hash]c31Loc
	growth  []int // growth[i] blocks are mined right after the i-th query (0-based) has been answered
	calls   int
	trace   []string
	grown   int
	failAt  int // ordinal (0-based) of the query that fails with a transient error; <0: none
	faulted int
}

// faultNow must be called with the lock held at the start of a query: it
// makes the query with the scripted ordinal fail.
func (c *c31Chain) faultNow(what string) bool {
	if c.failAt >= 0 && c.calls == c.failAt {
		c.faulted++
		c.answered(what + ": scripted transient failure")
		return true
	}
	return false
}

var errC31Fault = fmt.Errorf("c31 chain: scripted transient failure")

func (c *c31Chain) tip() uint { return c.base + uint(c.visible) - 1 }

// answered must be called with the lock held, after the answer was computed.
func (c *c31Chain) answered(what string) {
	i := c.calls
	c.calls++
	k := 0
	if i < len(c.growth) {
		k = c.growth[i]
	}
	if c.visible+k > len(c.blocks) {
		k = len(c.blocks) - c.visible
	}
	c.visible += k
	c.grown += k
	if k > 0 {
		what += fmt.Sprintf(" [+%d blocks]", k)
	}
	c.trace = append(c.trace, what)
}

func c31CloneTx(tx *Transaction) *Transaction {
	o := &Transaction{Version: tx.Version, Locktime: tx.Locktime}
	for _, in := range tx.Inputs {
		op := *in.Outpoint
		ni := &TransactionInput{Outpoint: &op, Sequence: in.Sequence, SignatureScript: append([]byte(nil), in.SignatureScript...)}
		for _, w := range in.Witness {
			ni.Witness = append(ni.Witness, append([]byte{}, w...))
		}
		o.Inputs = append(o.Inputs, ni)
	}
	for _, out := range tx.Outputs {
		o.Outputs = append(o.Outputs, &TransactionOutput{Value: out.Value, PublicKeyScript: append(Script(nil), out.PublicKeyScript...)})
	}
	return o
}

func (c *c31Chain) GetTransactionConfirmations(h Hash) (uint, error) {
	c.mu.Lock()
	defer c.mu.Unlock()
	if c.faultNow("GetTransactionConfirmations") {
		return 0, errC31Fault
	}
	loc, ok := c.index[h]
	if !ok {
		c.answered("confirmations: unknown tx")
		return 0, fmt.Errorf("c31 chain: transaction not found")
	}
	if loc.block >= c.visible {
		// known but not mined yet: a mempool transaction has zero confirmations
		c.answered("confirmations=0 (mempool)")
		return 0, nil
	}
	n := uint(c.visible - loc.block)
	c.answered(fmt.Sprintf("confirmations=%d", n))
	return n, nil
}

func (c *c31Chain) GetTransaction(h Hash) (*Transaction, error) {
	c.mu.Lock()
	defer c.mu.Unlock()
	if c.faultNow("GetTransaction") {
		return nil, errC31Fault
	}
	loc, ok := c.index[h]
	if !ok {
		c.answered("tx: unknown")
		return nil, fmt.Errorf("c31 chain: transaction not found")
	}
	c.answered(fmt.Sprintf("tx@block%d/%d", loc.block, loc.pos))
	return c31CloneTx(c.blocks[loc.block].txs[loc.pos]), nil
}

func (c *c31Chain) GetLatestBlockHeight() (uint, error) {
	c.mu.Lock()
	defer c.mu.Unlock()
	if c.faultNow("GetLatestBlockHeight") {
		return 0, errC31Fault
	}
	t := c.tip()
	c.answered(fmt.Sprintf("tip=%d", t))
	return t, nil
}

func (c *c31Chain) GetBlockHeader(height uint) (*BlockHeader, error) {
	c.mu.Lock()
	defer c.mu.Unlock()
	if c.faultNow("GetBlockHeader") {
		return nil, errC31Fault
	}
	if height < c.base || height > c.tip() {
		c.answered(fmt.Sprintf("header(%d): no such block", height))
		return nil, fmt.Errorf("c31 chain: no block at height %d", height)
	}
	hd := *c.blocks[height-c.base].header
	c.answered(fmt.Sprintf("header(%d)", height))
	return &hd, nil
}

func (c *c31Chain) GetTransactionMerkleProof(h Hash, height uint) (*TransactionMerkleProof, error) {
	c.mu.Lock()
	defer c.mu.Unlock()
	if c.faultNow("GetTransactionMerkleProof") {
		return nil, errC31Fault
	}
	if height < c.base || height > c.tip() {
		c.answered(fmt.Sprintf("merkle(%d): no such block", height))
		return nil, fmt.Errorf("c31 chain: no block at height %d", height)
	}
	loc, ok := c.index[h]
	if !ok || c.base+uint(loc.block) != height {
		// Electrum semantics: the transaction must be in the block at that height
		c.answered(fmt.Sprintf("merkle(%d): tx not in that block", height))
		return nil, fmt.Errorf("c31 chain: tx %s not in block at height %d", h.Hex(ReversedByteOrder), height)
	}
	b := c.blocks[loc.block]
	var nodes []string
	pos := loc.pos
	for _, level := range b.levels[:len(b.levels)-1] {
		sib := pos ^ 1
		if sib >= len(level) {
			sib = pos
		}
		nodes = append(nodes, hex.EncodeToString(c31Rev(level[sib][:])))
		pos >>= 1
	}
	c.answered(fmt.Sprintf("merkle(%d) pos=%d depth=%d", height, loc.pos, len(nodes)))
	return &TransactionMerkleProof{BlockHeight: height, MerkleNodes: nodes, Position: uint(loc.pos)}, nil
}

func (c *c31Chain) GetCoinbaseTxHash(height uint) (Hash, error) {
	c.mu.Lock()
	defer c.mu.Unlock()
	if c.faultNow("GetCoinbaseTxHash") {
		return Hash{}, errC31Fault
	}
	if height < c.base || height > c.tip() {
		c.answered(fmt.Sprintf("coinbase(%d): no such block", height))
		return Hash{}, fmt.Errorf("c31 chain: no block at height %d", height)
	}
	c.answered(fmt.Sprintf("coinbase(%d)", height))
	return Hash(c.blocks[height-c.base].hashes[0]), nil
}

// ---------------------------------------------------------------------------
// Generation
// ---------------------------------------------------------------------------

func c31RandBytes(rng *rand.Rand, n int) []byte {
	b := make([]byte, n)
	rng.Read(b)
	return b
}

func c31RandTx(rng *rand.Rand, coinbase bool, tag uint64) *Transaction {
	tx := &Transaction{Version: int32(1 + rng.Intn(2)), Locktime: rng.Uint32() >> uint(rng.Intn(32))}
	nIn, nOut := 1+rng.Intn(3), 1+rng.Intn(3)
	if coinbase {
		nIn = 1
	}
	for i := 0; i < nIn; i++ {
		in := &TransactionInput{Outpoint: &TransactionOutpoint{}, Sequence: 0xffffffff}
		if coinbase {
			in.Outpoint.OutputIndex = 0xffffffff
			// height-like unique tag keeps coinbase ids distinct
			in.SignatureScript = append(binary.LittleEndian.AppendUint64(nil, tag), c31RandBytes(rng, rng.Intn(20))...)
			if rng.Intn(3) > 0 {
				in.Witness = [][]byte{make([]byte, 32)} // witness reserved value, as in every SegWit block
			}
		} else {
			rng.Read(in.Outpoint.TransactionHash[:])
			in.Outpoint.OutputIndex = uint32(rng.Intn(4))
			if rng.Intn(2) == 0 {
				in.Witness = [][]byte{c31RandBytes(rng, 70+rng.Intn(3)), c31RandBytes(rng, 33)}
			} else {
				in.SignatureScript = c31RandBytes(rng, 100+rng.Intn(10))
			}
		}
		tx.Inputs = append(tx.Inputs, in)
	}
	for i := 0; i < nOut; i++ {
		tx.Outputs = append(tx.Outputs, &TransactionOutput{Value: rng.Int63n(1 << 40), PublicKeyScript: c31RandBytes(rng, 22+rng.Intn(13))})
	}
	return tx
}

type c31Scenario struct {
	Base      uint  `json:"base_height"`
	TreeSizes []int `json:"tx_per_block"`
	Visible   int   `json:"blocks_at_start"`
	TxBlock   int   `json:"tx_block_index"`
	TxPos     int   `json:"tx_position"`
	Required  uint  `json:"required_confirmations"`
	Growth    []int `json:"blocks_mined_after_query"`
	Unknown   bool  `json:"unknown_tx,omitempty"`
}

func c31TreeSize(rng *rand.Rand, thorough bool) int {
	fixed := []int{1, 2, 3, 4, 5, 6, 7, 8, 9, 11, 15, 16, 17, 31, 32, 33, 40}
	switch rng.Intn(4) {
	case 0:
		return 1 + rng.Intn(40)
	case 1:
		if thorough {
			return 1 + rng.Intn(700)
		}
		return 1 + rng.Intn(70)
	default:
		return fixed[rng.Intn(len(fixed))]
	}
}

func c31GenScenario(rng *rand.Rand, thorough bool) *c31Scenario {
	s := &c31Scenario{}
	switch rng.Intn(4) {
	case 0:
		s.Base = uint(rng.Intn(5))
	case 1:
		s.Base = uint(2016*(1+rng.Intn(400)) - rng.Intn(8))
	default:
		s.Base = uint(1 + rng.Intn(900000))
	}
	s.Visible = 1 + rng.Intn(18)
	// transaction block
	s.TxBlock = rng.Intn(s.Visible)
	if rng.Intn(4) == 0 {
		s.TxBlock = s.Visible - 1 // just mined
	}
	unconfirmed := rng.Intn(25) == 0
	conf := s.Visible - s.TxBlock
	switch rng.Intn(7) {
	case 0:
		s.Required = uint(conf)
	case 1:
		s.Required = uint(conf + 1) // one short
	case 2:
		s.Required = 1
	case 3, 4:
		s.Required = uint(1 + rng.Intn(conf))
	case 5:
		s.Required = 6
	default:
		s.Required = uint(1 + rng.Intn(12))
	}
	nCalls := 8 + int(s.Required)
	s.Growth = make([]int, nCalls)
	switch rng.Intn(10) {
	case 0, 1, 2:
		// no growth
	case 3, 4:
		s.Growth[rng.Intn(2)] = 1 + rng.Intn(3) // before the tip height is read (queries 0 and 1)
	case 5, 6:
		s.Growth[2+rng.Intn(nCalls-2)] = 1 + rng.Intn(3) // while headers / proofs are fetched
	default:
		for i := range s.Growth {
			if rng.Intn(4) == 0 {
				s.Growth[i] = rng.Intn(4)
			}
		}
		if rng.Intn(2) == 0 {
			s.Growth[0], s.Growth[1] = 0, 0
		}
	}
	total := s.Visible
	for _, g := range s.Growth {
		total += g
	}
	if unconfirmed {
		total += 2
		s.TxBlock = s.Visible + rng.Intn(total-s.Visible)
	}
	s.TreeSizes = make([]int, total)
	for i := range s.TreeSizes {
		s.TreeSizes[i] = 1
		if i == s.TxBlock || rng.Intn(3) == 0 {
			s.TreeSizes[i] = c31TreeSize(rng, thorough)
		}
	}
	n := s.TreeSizes[s.TxBlock]
	switch rng.Intn(6) {
	case 0:
		s.TxPos = 0 // the coinbase itself
	case 1:
		s.TxPos = n - 1
	case 2:
		s.TxPos = n / 2
	case 3:
		s.TxPos = 1 % n
	default:
		s.TxPos = rng.Intn(n)
	}
	s.Unknown = rng.Intn(60) == 0
	return s
}

func c31Build(s *c31Scenario, rng *rand.Rand) (*c31Chain, Hash) {
	c := &c31Chain{base: s.Base, visible: s.Visible, index: map[Hash]c31Loc{}, growth: s.Growth, failAt: -1}
	var prev [32]byte
	rng.Read(prev[:])
	t := uint32(1_600_000_000 + rng.Intn(100_000_000))
	for bi, n := range s.TreeSizes {
		b := &c31Block{}
		for p := 0; p < n; p++ {
			tx := c31RandTx(rng, p == 0, uint64(s.Base)+uint64(bi))
			h := tx.Hash()
			b.txs = append(b.txs, tx)
			b.hashes = append(b.hashes, [32]byte(h))
			c.index[h] = c31Loc{bi, p}
		}
		b.levels = c31MerkleLevels(b.hashes)
		root := b.levels[len(b.levels)-1][0]
		t += uint32(1 + rng.Intn(1200))
		b.header = &BlockHeader{Version: int32(0x20000000 | rng.Intn(16)<<13), PreviousBlockHeaderHash: Hash(prev),
			MerkleRootHash: Hash(root), Time: t, Bits: 0x1d00ffff - uint32(rng.Intn(0x8000)), Nonce: rng.Uint32()}
		b.raw = c31HeaderBytes(b.header)
		prev = c31DSha(b.raw)
		c.blocks = append(c.blocks, b)
	}
	target := Hash(c.blocks[s.TxBlock].hashes[s.TxPos])
	if s.Unknown {
		rng.Read(target[:])
	}
	return c, target
}

// ---------------------------------------------------------------------------
// Independent verifier (mirrors Bridge BitcoinTx.validateProof +
// bitcoin-spv ValidateSPV.prove / BTCUtils.verifyHash256Merkle /
// validateHeaderChain, without proof-of-work and relay difficulty checks)
// ---------------------------------------------------------------------------

func c31Prove(leaf, root [32]byte, nodes []byte, index uint) (ok bool, indexExhausted bool) {
	if leaf == root && index == 0 && len(nodes) == 0 {
		return true, true
	}
	if len(nodes)%32 != 0 || len(nodes) == 0 {
		return false, false
	}
	cur := leaf
	idx := index
	for i := 0; i < len(nodes)/32; i++ {
		node := nodes[i*32 : (i+1)*32]
		if idx%2 == 1 {
			cur = c31DSha(append(append([]byte{}, node...), cur[:]...))
		} else {
			cur = c31DSha(append(append([]byte{}, cur[:]...), node...))
		}
		idx >>= 1
	}
	return cur == root, idx == 0
}

type c31Problem struct{ fp, what string }

func c31Verify(txHash Hash, proof *SpvProof, required uint) (problems []c31Problem) {
	add := func(fp, what string) { problems = append(problems, c31Problem{fp, what}) }
	hd := proof.BitcoinHeaders
	if len(hd)%80 != 0 {
		add("headers:length-not-multiple-of-80", fmt.Sprintf("headers are %d bytes", len(hd)))
		return
	}
	n := uint(len(hd) / 80)
	if n < required {
		add("headers:too-few", fmt.Sprintf("%d headers, %d confirmations required", n, required))
	} else if n > required {
		add("headers:too-many", fmt.Sprintf("%d headers, %d confirmations required", n, required))
	}
	if n == 0 {
		add("headers:none", "no header to take the Merkle root from")
		return
	}
	var root [32]byte
	copy(root[:], hd[36:68])
	ok, exhausted := c31Prove([32]byte(txHash), root, proof.MerkleProof, proof.TxIndexInBlock)
	if !ok {
		add("merkle:tx-proof-invalid", "tx Merkle proof does not lead to the Merkle root of the first header at the stated index")
	} else if !exhausted {
		add("merkle:index-out-of-tree", "stated index has more bits than the proof has levels")
	}
	if len(proof.MerkleProof) != len(proof.CoinbaseProof) {
		add("coinbase:proof-length-differs", fmt.Sprintf("tx proof %d bytes, coinbase proof %d bytes", len(proof.MerkleProof), len(proof.CoinbaseProof)))
	}
	cb := sha256.Sum256(proof.CoinbasePreimage[:])
	if ok, _ := c31Prove(cb, root, proof.CoinbaseProof, 0); !ok {
		add("coinbase:proof-invalid", "sha256(coinbase preimage) with the coinbase proof does not lead to the Merkle root at index 0")
	}
	for i := uint(1); i < n; i++ {
		prevHash := c31DSha(hd[(i-1)*80 : i*80])
		if string(hd[i*80+4:i*80+36]) != string(prevHash[:]) {
			add("headers:not-linked", fmt.Sprintf("header %d does not reference the hash of header %d", i, i-1))
			break
		}
	}
	return
}

// ---------------------------------------------------------------------------

func TestVerif_C31_SpvProof(t *testing.T) {
	r := verifkit.Start(t, "C31", "spvproof")
	defer r.Finish()
	r.SetRule("PRNG chains: 1..18 blocks at start, blocks with 1..70 (thorough 700) transactions incl. sizes 1,2,3,odd,2^k,2^k+1, SegWit coinbases; target tx first(coinbase)/second/last/middle/random, sometimes unconfirmed or unknown; required confirmations =, <, > accumulated; growth script mining 0..3 blocks after chosen queries (before the tip is read, while headers are fetched, while Merkle proofs are fetched). AssembleSpvProof runs against the simulated chain; a returned proof goes to the independent verifier and is compared with the chain's ground truth. non-trivial = a proof was returned and verified")
	r.Assume("required confirmations >= 1; the chain only grows (no reorganisations); Electrum semantics: a Merkle-proof query for a height whose block does not contain the transaction is an error")
	n := r.N(4000, 40000)
	thorough := !r.Quick()
	verifkit.Parallel(n, 0, func(i int) {
		rng := r.SubRand("scenario", i)
		s := c31GenScenario(rng, thorough)
		chain, target := c31Build(s, rng)
		desc := fmt.Sprintf("scenario#%d %s", i, verifkit.JSON(s))
		var tx *Transaction
		var proof *SpvProof
		var err error
		if r.Guard("assemble:", desc, func() {
			tx, proof, err = AssembleSpvProof(target, s.Required, chain)
		}) {
			r.Case(desc, false)
			return
		}
		grewEarly := false
		for k := 0; k < 2 && k < len(s.Growth); k++ {
			if s.Growth[k] > 0 {
				grewEarly = true
			}
		}
		conf := s.Visible - s.TxBlock
		expectSuccess := !s.Unknown && conf >= 1 && uint(conf) >= s.Required && !grewEarly
		if err != nil {
			r.Case(desc, false)
			r.Count("assemblies_failed", 1)
			switch {
			case s.Unknown:
				r.Count("failed_unknown_tx", 1)
			case conf < 1:
				r.Count("failed_unconfirmed_tx", 1)
			case uint(conf) < s.Required:
				r.Count("failed_too_few_confirmations", 1)
			case grewEarly:
				r.Count("failed_chain_grew_before_tip_was_read", 1)
			default:
				r.Count("failed_without_apparent_cause", 1)
			}
			return
		}
		if tx == nil || proof == nil {
			r.Case(desc, false)
			r.Violation("assemble:nil-result-without-error", "AssembleSpvProof returned no error but a nil transaction/proof", desc, strings.Join(chain.trace, "; "))
			return
		}
		witness := map[string]interface{}{
			"queries": chain.trace, "tx_index_in_block": proof.TxIndexInBlock,
			"merkle_proof": hex.EncodeToString(proof.MerkleProof), "coinbase_proof": hex.EncodeToString(proof.CoinbaseProof),
			"coinbase_preimage": hex.EncodeToString(proof.CoinbasePreimage[:]), "headers_bytes": len(proof.BitcoinHeaders),
			"target": target.Hex(ReversedByteOrder),
		}
		problems := c31Verify(target, proof, s.Required)
		// ground truth of the simulated chain
		if !s.Unknown && s.TxBlock < len(chain.blocks) {
			b := chain.blocks[s.TxBlock]
			if len(proof.BitcoinHeaders) >= 80 && string(proof.BitcoinHeaders[:80]) != string(b.raw) {
				problems = append(problems, c31Problem{"truth:first-header-not-tx-block", fmt.Sprintf("first header is not the header of the transaction's block (height %d)", s.Base+uint(s.TxBlock))})
			}
			for k := 1; k*80+80 <= len(proof.BitcoinHeaders) && s.TxBlock+k < len(chain.blocks); k++ {
				if string(proof.BitcoinHeaders[k*80:k*80+80]) != string(chain.blocks[s.TxBlock+k].raw) {
					problems = append(problems, c31Problem{"truth:header-not-on-chain", fmt.Sprintf("header %d is not the chain's header at height %d", k, s.Base+uint(s.TxBlock+k))})
					break
				}
			}
			if proof.TxIndexInBlock != uint(s.TxPos) {
				problems = append(problems, c31Problem{"truth:index-not-position", fmt.Sprintf("stated index %d, transaction is at position %d", proof.TxIndexInBlock, s.TxPos)})
			}
			if tx.Hash() != target {
				problems = append(problems, c31Problem{"truth:returned-tx-differs", "returned transaction does not hash to the requested transaction hash"})
			}
		}
		if len(problems) == 0 {
			r.Case(desc, true)
			r.Count("proofs_verified", 1)
			if chain.grown > 0 {
				r.Count("proofs_verified_chain_grew_during_assembly", 1)
			}
			if s.TxPos == 0 {
				r.Count("proofs_verified_of_coinbase", 1)
			}
			if s.TreeSizes[s.TxBlock]%2 == 1 && s.TxPos == s.TreeSizes[s.TxBlock]-1 && s.TxPos > 0 {
				r.Count("proofs_verified_last_odd_leaf", 1)
			}
			if len(chain.blocks[s.TxBlock].txs[0].Inputs[0].Witness) > 0 {
				r.Count("proofs_verified_segwit_coinbase", 1)
			}
			if !expectSuccess {
				r.Count("verified_although_failure_was_expected", 1)
			}
			if i%997 == 5 {
				r.Sample(map[string]interface{}{"scenario": s, "queries": chain.trace, "verified": true})
			}
			return
		}
		r.Case(desc, false)
		for _, p := range problems {
			r.Violation("proof:"+p.fp, p.what, desc, witness)
		}
	})
	if r.Counter("proofs_verified") == 0 {
		r.Inconclusive("no assembled proof was verified (every assembly failed): nothing decided")
	}
}

// TestVerif_C31_SpvProofUnderFaults: every query of an assembly fails once,
// in turn. The assembly may fail; a proof that comes back must still prove
// the transaction.
func TestVerif_C31_SpvProofUnderFaults(t *testing.T) {
	r := verifkit.Start(t, "C31", "spvproof-faults")
	defer r.Finish()
	r.SetRule("the scenarios of the spvproof part, re-run once per query ordinal with that query failing with a transient error (every ordinal of the fault-free run). Outcome error: accepted. Outcome proof: must pass the independent verifier and start at the transaction's block. Non-trivial: the scripted failure was hit.")
	n := r.N(500, 6000)
	thorough := !r.Quick()
	verifkit.Parallel(n, 0, func(i int) {
		build := func(failAt int) (*c31Scenario, *c31Chain, Hash) {
			rng := r.SubRand("scenario", i)
			s := c31GenScenario(rng, thorough)
			chain, target := c31Build(s, rng)
			chain.failAt = failAt
			return s, chain, target
		}
		s0, c0, t0 := build(-1)
		if r.Guard("assemble-faults:", fmt.Sprintf("scenario#%d fault-free", i), func() { _, _, _ = AssembleSpvProof(t0, s0.Required, c0) }) {
			return
		}
		for f := 0; f < c0.calls; f++ {
			s, chain, target := build(f)
			desc := fmt.Sprintf("scenario#%d %s | query %d fails", i, verifkit.JSON(s), f)
			var tx *Transaction
			var proof *SpvProof
			var err error
			if r.Guard("assemble-faults:", desc, func() { tx, proof, err = AssembleSpvProof(target, s.Required, chain) }) {
				continue
			}
			r.Case(desc, chain.faulted > 0)
			if chain.faulted > 0 {
				r.Count("assemblies_with_the_failure_hit", 1)
			}
			if err != nil {
				r.Count("assemblies_that_gave_up_with_error", 1)
				continue
			}
			if chain.faulted > 0 {
				r.Count("assemblies_that_returned_a_proof_despite_the_failure", 1)
			}
			if tx == nil || proof == nil {
				r.Violation("faults:nil-result-without-error", "no error but a nil transaction/proof after a failed query", desc, strings.Join(chain.trace, "; "))
				continue
			}
			problems := c31Verify(target, proof, s.Required)
			if !s.Unknown && s.TxBlock < len(chain.blocks) && len(proof.BitcoinHeaders) >= 80 && string(proof.BitcoinHeaders[:80]) != string(chain.blocks[s.TxBlock].raw) {
				problems = append(problems, c31Problem{"truth:first-header-not-tx-block", "first header is not the header of the transaction's block"})
			}
			for _, p := range problems {
				r.Violation("faults:proof:"+p.fp, "after a failed query the assembly returned a proof: "+p.what, desc, map[string]interface{}{"queries": chain.trace, "headers_bytes": len(proof.BitcoinHeaders)})
			}
		}
	})
}
