//go:build verif

package bitcoin

// C30 — TransactionSizeEstimator never undershoots. For a shape (numbers of
// P2PKH / P2WPKH / P2SH / P2WSH inputs, redeem script lengths, numbers of
// outputs of the four kinds) the real transaction of that shape is built by
// TransactionBuilder, signed with signatures ground to the longest encoding
// the builder can emit (33-byte R, 32-byte low S: 71-byte DER + sighash
// byte) and, separately, with signatures as they come; its virtual size is
// compared with the estimator's figure for the same shape.

import (
	"fmt"
	"math/rand"
	"testing"

	"github.com/btcsuite/btcd/mempool"
	"github.com/btcsuite/btcutil"

	"github.com/keep-network/keep-core/internal/verifkit"
)

type c30Shape struct {
	In   [4]int // inputs per kind
	LSH  int    // redeem script length of the P2SH inputs
	LWSH int    // witness script length of the P2WSH inputs
	Out  [4]int // outputs per kind
}

func (s c30Shape) String() string {
	return fmt.Sprintf("in(P2PKH=%d,P2WPKH=%d,P2SH=%d/L%d,P2WSH=%d/L%d) out(P2PKH=%d,P2WPKH=%d,P2SH=%d,P2WSH=%d)",
		s.In[0], s.In[1], s.In[2], s.LSH, s.In[3], s.LWSH, s.Out[0], s.Out[1], s.Out[2], s.Out[3])
}

func (s c30Shape) estimate() (int64, error) {
	return NewTransactionSizeEstimator().
		AddPublicKeyHashInputs(s.In[0], false).
		AddPublicKeyHashInputs(s.In[1], true).
		AddScriptHashInputs(s.In[2], s.LSH, false).
		AddScriptHashInputs(s.In[3], s.LWSH, true).
		AddPublicKeyHashOutputs(s.Out[0], false).
		AddPublicKeyHashOutputs(s.Out[1], true).
		AddScriptHashOutputs(s.Out[2], false).
		AddScriptHashOutputs(s.Out[3], true).
		VirtualSize()
}

// estimateStepwise builds the same shape on one estimator and reads the
// virtual size after every step (read, extend, read again - a caller sizing a
// transaction while it adds inputs). It returns the last reading and whether
// the readings ever decreased.
func (s c30Shape) estimateStepwise() (last int64, decreased bool, err error) {
	e := NewTransactionSizeEstimator()
	steps := []func(){
		func() { e.AddPublicKeyHashInputs(s.In[0], false) },
		func() { e.AddPublicKeyHashInputs(s.In[1], true) },
		func() { e.AddScriptHashInputs(s.In[2], s.LSH, false) },
		func() { e.AddScriptHashInputs(s.In[3], s.LWSH, true) },
		func() { e.AddPublicKeyHashOutputs(s.Out[0], false) },
		func() { e.AddPublicKeyHashOutputs(s.Out[1], true) },
		func() { e.AddScriptHashOutputs(s.Out[2], false) },
		func() { e.AddScriptHashOutputs(s.Out[3], true) },
	}
	prev := int64(-1)
	if v, verr := e.VirtualSize(); verr == nil {
		prev = v
	}
	for _, st := range steps {
		st()
		v, verr := e.VirtualSize()
		if verr != nil {
			return 0, decreased, verr
		}
		if v < prev {
			decreased = true
		}
		prev, last = v, v
	}
	return last, decreased, nil
}

func c30Redeem(rng *rand.Rand, key *c27kitKey, length int) []byte {
	switch length {
	case 92:
		return c27kitDepositScript(rng, key.PKH, false)
	case 126:
		return c27kitDepositScript(rng, key.PKH, true)
	}
	return c27kitPaddedScript(rng, key.PKH, length)
}

// c30Plan materialises the shape: inputs in random order, funded on a chain.
func c30Plan(rng *rand.Rand, s c30Shape, maximal bool) *c27kitPlan {
	p := &c27kitPlan{Chain: newLocalChain()}
	wallet := c27kitNewKey(rng)
	var kinds []int
	for k, c := range s.In {
		for i := 0; i < c; i++ {
			kinds = append(kinds, k)
		}
	}
	rng.Shuffle(len(kinds), func(i, j int) { kinds[i], kinds[j] = kinds[j], kinds[i] })
	for _, k := range kinds {
		mode := c27kitSigMode{LongR: -1, HighS: rng.Intn(2) == 0}
		if maximal {
			mode.LongR, mode.FullS = 1, true
		}
		var redeem []byte
		switch k {
		case c27kitP2SHKind:
			redeem = c30Redeem(rng, wallet, s.LSH)
		case c27kitP2WSHKind:
			redeem = c30Redeem(rng, wallet, s.LWSH)
		}
		p.c27kitAddInput(rng, k, wallet, redeem, c27kitAmount(rng), mode)
	}
	for k, c := range s.Out {
		for i := 0; i < c; i++ {
			p.Outputs = append(p.Outputs, &TransactionOutput{Value: c27kitAmount(rng), PublicKeyScript: c27kitRandomOutputScript(rng, k)})
		}
	}
	rng.Shuffle(len(p.Outputs), func(i, j int) { p.Outputs[i], p.Outputs[j] = p.Outputs[j], p.Outputs[i] })
	return p
}

// c30Compositions lists every way to have between 1 and max outputs of the
// four kinds.
func c30Compositions(max int) [][4]int {
	var out [][4]int
	for a := 0; a <= max; a++ {
		for b := 0; a+b <= max; b++ {
			for c := 0; a+b+c <= max; c++ {
				for d := 0; a+b+c+d <= max; d++ {
					if a+b+c+d > 0 {
						out = append(out, [4]int{a, b, c, d})
					}
				}
			}
		}
	}
	return out
}

func TestVerif_C30_Estimator(t *testing.T) {
	r := verifkit.Start(t, "C30", "estimator")
	defer r.Finish()
	r.SetRule("grid of shapes: every (P2PKH, P2WPKH, P2SH, P2WSH) input count vector with 0-4 of each kind (624 vectors) x output count vectors of 1-6 outputs over the four kinds (quick: 3 sampled per input vector; thorough: all 209), redeem script length 92 or 126 (deposit scripts) drawn per shape; plus extra shapes with redeem scripts of 25..520 bytes and with 250-300 outputs. Each shape is built and signed twice: signatures ground to the longest encoding (71-byte DER + sighash byte), and signatures as they come. non-trivial = >= 1 script-hash input or maximal-length signatures")
	r.Assume("virtual size of the real transaction is ceil((3*stripped + total)/4) from btcd's wire serialisation sizes, cross-checked with mempool.GetTxVirtualSize")
	var shapes []c30Shape
	rngS := r.Rand("shapes")
	comps := c30Compositions(6)
	lens := []int{92, 126}
	for a := 0; a <= 4; a++ {
		for b := 0; b <= 4; b++ {
			for c := 0; c <= 4; c++ {
				for d := 0; d <= 4; d++ {
					if a+b+c+d == 0 {
						continue
					}
					if r.Quick() {
						for k := 0; k < 3; k++ {
							shapes = append(shapes, c30Shape{In: [4]int{a, b, c, d}, LSH: lens[rngS.Intn(2)], LWSH: lens[rngS.Intn(2)], Out: comps[rngS.Intn(len(comps))]})
						}
					} else {
						for _, o := range comps {
							shapes = append(shapes, c30Shape{In: [4]int{a, b, c, d}, LSH: lens[rngS.Intn(2)], LWSH: lens[rngS.Intn(2)], Out: o})
						}
					}
				}
			}
		}
	}
	grid := len(shapes)
	r.SetExhaustive(!r.Quick())
	// extra shapes: other redeem script lengths (push opcode and compact size
	// boundaries), many outputs
	special := []int{25, 26, 74, 75, 76, 77, 78, 79, 252, 253, 254, 255, 256, 257, 258, 259, 260, 519, 520}
	nExtra := r.N(150, 3000)
	for i := 0; i < nExtra; i++ {
		s := c30Shape{LSH: 25 + rngS.Intn(496), LWSH: 25 + rngS.Intn(496)}
		if i%2 == 0 {
			s.LSH = special[rngS.Intn(len(special))]
			s.LWSH = special[rngS.Intn(len(special))]
		}
		for k := range s.In {
			s.In[k] = rngS.Intn(4)
		}
		if s.In[2]+s.In[3] == 0 {
			s.In[2+rngS.Intn(2)] = 1
		}
		s.Out = comps[rngS.Intn(len(comps))]
		if i%10 == 9 {
			s.Out = [4]int{rngS.Intn(120), 100 + rngS.Intn(60), rngS.Intn(60), 50 + rngS.Intn(60)}
		}
		shapes = append(shapes, s)
	}
	r.Count("shapes_grid", int64(grid))
	r.Count("shapes_extra", int64(nExtra))

	verifkit.Parallel(len(shapes), 0, func(i int) {
		s := shapes[i]
		var est int64
		var eerr error
		if r.Guard("estimate:", s.String(), func() { est, eerr = s.estimate() }) {
			return
		}
		if eerr != nil {
			r.Case(s.String(), true)
			r.Violation("estimate:error", "estimator failed for a valid shape: "+eerr.Error(), s.String(), nil)
			return
		}
		// the estimate is a function of the shape: reading it while the shape
		// is being built must not change what is read afterwards
		var stepEst int64
		var stepDec bool
		var stepErr error
		if !r.Guard("estimate-stepwise:", s.String(), func() { stepEst, stepDec, stepErr = s.estimateStepwise() }) {
			if stepErr != nil {
				r.Violation("estimate:stepwise-error", "estimator failed when read after every step: "+stepErr.Error(), s.String(), nil)
			} else if stepEst != est {
				r.Violation("estimate:reading-changes-later-estimate", fmt.Sprintf("the same shape estimates to %d vbytes when the size is read once at the end and to %d when it is also read after every step", est, stepEst), s.String(), nil)
			} else if stepDec {
				r.Violation("estimate:decreases-while-growing", "the estimate decreased although inputs/outputs were only added", s.String(), nil)
			}
		}
		for pass, maximal := range []bool{true, false} {
			rng := r.SubRand(fmt.Sprintf("real%d", pass), i)
			name := "typical"
			if maximal {
				name = "maximal"
			}
			desc := fmt.Sprintf("%s signatures=%s", s, name)
			p := c30Plan(rng, s, maximal)
			var tx *Transaction
			var sigs []*SignatureContainer
			var err error
			tries := 0
			if r.Guard("real:", desc, func() {
				var b *TransactionBuilder
				b, err = p.Builder()
				if err != nil {
					return
				}
				sigs, _, tries, err = p.Sign(b, rng)
				if err != nil {
					return
				}
				tx, err = b.AddSignatures(sigs)
			}) {
				continue
			}
			if err != nil {
				r.Inconclusive("real transaction could not be built for " + desc + ": " + err.Error())
				continue
			}
			msg := c27kitMsgTx(tx)
			realV := c27kitVSize(msg)
			if lib := mempool.GetTxVirtualSize(btcutil.NewTx(msg)); lib != realV {
				r.Inconclusive(fmt.Sprintf("monitor's vsize %d differs from mempool.GetTxVirtualSize %d for %s", realV, lib, desc))
				continue
			}
			allMax := true
			for _, sg := range sigs {
				if c27kitDERLen(sg.R, sg.S) != 71 {
					allMax = false
				}
			}
			if maximal && !allMax {
				r.Inconclusive("grinding did not give maximal signatures for " + desc)
				continue
			}
			r.Case(desc, s.In[2]+s.In[3] > 0 || allMax)
			r.Count("signing_tries", int64(tries))
			r.Count("signatures", int64(len(sigs)))
			if est < realV {
				r.Violation("undershoot:"+name, fmt.Sprintf("estimated virtual size %d < real virtual size %d (stripped %d, total %d bytes)", est, realV, msg.SerializeSizeStripped(), msg.SerializeSize()), desc,
					map[string]interface{}{"tx": verifkit.Hex(tx.Serialize()), "estimate": est, "real": realV})
			} else if maximal {
				if est == realV {
					r.Count("maximal_exact", 1)
				} else {
					r.Count("maximal_overshoot_vbytes", est-realV)
				}
			} else {
				r.Count("typical_overshoot_vbytes", est-realV)
			}
			if maximal && (i == 0 || i == grid/2 || i == grid-1 || i == len(shapes)-1) {
				r.Sample(map[string]interface{}{"shape": s.String(), "estimate_vsize": est, "real_vsize_maximal_signatures": realV})
			}
		}
	})
}
