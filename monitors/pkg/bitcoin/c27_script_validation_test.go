//go:build verif

package bitcoin

// C27 (pkg/bitcoin part) — arbitrary mixes of P2PKH/P2WPKH and P2SH/P2WSH
// inputs (each input with its own key; redeem scripts: the tBTC deposit
// script template and padded pay-to-public-key-hash scripts of 25..520
// bytes) pushed through TransactionBuilder, signed, and executed input by
// input in btcd's script engine under the standard verification flags.
// Corrupted signatures must be refused by AddSignatures.

import (
	"fmt"
	"math/big"
	"math/rand"
	"testing"

	"github.com/btcsuite/btcd/btcec"

	"github.com/keep-network/keep-core/internal/verifkit"
)

var c27CorruptionKinds = []string{
	"other-hash", "other-key", "swapped-rs", "negated-s-wrong-hash",
	"neighbour-signature", "zero-r", "zero-s", "r-plus-n", "s-plus-n", "missing-one",
}

func c27Corrupt(kind string, j int, good []*SignatureContainer, hashes []*big.Int, key *c27kitKey, rng *rand.Rand) (sigs []*SignatureContainer, ok bool) {
	n := btcec.S256().N
	sigs = make([]*SignatureContainer, len(good))
	for i, g := range good {
		sigs[i] = &SignatureContainer{R: new(big.Int).Set(g.R), S: new(big.Int).Set(g.S), PublicKey: g.PublicKey}
	}
	any := c27kitSigMode{LongR: -1}
	switch kind {
	case "other-hash":
		z := new(big.Int).Xor(hashes[j], big.NewInt(1<<uint(rng.Intn(60))))
		sigs[j].R, sigs[j].S, _ = c27kitSign(key, z, rng, any)
	case "other-key":
		// signed by a stranger, presented with the input's public key
		sigs[j].R, sigs[j].S, _ = c27kitSign(c27kitNewKey(rng), hashes[j], rng, any)
	case "swapped-rs":
		sigs[j].R, sigs[j].S = sigs[j].S, sigs[j].R
	case "negated-s-wrong-hash":
		z := new(big.Int).Add(hashes[j], big.NewInt(1))
		r, s, _ := c27kitSign(key, z, rng, any)
		sigs[j].R, sigs[j].S = r, new(big.Int).Sub(n, s)
	case "neighbour-signature":
		if len(good) < 2 {
			return nil, false
		}
		k := (j + 1 + rng.Intn(len(good)-1)) % len(good)
		// the neighbour's (r, s) under this input's public key
		sigs[j].R, sigs[j].S = new(big.Int).Set(good[k].R), new(big.Int).Set(good[k].S)
	case "zero-r":
		sigs[j].R = new(big.Int)
	case "zero-s":
		sigs[j].S = new(big.Int)
	case "r-plus-n":
		sigs[j].R = new(big.Int).Add(sigs[j].R, n)
	case "s-plus-n":
		sigs[j].S = new(big.Int).Add(sigs[j].S, n)
	case "missing-one":
		return sigs[:len(sigs)-1], true
	}
	return sigs, true
}

// c27Plan draws a random transaction plan.
func c27Plan(rng *rand.Rand) *c27kitPlan {
	p := &c27kitPlan{Chain: newLocalChain()}
	wallet := c27kitNewKey(rng)
	nin := 1 + rng.Intn(12)
	if rng.Intn(4) == 0 {
		nin = 1 + rng.Intn(3)
	}
	for i := 0; i < nin; i++ {
		key := wallet
		if rng.Intn(3) == 0 {
			key = c27kitNewKey(rng)
		}
		kind := rng.Intn(4)
		var redeem []byte
		if kind >= c27kitP2SHKind {
			switch rng.Intn(4) {
			case 0:
				redeem = c27kitDepositScript(rng, key.PKH, false)
			case 1:
				redeem = c27kitDepositScript(rng, key.PKH, true)
			case 2:
				lens := []int{25, 26, 27, 28, 29, 75, 76, 77, 78, 103, 104, 252, 253, 254, 255, 256, 257, 258, 259, 284, 285, 519, 520}
				redeem = c27kitPaddedScript(rng, key.PKH, lens[rng.Intn(len(lens))])
			default:
				redeem = c27kitPaddedScript(rng, key.PKH, 25+rng.Intn(496))
			}
		}
		mode := c27kitSigMode{LongR: rng.Intn(3) - 1, HighS: rng.Intn(2) == 0, FullS: rng.Intn(4) == 0}
		p.c27kitAddInput(rng, kind, key, redeem, c27kitAmount(rng), mode)
	}
	total := int64(0)
	for _, in := range p.Inputs {
		total += in.Value
	}
	nout := 1 + rng.Intn(5)
	for i := 0; i < nout; i++ {
		v := rng.Int63n(total/int64(nout) + 1)
		p.Outputs = append(p.Outputs, &TransactionOutput{Value: v, PublicKeyScript: c27kitRandomOutputScript(rng, rng.Intn(4))})
	}
	return p
}

func TestVerif_C27_Builder(t *testing.T) {
	r := verifkit.Start(t, "C27", "builder")
	defer r.Finish()
	r.SetRule("PRNG plans of 1-12 inputs, each P2PKH/P2WPKH/P2SH/P2WSH with the wallet key or its own key, redeem scripts = tBTC deposit template (92/126 B) or padded P2PKH-style scripts of 25..520 B (push-opcode and compact-size boundaries included), values 1..1.3e14 sat, 1-5 outputs of all kinds; R forced long/short, S low/high; every input executed in btcd's engine under StandardVerifyFlags; then a fresh builder of the same plan with one corrupted signature. non-trivial = >= 2 input kinds, or a corrupted signature")
	r.Assume("btcd v0.22.3 txscript engine with StandardVerifyFlags is the reference interpreter")
	n := r.N(2000, 60000)
	verifkit.Parallel(n, 0, func(i int) {
		rng := r.SubRand("plan", i)
		p := c27Plan(rng)
		desc := fmt.Sprintf("#%d %s", i, p.Desc())
		var tx *Transaction
		var sigs []*SignatureContainer
		var err error
		stage := "build"
		if r.Guard("sign:", desc, func() {
			var b *TransactionBuilder
			b, err = p.Builder()
			if err != nil {
				return
			}
			stage = "sighash"
			sigs, _, _, err = p.Sign(b, rng)
			if err != nil {
				return
			}
			stage = "addsignatures"
			tx, err = b.AddSignatures(sigs)
		}) {
			return
		}
		kinds := map[int]bool{}
		for _, in := range p.Inputs {
			kinds[in.Kind] = true
		}
		r.Case(desc, len(kinds) >= 2)
		if err != nil || tx == nil {
			r.Violation("sign:"+stage+"-error", fmt.Sprintf("valid plan refused at %s: %v", stage, err), desc, nil)
			return
		}
		for k, sg := range sigs {
			r.Count(fmt.Sprintf("der_len_%d", c27kitDERLen(sg.R, sg.S)), 1)
			r.Count("input_"+c27kitKindNames[p.Inputs[k].Kind], 1)
		}
		if bad, err := p.c27kitVerify(tx); err != nil {
			in := p.Inputs[bad]
			r.Violation("engine:"+c27kitKindNames[in.Kind], fmt.Sprintf("input %d (%s) rejected by the script engine: %v", bad, c27kitKindNames[in.Kind], err), desc,
				map[string]interface{}{"tx": verifkit.Hex(tx.Serialize()), "input": bad, "prev_script": verifkit.Hex(in.PkScript), "prev_value": in.Value})
		}
		if i < 3 {
			r.Sample(map[string]interface{}{"case": desc, "signed_tx_bytes": len(tx.Serialize()), "engine": "all inputs accepted"})
		}

		// corrupted signature, fresh builder
		ck := c27CorruptionKinds[rng.Intn(len(c27CorruptionKinds))]
		j := rng.Intn(len(p.Inputs))
		cdesc := fmt.Sprintf("%s corrupt=%s@%d", desc, ck, j)
		var ctx *Transaction
		var cerr error
		applicable := true
		if r.Guard("corrupt:", cdesc, func() {
			b, err := p.Builder()
			if err != nil {
				cerr = err
				return
			}
			good, hashes, _, err := p.Sign(b, rng)
			if err != nil {
				cerr = err
				return
			}
			var bad []*SignatureContainer
			bad, applicable = c27Corrupt(ck, j, good, hashes, p.Inputs[j].Key, rng)
			if !applicable {
				return
			}
			ctx, cerr = b.AddSignatures(bad)
		}) {
			return
		}
		if !applicable {
			return
		}
		r.Case(cdesc, true)
		r.Count("corrupted_"+ck, 1)
		if cerr == nil || ctx != nil {
			w := map[string]interface{}{}
			if ctx != nil {
				w["tx"] = verifkit.Hex(ctx.Serialize())
				if bad, err := p.c27kitVerify(ctx); err != nil {
					w["engine"] = fmt.Sprintf("input %d: %v", bad, err)
				} else {
					w["engine"] = "accepted"
				}
			}
			r.Violation("corrupt:"+ck+"-accepted", fmt.Sprintf("AddSignatures produced a transaction (err=%v) although the signature of input %d does not match its signature hash", cerr, j), cdesc, w)
		}
	})
}
