//go:build verif

package ephemeral

import (
	"bytes"
	"fmt"
	"math/big"
	"math/rand"
	"sync/atomic"
	"testing"

	"github.com/btcsuite/btcd/btcec"
	btcecv2 "github.com/btcsuite/btcd/btcec/v2"
	"github.com/keep-network/keep-core/internal/verifkit"
)

var c41N = new(big.Int).Set(btcec.S256().N)

// c41RefPub computes x*G with the decred secp256k1 implementation behind
// btcec/v2 (the code under test uses the older pure-Go btcec). ok == false
// means x = 0 mod N (no affine point).
func c41RefPub(x *big.Int) (px, py *big.Int, ok bool) {
	k := new(big.Int).Mod(x, c41N)
	if k.Sign() == 0 {
		return nil, nil, false
	}
	b := make([]byte, 32)
	kb := k.Bytes()
	copy(b[32-len(kb):], kb)
	_, pub := btcecv2.PrivKeyFromBytes(b)
	return pub.X(), pub.Y(), true
}

func c41KeyFromScalar(x *big.Int) *PrivateKey {
	b := x.Bytes()
	if len(b) < 32 {
		p := make([]byte, 32)
		copy(p[32-len(b):], b)
		b = p
	}
	return UnmarshalPrivateKey(b)
}

func c41RandScalar(rng *rand.Rand) *big.Int {
	for {
		k := new(big.Int).Rand(rng, c41N)
		if k.Sign() != 0 {
			return k
		}
	}
}

type c41Pair struct {
	d    *big.Int
	priv *PrivateKey
	pub  *PublicKey
}

func c41NewPair(rng *rand.Rand, useGenerate bool) (*c41Pair, error) {
	if useGenerate {
		kp, err := GenerateKeyPair()
		if err != nil {
			return nil, err
		}
		return &c41Pair{new(big.Int).Set(kp.PrivateKey.D), kp.PrivateKey, kp.PublicKey}, nil
	}
	d := c41RandScalar(rng)
	switch rng.Intn(40) {
	case 0:
		d = big.NewInt(int64(1 + rng.Intn(3)))
	case 1:
		d = new(big.Int).Sub(c41N, big.NewInt(int64(1+rng.Intn(3))))
	}
	priv := c41KeyFromScalar(d)
	return &c41Pair{d, priv, (*PublicKey)(&priv.PublicKey)}, nil
}

var c41Sizes = []int{0, 1, 2, 15, 16, 17, 31, 32, 33, 63, 64, 65, 100, 127, 128, 200, 255, 256, 257, 1000, 4096, 65536}

func TestVerif_C41_Channels(t *testing.T) {
	r := verifkit.Start(t, "C41", "channels")
	defer r.Finish()
	r.SetRule("key pairs from PRNG scalars (incl. 1..3 and N-1..N-3) and from GenerateKeyPair; a.Ecdh(B) and b.Ecdh(A) decrypt each other's ciphertexts for plaintext sizes {0,1,2,15..17,31..33,63..65,100,127,128,200,255..257,1000,4096,65536}; every single-byte modification (all positions when |c| <= 256, else 64 sampled incl. nonce/tag boundaries), 8 single-bit flips, truncations (all lengths when |c| <= 128, else sampled), extensions, and decryption under keys derived with a third pair must fail; marshal/unmarshal round trips of both key types. non-trivial = modified ciphertext or foreign key")
	r.Assume("XSalsa20-Poly1305 forgery probability (2^-128) is neglected; the expected public key of a scalar comes from btcec/v2 (decred secp256k1), a different implementation from the btcec v0.22 used by the package")
	n := r.N(2000, 20000) // about 150 recorded cases per pair
	var tampered, foreign, sameSecret int64
	verifkit.Parallel(n, 0, func(i int) {
		rng := r.SubRand("pair", i)
		A, err := c41NewPair(rng, i%10 == 0)
		B, err2 := c41NewPair(rng, i%10 == 5)
		C, err3 := c41NewPair(rng, false)
		if err != nil || err2 != nil || err3 != nil {
			r.Inconclusive("GenerateKeyPair failed")
			return
		}
		size := c41Sizes[i%len(c41Sizes)]
		if r.Quick() && size == 65536 && i > 4*len(c41Sizes) {
			size = 3000
		}
		m := make([]byte, size)
		rng.Read(m)
		// base: the concrete inputs (for findings); label: the same with keys
		// drawn by GenerateKeyPair from crypto/rand replaced by a placeholder,
		// so that the case list of a seed is the same in every run
		base := fmt.Sprintf("a=%s b=%s c=%s |m|=%d mseed=%d/%d", A.d.Text(16), B.d.Text(16), C.d.Text(16), size, r.Seed(), i)
		aL, bL := A.d.Text(16), B.d.Text(16)
		if i%10 == 0 {
			aL = "GenerateKeyPair()"
		}
		if i%10 == 5 {
			bL = "GenerateKeyPair()"
		}
		label := fmt.Sprintf("a=%s b=%s c=%s |m|=%d mseed=%d/%d", aL, bL, C.d.Text(16), size, r.Seed(), i)
		r.Guard("channel:", base, func() {
			kab := A.priv.Ecdh(B.pub)
			kba := B.priv.Ecdh(A.pub)
			// ---- agreement and round trip, both directions
			for dir, ks := range [][2]*SymmetricEcdhKey{{kab, kba}, {kba, kab}} {
				desc := fmt.Sprintf("agree dir=%d %s", dir, base)
				c, err := ks[0].Encrypt(append([]byte(nil), m...))
				r.Case(fmt.Sprintf("agree dir=%d %s", dir, label), false)
				if err != nil {
					r.Violation("encrypt:error", err.Error(), desc, nil)
					continue
				}
				for who, k := range []*SymmetricEcdhKey{ks[1], ks[0]} {
					p, err := k.Decrypt(append([]byte(nil), c...))
					if err != nil {
						r.Violation([]string{"ecdh:keys-disagree", "decrypt:own-ciphertext-rejected"}[who], "decryption of an untouched ciphertext failed: "+err.Error(), desc, nil)
					} else if !bytes.Equal(p, m) {
						r.Violation("decrypt:wrong-plaintext", "decrypt(encrypt(m)) != m", desc, map[string]string{"got": verifkit.Hex(p[:c41min(len(p), 64)])})
					}
				}
				if dir == 1 {
					continue
				}
				// ---- tampering (checked with the peer's key)
				k := ks[1]
				check := func(kind string, c2 []byte) {
					d2 := fmt.Sprintf("tamper %s %s", kind, base)
					r.Case(fmt.Sprintf("tamper %s %s", kind, label), true)
					atomic.AddInt64(&tampered, 1)
					p, err := k.Decrypt(c2)
					if err == nil {
						cls := kind
						if j := bytes.IndexByte([]byte(kind), '@'); j > 0 {
							cls = kind[:j]
						}
						r.Violation("decrypt:accepted-"+cls, "a modified ciphertext was accepted", d2, map[string]interface{}{"plaintext_len": len(p), "ciphertext_len": len(c2)})
					}
				}
				var positions []int
				if len(c) <= 256 {
					for p := 0; p < len(c); p++ {
						positions = append(positions, p)
					}
				} else {
					positions = []int{0, 1, 22, 23, 24, 25, 38, 39, 40, 41, len(c) - 2, len(c) - 1}
					for len(positions) < 64 {
						positions = append(positions, rng.Intn(len(c)))
					}
				}
				for _, p := range positions {
					c2 := append([]byte(nil), c...)
					c2[p] ^= byte(1 + rng.Intn(255))
					check(fmt.Sprintf("byte@%d", p), c2)
				}
				for b := 0; b < 8; b++ {
					c2 := append([]byte(nil), c...)
					p := rng.Intn(len(c))
					c2[p] ^= 1 << uint(b)
					check(fmt.Sprintf("bit@%d.%d", p, b), c2)
				}
				var cuts []int
				if len(c) <= 128 {
					for l := 0; l < len(c); l++ {
						cuts = append(cuts, l)
					}
				} else {
					cuts = []int{0, 1, 23, 24, 25, 39, 40, 41, len(c) - 16, len(c) - 1}
					for len(cuts) < 24 {
						cuts = append(cuts, rng.Intn(len(c)))
					}
				}
				for _, l := range cuts {
					check(fmt.Sprintf("truncate@%d", l), append([]byte(nil), c[:l]...))
				}
				check("extend@+1", append(append([]byte(nil), c...), byte(rng.Intn(256))))
				check("extend@+16", append(append([]byte(nil), c...), make([]byte, 16)...))
				check("prepend@1", append([]byte{byte(rng.Intn(256))}, c...))
				check("drophead@1", append([]byte(nil), c[1:]...))
				// ---- foreign keys. ECDH keeps only the x-coordinate of the
				// shared point, so a key is foreign iff its scalar product is
				// neither a*b nor -(a*b) mod N.
				prod := func(x, y *big.Int) *big.Int { return new(big.Int).Mod(new(big.Int).Mul(x, y), c41N) }
				ab := prod(A.d, B.d)
				abNeg := new(big.Int).Mod(new(big.Int).Neg(ab), c41N)
				type fkey struct {
					name string
					k    *SymmetricEcdhKey
					s    *big.Int
				}
				for _, f := range []fkey{
					{"c.Ecdh(A)", C.priv.Ecdh(A.pub), prod(C.d, A.d)}, {"c.Ecdh(B)", C.priv.Ecdh(B.pub), prod(C.d, B.d)},
					{"a.Ecdh(C)", A.priv.Ecdh(C.pub), prod(A.d, C.d)}, {"a.Ecdh(A)", A.priv.Ecdh(A.pub), prod(A.d, A.d)},
				} {
					d2 := fmt.Sprintf("foreign %s %s", f.name, base)
					same := f.s.Cmp(ab) == 0 || f.s.Cmp(abNeg) == 0
					r.Case(fmt.Sprintf("foreign %s %s", f.name, label), !same)
					_, err := f.k.Decrypt(append([]byte(nil), c...))
					if same {
						// not a foreign key: either outcome is legal
						atomic.AddInt64(&sameSecret, 1)
						continue
					}
					atomic.AddInt64(&foreign, 1)
					if err == nil {
						r.Violation("decrypt:accepted-foreign-key", "a ciphertext was decrypted under a key of another pair", d2, nil)
					}
				}
			}
			// ---- marshalling round trips
			desc := "marshal " + base
			r.Case("marshal "+label, false)
			pm := A.pub.Marshal()
			up, err := UnmarshalPublicKey(pm)
			if err != nil || up == nil {
				r.Violation("marshal:public-rejected", fmt.Sprintf("UnmarshalPublicKey(Marshal(A)) failed: %v", err), desc, verifkit.Hex(pm))
			} else if up.X.Cmp(A.pub.X) != 0 || up.Y.Cmp(A.pub.Y) != 0 || !bytes.Equal(up.Marshal(), pm) {
				r.Violation("marshal:public-differs", "public key changed in a marshal/unmarshal round trip", desc, verifkit.Hex(pm))
			}
			sm := A.priv.Marshal()
			us := UnmarshalPrivateKey(sm)
			if us == nil || us.D.Cmp(A.priv.D) != 0 || !bytes.Equal(us.Marshal(), sm) || us.PublicKey.X.Cmp(A.pub.X) != 0 || us.PublicKey.Y.Cmp(A.pub.Y) != 0 {
				r.Violation("marshal:private-differs", "private key changed in a marshal/unmarshal round trip", desc, nil)
			}
			// the unmarshalled keys work like the originals
			if up != nil && us != nil {
				k2 := us.Ecdh(B.pub)
				c, _ := kba.Encrypt(m)
				if p, err := k2.Decrypt(c); err != nil || !bytes.Equal(p, m) {
					r.Violation("marshal:private-key-unusable", "key derived from the unmarshalled private key does not decrypt", desc, nil)
				}
			}
		})
		if i < 3 {
			r.Sample(map[string]interface{}{"a": A.d.Text(16), "b": B.d.Text(16), "plaintext_len": size})
		}
	})
	r.Count("tampered_ciphertexts", tampered)
	r.Count("foreign_key_decryptions", foreign)
	r.Count("third_key_with_same_shared_point", sameSecret)
}

func c41min(a, b int) int {
	if a < b {
		return a
	}
	return b
}

func TestVerif_C41_KeyMatching(t *testing.T) {
	r := verifkit.Start(t, "C41", "key_matching")
	defer r.Finish()
	r.SetRule("for PRNG key pairs (a, A=a*G) (incl. a in 1..3, N-1..N-3): A.IsKeyMatching(x) for x in {a, another key b, 0, 1, N-1, N, N+1, N-a, a+N, a+1, a-1, 2a, PRNG 256-bit values >= N}, built through UnmarshalPrivateKey from the byte string a peer would reveal; expected = (x*G == A) computed with btcec/v2; no panic. non-trivial = x != a (degenerate or foreign private key)")
	n := r.N(1500, 50000)
	var matches, mismatches int64
	verifkit.Parallel(n, 0, func(i int) {
		rng := r.SubRand("match", i)
		A, _ := c41NewPair(rng, false)
		B, _ := c41NewPair(rng, false)
		refX, refY, _ := c41RefPub(A.d)
		if refX.Cmp(A.pub.X) != 0 || refY.Cmp(A.pub.Y) != 0 {
			r.Violation("keygen:public-key-differs-from-reference", "UnmarshalPrivateKey(a).PublicKey != a*G by the reference implementation", "a="+A.d.Text(16), nil)
			return
		}
		a := A.d
		above := new(big.Int).Add(c41N, new(big.Int).Rand(rng, new(big.Int).Sub(new(big.Int).Lsh(big.NewInt(1), 256), c41N)))
		xs := map[string]*big.Int{
			"a": a, "b": B.d, "0": big.NewInt(0), "1": big.NewInt(1),
			"N-1": new(big.Int).Sub(c41N, big.NewInt(1)), "N": new(big.Int).Set(c41N), "N+1": new(big.Int).Add(c41N, big.NewInt(1)),
			"N-a": new(big.Int).Sub(c41N, a), "a+N": new(big.Int).Add(a, c41N),
			"a+1": new(big.Int).Add(a, big.NewInt(1)), "a-1": new(big.Int).Sub(a, big.NewInt(1)), "2a": new(big.Int).Lsh(a, 1),
			"rand>=N": above,
		}
		for name, x := range xs {
			desc := fmt.Sprintf("IsKeyMatching a=%s x=%s(%s)", a.Text(16), name, x.Text(16))
			want := false
			if px, py, ok := c41RefPub(x); ok {
				want = px.Cmp(A.pub.X) == 0 && py.Cmp(A.pub.Y) == 0
			}
			var got bool
			if r.Guard("matching:"+name+":", desc, func() {
				got = A.pub.IsKeyMatching(c41KeyFromScalar(x))
			}) {
				r.Case(desc, name != "a")
				continue
			}
			r.Case(desc, name != "a")
			if want {
				atomic.AddInt64(&matches, 1)
			} else {
				atomic.AddInt64(&mismatches, 1)
			}
			if got != want {
				fp := "matching:false-negative"
				if got {
					fp = "matching:false-positive"
				}
				r.Violation(fp+":"+name, fmt.Sprintf("IsKeyMatching = %v but x*G == A is %v", got, want), desc, nil)
			}
		}
		if i < 2 {
			r.Sample(map[string]string{"a": a.Text(16), "A": verifkit.Hex(A.pub.Marshal())})
		}
	})
	r.Count("expected_matches", matches)
	r.Count("expected_mismatches", mismatches)
}
