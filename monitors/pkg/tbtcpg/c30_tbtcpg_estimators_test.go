//go:build verif

package tbtcpg

// C30 (pkg/tbtcpg part) — the fee estimators of the proposal generator
// (deposit sweep, redemption, moving funds, moved funds sweep) are asked for
// a fee at 1 sat/vbyte, which makes the returned fee equal to the virtual
// size they assumed; the real transaction of the shape the estimator states
// (P2WPKH main UTXO, P2WSH deposits with the real tbtc.Deposit.Script(),
// P2WPKH change/targets, redeemer scripts as given) is built through
// bitcoin.TransactionBuilder the way pkg/tbtc assembles it, signed with
// signatures ground to the longest encoding, and measured.

import (
	"crypto/ecdsa"
	"crypto/sha256"
	"encoding/hex"
	"fmt"
	"math/big"
	"math/rand"
	"testing"

	"github.com/btcsuite/btcd/btcec"
	"github.com/btcsuite/btcd/chaincfg/chainhash"
	"github.com/btcsuite/btcd/wire"
	"github.com/btcsuite/btcutil"

	"github.com/keep-network/keep-core/internal/verifkit"
	"github.com/keep-network/keep-core/pkg/bitcoin"
	"github.com/keep-network/keep-core/pkg/chain"
	"github.com/keep-network/keep-core/pkg/tbtc"
)

type c30Key struct {
	D   *big.Int
	Pub *ecdsa.PublicKey
	PKH [20]byte
}

func c30Scalar(rng *rand.Rand) *big.Int {
	n := btcec.S256().N
	for {
		b := make([]byte, 32)
		rng.Read(b)
		k := new(big.Int).SetBytes(b)
		if k.Sign() > 0 && k.Cmp(n) < 0 {
			return k
		}
	}
}

func c30NewKey(rng *rand.Rand) *c30Key {
	d := c30Scalar(rng)
	x, y := btcec.S256().ScalarBaseMult(d.Bytes())
	ser := make([]byte, 33)
	ser[0] = 0x02 | byte(y.Bit(0))
	x.FillBytes(ser[1:])
	k := &c30Key{D: d, Pub: &ecdsa.PublicKey{Curve: btcec.S256(), X: x, Y: y}}
	copy(k.PKH[:], btcutil.Hash160(ser))
	return k
}

// c30Sign signs z; when maximal, the nonce is ground until R has its top bit
// set and the low form of S fills 32 bytes (71-byte DER).
func c30Sign(key *c30Key, z *big.Int, rng *rand.Rand, maximal bool) (r, s *big.Int) {
	curve := btcec.S256()
	n := curve.N
	for {
		k := c30Scalar(rng)
		x, _ := curve.ScalarBaseMult(k.Bytes())
		r = new(big.Int).Mod(x, n)
		if r.Sign() == 0 || (maximal && r.BitLen() != 256) {
			continue
		}
		s = new(big.Int).Mul(r, key.D)
		s.Add(s, z)
		s.Mul(s, new(big.Int).ModInverse(k, n))
		s.Mod(s, n)
		if s.Sign() == 0 {
			continue
		}
		if other := new(big.Int).Sub(n, s); other.Cmp(s) < 0 {
			s = other
		}
		if maximal && s.BitLen() <= 248 {
			continue
		}
		return r, s
	}
}

func c30P2WPKH(h [20]byte) []byte { return append([]byte{0x00, 0x14}, h[:]...) }

func c30P2WSH(ws []byte) []byte {
	h := sha256.Sum256(ws)
	return append([]byte{0x00, 0x20}, h[:]...)
}

func c30P2SH(rs []byte) []byte {
	return append(append([]byte{0xa9, 0x14}, btcutil.Hash160(rs)...), 0x87)
}

func c30RandomOutputScript(rng *rand.Rand, kind int) []byte {
	var h20 [20]byte
	rng.Read(h20[:])
	switch kind {
	case 0:
		return append(append([]byte{0x76, 0xa9, 0x14}, h20[:]...), 0x88, 0xac)
	case 1:
		return c30P2WPKH(h20)
	case 2:
		return append(append([]byte{0xa9, 0x14}, h20[:]...), 0x87)
	default:
		var h [32]byte
		rng.Read(h[:])
		return append([]byte{0x00, 0x20}, h[:]...)
	}
}

func c30Fund(lbc *LocalBitcoinChain, rng *rand.Rand, pkScript []byte, value int64) *bitcoin.UnspentTransactionOutput {
	tx := &bitcoin.Transaction{Version: 1}
	var h bitcoin.Hash
	rng.Read(h[:])
	tx.Inputs = append(tx.Inputs, &bitcoin.TransactionInput{
		Outpoint: &bitcoin.TransactionOutpoint{TransactionHash: h, OutputIndex: 0}, Sequence: 0xffffffff,
	})
	tx.Outputs = append(tx.Outputs, &bitcoin.TransactionOutput{Value: value, PublicKeyScript: pkScript})
	lbc.SetTransaction(tx.Hash(), tx)
	return &bitcoin.UnspentTransactionOutput{
		Outpoint: &bitcoin.TransactionOutpoint{TransactionHash: tx.Hash(), OutputIndex: 0},
		Value:    value,
	}
}

// c30Finish signs every input with the wallet key (maximal signatures) and
// returns the virtual size of the signed transaction.
func c30Finish(b *bitcoin.TransactionBuilder, key *c30Key, rng *rand.Rand, maximal bool) (int64, *bitcoin.Transaction, error) {
	hashes, err := b.ComputeSignatureHashes()
	if err != nil {
		return 0, nil, err
	}
	sigs := make([]*bitcoin.SignatureContainer, len(hashes))
	for i, h := range hashes {
		r, s := c30Sign(key, h, rng, maximal)
		sigs[i] = &bitcoin.SignatureContainer{R: r, S: s, PublicKey: key.Pub}
	}
	tx, err := b.AddSignatures(sigs)
	if err != nil {
		return 0, nil, err
	}
	m := &wire.MsgTx{Version: tx.Version, LockTime: tx.Locktime}
	for _, in := range tx.Inputs {
		ti := &wire.TxIn{
			PreviousOutPoint: wire.OutPoint{Hash: chainhash.Hash(in.Outpoint.TransactionHash), Index: in.Outpoint.OutputIndex},
			SignatureScript:  in.SignatureScript, Sequence: in.Sequence,
		}
		for _, w := range in.Witness {
			ti.Witness = append(ti.Witness, w)
		}
		m.TxIn = append(m.TxIn, ti)
	}
	for _, o := range tx.Outputs {
		m.TxOut = append(m.TxOut, &wire.TxOut{Value: o.Value, PkScript: o.PublicKeyScript})
	}
	return (3*int64(m.SerializeSizeStripped()) + int64(m.SerializeSize()) + 3) / 4, tx, nil
}

func c30Deposit(rng *rand.Rand, walletPKH [20]byte, extra bool) *tbtc.Deposit {
	var dep, refund [20]byte
	rng.Read(dep[:])
	rng.Read(refund[:])
	d := &tbtc.Deposit{
		Depositor:           chain.Address("0x" + hex.EncodeToString(dep[:])),
		WalletPublicKeyHash: walletPKH,
		RefundPublicKeyHash: refund,
	}
	rng.Read(d.BlindingFactor[:])
	lock := 1_600_000_000 + uint32(rng.Intn(400_000_000))
	d.RefundLocktime = [4]byte{byte(lock), byte(lock >> 8), byte(lock >> 16), byte(lock >> 24)}
	if extra {
		var e [32]byte
		rng.Read(e[:])
		d.ExtraData = &e
	}
	return d
}

func TestVerif_C30_TbtcpgEstimators(t *testing.T) {
	r := verifkit.Start(t, "C30", "tbtcpg")
	defer r.Finish()
	r.SetRule("deposit sweep: every deposit count 1-25 x extra-data pattern (none/all/PRNG mix) x main UTXO present/absent, P2WSH deposits with the real Deposit.Script(); redemption: 1-25 PRNG redeemer scripts of the four kinds x change present/absent; moving funds: 1-25 targets; moved funds sweep: with/without main UTXO; all signed with maximal-length signatures (and once with signatures as they come). P2SH deposits, which the sweep estimator's documentation excludes, are measured and reported in counters only. non-trivial = >= 1 script-hash input or maximal-length signatures")
	r.Assume("the shape stated by each estimator's documentation (P2WPKH main UTXO, P2WSH deposits) is the shape compared; 1 sat/vbyte fee rate makes the returned fee the assumed virtual size")
	type job struct {
		kind    string
		n       int
		variant int
		rep     int
	}
	var jobs []job
	maxN := r.N(25, 40)
	reps := r.N(3, 12)
	for rep := 0; rep < reps; rep++ {
		for n := 1; n <= maxN; n++ {
			for v := 0; v < 8; v++ {
				jobs = append(jobs, job{"sweep", n, v, rep})
			}
			for v := 0; v < 4; v++ {
				jobs = append(jobs, job{"redemption", n, v, rep})
			}
			jobs = append(jobs, job{"movingfunds", n, 0, rep}, job{"movingfunds", n, 1, rep})
		}
		for v := 0; v < 4; v++ {
			jobs = append(jobs, job{"movedsweep", 1, v, rep})
		}
	}
	verifkit.Parallel(len(jobs), 0, func(i int) {
		jb := jobs[i]
		rng := r.SubRand("job", i)
		btc := NewLocalBitcoinChain()
		btc.SetEstimateSatPerVByteFee(1, 1)
		wallet := c30NewKey(rng)
		walletScript := c30P2WPKH(wallet.PKH)
		b := bitcoin.NewTransactionBuilder(btc)
		maximal := true
		var est int64
		var err error
		desc := ""
		scriptHashInputs := 0
		assertIt := true
		switch jb.kind {
		case "sweep":
			// variant bits: 0 main UTXO present; 1-2 extra data pattern / P2SH
			mainPresent := jb.variant&1 == 0
			pattern := jb.variant >> 1 // 0 no extra data, 1 all extra data, 2 mix, 3 P2SH deposits (reported only)
			desc = fmt.Sprintf("sweep deposits=%d main=%v pattern=%d rep=%d", jb.n, mainPresent, pattern, jb.rep)
			if r.Guard("estimate:", desc, func() {
				est, _, err = estimateDepositsSweepFee(btc, jb.n, 1<<40)
			}) {
				return
			}
			total := int64(0)
			if mainPresent {
				u := c30Fund(btc, rng, walletScript, 1_000_000)
				total += u.Value
				if e := b.AddPublicKeyHashInput(u); e != nil {
					r.Inconclusive(desc + ": " + e.Error())
					return
				}
			}
			for k := 0; k < jb.n; k++ {
				extra := pattern == 1 || (pattern >= 2 && rng.Intn(2) == 0)
				d := c30Deposit(rng, wallet.PKH, extra)
				script, e := d.Script()
				if e != nil {
					r.Inconclusive(desc + ": " + e.Error())
					return
				}
				var u *bitcoin.UnspentTransactionOutput
				if pattern == 3 {
					u = c30Fund(btc, rng, c30P2SH(script), 500_000)
					assertIt = false
				} else {
					u = c30Fund(btc, rng, c30P2WSH(script), 500_000)
				}
				total += u.Value
				if e := b.AddScriptHashInput(u, script); e != nil {
					r.Inconclusive(desc + ": " + e.Error())
					return
				}
				scriptHashInputs++
			}
			b.AddOutput(&bitcoin.TransactionOutput{Value: total - est, PublicKeyScript: walletScript})
		case "redemption":
			changePresent := jb.variant&1 == 0
			maximal = jb.variant&2 == 0
			desc = fmt.Sprintf("redemption requests=%d change=%v maximal=%v rep=%d", jb.n, changePresent, maximal, jb.rep)
			var scripts []bitcoin.Script
			kinds := ""
			for k := 0; k < jb.n; k++ {
				kind := rng.Intn(4)
				kinds += fmt.Sprint(kind)
				scripts = append(scripts, c30RandomOutputScript(rng, kind))
			}
			desc += " kinds=" + kinds
			if r.Guard("estimate:", desc, func() { est, err = EstimateRedemptionFee(btc, scripts) }) {
				return
			}
			u := c30Fund(btc, rng, walletScript, int64(jb.n)*100_000+50_000)
			if e := b.AddPublicKeyHashInput(u); e != nil {
				r.Inconclusive(desc + ": " + e.Error())
				return
			}
			if changePresent {
				b.AddOutput(&bitcoin.TransactionOutput{Value: 40_000, PublicKeyScript: walletScript})
			}
			for _, s := range scripts {
				b.AddOutput(&bitcoin.TransactionOutput{Value: 90_000, PublicKeyScript: s})
			}
		case "movingfunds":
			maximal = jb.variant == 0
			desc = fmt.Sprintf("movingfunds targets=%d maximal=%v rep=%d", jb.n, maximal, jb.rep)
			if r.Guard("estimate:", desc, func() { est, err = EstimateMovingFundsFee(btc, jb.n, 1<<40) }) {
				return
			}
			u := c30Fund(btc, rng, walletScript, int64(jb.n)*100_000+50_000)
			if e := b.AddPublicKeyHashInput(u); e != nil {
				r.Inconclusive(desc + ": " + e.Error())
				return
			}
			for k := 0; k < jb.n; k++ {
				var h [20]byte
				rng.Read(h[:])
				b.AddOutput(&bitcoin.TransactionOutput{Value: 100_000, PublicKeyScript: c30P2WPKH(h)})
			}
		case "movedsweep":
			hasMain := jb.variant&1 == 0
			maximal = jb.variant&2 == 0
			desc = fmt.Sprintf("movedsweep main=%v maximal=%v rep=%d", hasMain, maximal, jb.rep)
			if r.Guard("estimate:", desc, func() { est, err = EstimateMovedFundsSweepFee(btc, hasMain, 1<<40) }) {
				return
			}
			u := c30Fund(btc, rng, walletScript, 700_000)
			if e := b.AddPublicKeyHashInput(u); e != nil {
				r.Inconclusive(desc + ": " + e.Error())
				return
			}
			if hasMain {
				m := c30Fund(btc, rng, walletScript, 900_000)
				if e := b.AddPublicKeyHashInput(m); e != nil {
					r.Inconclusive(desc + ": " + e.Error())
					return
				}
			}
			b.AddOutput(&bitcoin.TransactionOutput{Value: 1_000_000, PublicKeyScript: walletScript})
		}
		if err != nil {
			r.Case(desc, true)
			r.Violation("estimate:"+jb.kind+":error", "estimator failed: "+err.Error(), desc, nil)
			return
		}
		var realV int64
		var ferr error
		if r.Guard("real:", desc, func() { realV, _, ferr = c30Finish(b, wallet, rng, maximal) }) {
			return
		}
		if ferr != nil {
			r.Inconclusive("real transaction could not be built for " + desc + ": " + ferr.Error())
			return
		}
		r.Case(desc, scriptHashInputs > 0 || maximal)
		r.Count("tx_"+jb.kind, 1)
		if !assertIt {
			// legacy P2SH deposits: documented by the estimator as possibly underestimated
			if est < realV {
				r.Count("p2sh_deposit_sweeps_underestimated", 1)
				r.Count("p2sh_deposit_sweeps_missing_vbytes", realV-est)
			}
			if jb.n == 3 && jb.variant == 6 && jb.rep == 0 {
				r.Sample(map[string]interface{}{"case": desc, "estimate_vsize": est, "real_vsize": realV, "note": "P2SH deposits: outside the shape the estimator states; not asserted"})
			}
			return
		}
		if est < realV {
			r.Violation("undershoot:"+jb.kind, fmt.Sprintf("estimator assumed %d vbytes, the real transaction has %d", est, realV), desc, nil)
		} else {
			r.Count("overshoot_vbytes_"+jb.kind, est-realV)
		}
		if jb.rep == 0 && jb.variant == 0 && (jb.n == 1 || jb.n == 20) && jb.kind != "movingfunds" {
			r.Sample(map[string]interface{}{"case": desc, "estimate_vsize": est, "real_vsize": realV})
		}
	})
}
