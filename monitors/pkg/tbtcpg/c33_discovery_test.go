//go:build verif

package tbtcpg

import (
	"bytes"
	"fmt"
	"math/big"
	"math/rand"
	"sort"
	"strings"
	"testing"
	"time"

	golog "github.com/ipfs/go-log/v2"

	"github.com/keep-network/keep-core/internal/testutils"
	"github.com/keep-network/keep-core/internal/verifkit"
	"github.com/keep-network/keep-core/pkg/bitcoin"
	"github.com/keep-network/keep-core/pkg/chain"
	"github.com/keep-network/keep-core/pkg/tbtc"
)

// ---------------------------------------------------------------------------
// Chain stub: the package's LocalChain, with the event queries answered the
// way a real chain answers them (a full history filtered by block range and
// wallet) instead of LocalChain's exact-filter lookup table, and with the
// two "unsupported" size getters filled in.
// ---------------------------------------------------------------------------

type c33Chain struct {
	*LocalChain

	depositEvents    []*tbtc.DepositRevealedEvent
	redemptionEvents []*tbtc.RedemptionRequestedEvent
	sweepMax         uint16
	redemptionMax    uint16
	failAction       map[tbtc.WalletActionType]bool
	// observation: how many redemption events the block-range filter hid
	hiddenByRange int
}

func c33WalletIn(list [][20]byte, w [20]byte) bool {
	if len(list) == 0 {
		return true
	}
	for _, x := range list {
		if x == w {
			return true
		}
	}
	return false
}

func (c *c33Chain) PastDepositRevealedEvents(
	filter *tbtc.DepositRevealedEventFilter,
) ([]*tbtc.DepositRevealedEvent, error) {
	out := make([]*tbtc.DepositRevealedEvent, 0, len(c.depositEvents))
	for _, e := range c.depositEvents {
		if filter != nil {
			if e.BlockNumber < filter.StartBlock {
				continue
			}
			if filter.EndBlock != nil && e.BlockNumber > *filter.EndBlock {
				continue
			}
			if !c33WalletIn(filter.WalletPublicKeyHash, e.WalletPublicKeyHash) {
				continue
			}
		}
		cp := *e
		out = append(out, &cp)
	}
	return out, nil
}

func (c *c33Chain) PastRedemptionRequestedEvents(
	filter *tbtc.RedemptionRequestedEventFilter,
) ([]*tbtc.RedemptionRequestedEvent, error) {
	out := make([]*tbtc.RedemptionRequestedEvent, 0, len(c.redemptionEvents))
	for _, e := range c.redemptionEvents {
		if filter != nil {
			if !c33WalletIn(filter.WalletPublicKeyHash, e.WalletPublicKeyHash) {
				continue
			}
			if e.BlockNumber < filter.StartBlock {
				c.hiddenByRange++
				continue
			}
			if filter.EndBlock != nil && e.BlockNumber > *filter.EndBlock {
				continue
			}
		}
		cp := *e
		out = append(out, &cp)
	}
	return out, nil
}

func (c *c33Chain) GetDepositSweepMaxSize() (uint16, error) {
	if c.failAction[tbtc.ActionDepositSweep] {
		return 0, fmt.Errorf("c33: injected failure")
	}
	return c.sweepMax, nil
}

func (c *c33Chain) GetRedemptionMaxSize() (uint16, error) {
	if c.failAction[tbtc.ActionRedemption] {
		return 0, fmt.Errorf("c33: injected failure")
	}
	return c.redemptionMax, nil
}

func (c *c33Chain) ValidateDepositSweepProposal(
	walletPublicKeyHash [20]byte,
	proposal *tbtc.DepositSweepProposal,
	depositsExtraInfo []struct {
		*tbtc.Deposit
		FundingTx *bitcoin.Transaction
	},
) error {
	return nil
}

func (c *c33Chain) ValidateRedemptionProposal(
	walletPublicKeyHash [20]byte,
	proposal *tbtc.RedemptionProposal,
) error {
	return nil
}

func (c *c33Chain) ValidateHeartbeatProposal(
	walletPublicKeyHash [20]byte,
	proposal *tbtc.HeartbeatProposal,
) error {
	if c.failAction[tbtc.ActionHeartbeat] {
		return fmt.Errorf("c33: injected failure")
	}
	return nil
}

// ---------------------------------------------------------------------------
// Generated histories
// ---------------------------------------------------------------------------

const c33Margin = 600 // seconds: every age is at least this far from every threshold

type c33Dep struct {
	Tx     string `json:"tx"`
	Out    uint32 `json:"out"`
	Block  uint64 `json:"blk"`
	Wallet int    `json:"w"` // 0 = the wallet under test, 1 = another wallet
	Age    int64  `json:"age"`
	Swept  bool   `json:"swept,omitempty"`
	Conf   int    `json:"conf"` // -1: funding transaction unknown to the bitcoin chain
	Amount uint64 `json:"amt"`

	hash bitcoin.Hash
}

type c33Red struct {
	Script  string   `json:"script"`
	Wallet  int      `json:"w"`
	Blocks  []uint64 `json:"blks"` // one event per entry (duplicates per key)
	Pending bool     `json:"pending"`
	Age     int64    `json:"age"`
	Delay   int64    `json:"delay"`
	Amount  uint64   `json:"amt"`
	Class   string   `json:"class"`

	script bitcoin.Script
}

type c33History struct {
	DepositMinAge uint32    `json:"dep_min_age"`
	Deps          []c33Dep  `json:"deps"`
	DepOrder      []int     `json:"dep_order"` // order in which the chain returns the events
	Timeout       uint32    `json:"red_timeout"`
	MinAge        uint32    `json:"red_min_age"`
	AvgBlock      int       `json:"avg_block_s"`
	CurBlock      uint64    `json:"cur_block"`
	Reds          []c33Red  `json:"reds"`
	RedOrder      [][2]int  `json:"red_order"` // (key, event) pairs in chain order
	Limits        [2]uint16 `json:"limits"`    // deposit sweep max, redemption max
}

var c33Wallets = [2][20]byte{
	{0x11, 0x22, 0x33, 0x44, 0x55, 0x66, 0x77, 0x88, 0x99, 0xaa, 1, 2, 3, 4, 5, 6, 7, 8, 9, 10},
	{0xde, 0xad, 0xbe, 0xef, 0x55, 0x66, 0x77, 0x88, 0x99, 0xaa, 1, 2, 3, 4, 5, 6, 7, 8, 9, 11},
}

func c33PickAge(rng *rand.Rand, lo, hi int64) (int64, bool) {
	// ages on a 300 s grid so that ties in RequestedAt are frequent
	if hi < lo {
		return 0, false
	}
	steps := (hi - lo) / 300
	return lo + 300*rng.Int63n(steps+1), true
}

func c33Limit(rng *rand.Rand, n int) uint16 {
	switch rng.Intn(5) {
	case 0:
		return 0
	case 1:
		return 1
	case 2:
		return 5
	case 3:
		return uint16(1 + rng.Intn(3))
	default:
		return uint16(1 + rng.Intn(n+2))
	}
}

func c33Generate(rng *rand.Rand) *c33History {
	h := &c33History{}
	// ---------------- deposits
	h.DepositMinAge = []uint32{0, 3600, 7200, 86400}[rng.Intn(4)]
	nd := rng.Intn(31)
	baseBlock := uint64(1000 + rng.Intn(1000000))
	spread := []int{1, 3, 12, 5000}[rng.Intn(4)]
	var lastHash bitcoin.Hash
	seen := map[string]bool{}
	for i := 0; i < nd; i++ {
		var d c33Dep
		if i > 0 && rng.Intn(5) == 0 {
			d.hash = lastHash // another output of the same funding transaction
		} else {
			rng.Read(d.hash[:])
		}
		lastHash = d.hash
		d.Out = uint32(rng.Intn(4))
		for seen[fmt.Sprintf("%x/%d", d.hash[:4], d.Out)] {
			d.Out++
		}
		seen[fmt.Sprintf("%x/%d", d.hash[:4], d.Out)] = true
		d.Tx = fmt.Sprintf("%x", d.hash[:4])
		d.Block = baseBlock + uint64(rng.Intn(spread))
		if rng.Intn(5) == 0 {
			d.Wallet = 1
		}
		minAge := int64(h.DepositMinAge)
		young := rng.Intn(4) == 0
		if young {
			if a, ok := c33PickAge(rng, 0, minAge-c33Margin); ok {
				d.Age = a
			} else {
				young = false
			}
		}
		if !young {
			d.Age, _ = c33PickAge(rng, minAge+c33Margin, minAge+c33Margin+200000)
		}
		d.Swept = rng.Intn(5) == 0
		d.Conf = []int{-1, 0, 1, 5, 6, 6, 7, 7, 100, 100}[rng.Intn(10)]
		d.Amount = uint64(100000 + rng.Intn(100000000))
		h.Deps = append(h.Deps, d)
	}
	// outputs of one transaction share the confirmation count
	confByTx := map[bitcoin.Hash]int{}
	for i := range h.Deps {
		if c, ok := confByTx[h.Deps[i].hash]; ok {
			h.Deps[i].Conf = c
		} else {
			confByTx[h.Deps[i].hash] = h.Deps[i].Conf
		}
	}
	h.DepOrder = rng.Perm(nd)
	if rng.Intn(2) == 0 {
		// the documented chain behaviour: ascending block order
		sort.SliceStable(h.DepOrder, func(a, b int) bool {
			return h.Deps[h.DepOrder[a]].Block < h.Deps[h.DepOrder[b]].Block
		})
	}
	// ---------------- redemptions
	h.Timeout = []uint32{172800, 432000}[rng.Intn(2)]
	h.MinAge = []uint32{600, 3600, 7200}[rng.Intn(3)]
	h.AvgBlock = []int{10, 12, 15}[rng.Intn(3)]
	switch rng.Intn(4) {
	case 0:
		h.CurBlock = uint64(rng.Intn(2000))
	default:
		h.CurBlock = uint64(1000000 + rng.Intn(20000000))
	}
	nk := rng.Intn(13)
	usedKey := map[string]bool{}
	for i := 0; i < nk; i++ {
		var rd c33Red
		pkh := make([]byte, 20)
		rng.Read(pkh)
		if i > 0 && rng.Intn(4) == 0 {
			// the same script used against the other wallet: a different key
			prev := h.Reds[rng.Intn(len(h.Reds))]
			rd.script = prev.script
			rd.Wallet = 1 - prev.Wallet
		} else {
			rd.script = append([]byte{0x00, 0x14}, pkh...)
			if rng.Intn(5) == 0 {
				rd.Wallet = 1
			}
		}
		rd.Script = fmt.Sprintf("%x", rd.script[2:6])
		k := fmt.Sprintf("%d/%x", rd.Wallet, rd.script)
		if usedKey[k] {
			continue
		}
		usedKey[k] = true
		rd.Delay = []int64{0, 0, 1800, 21600, 86400}[rng.Intn(5)]
		minAge := int64(h.MinAge)
		thr := minAge
		if rd.Delay > thr {
			thr = rd.Delay
		}
		timeout := int64(h.Timeout)
		rd.Pending = rng.Intn(5) != 0
		classes := []string{"ok", "ok", "ok", "young", "between", "timedout"}
		for rd.Class == "" {
			var ok bool
			switch c := classes[rng.Intn(len(classes))]; c {
			case "ok":
				rd.Age, ok = c33PickAge(rng, thr+c33Margin, timeout-c33Margin)
				// keep eligible ages in a narrow band half of the time: more ties
				if ok && rng.Intn(2) == 0 {
					rd.Age, _ = c33PickAge(rng, thr+c33Margin, thr+c33Margin+900)
				}
				if ok {
					rd.Class = c
				}
			case "young":
				rd.Age, ok = c33PickAge(rng, 0, thr-c33Margin)
				if ok {
					rd.Class = c
				}
			case "between":
				// older than the minimum age but younger than the request's delay
				rd.Age, ok = c33PickAge(rng, minAge+c33Margin, rd.Delay-c33Margin)
				if ok {
					rd.Class = c
				}
			case "timedout":
				rd.Age, ok = c33PickAge(rng, timeout+c33Margin, timeout+c33Margin+100000)
				if ok {
					rd.Class = c
				}
			}
		}
		rd.Amount = uint64(100000 + rng.Intn(100000000))
		// the latest event sits where a chain with this block time would put it
		ago := uint64(rd.Age / int64(h.AvgBlock))
		latest := uint64(0)
		if h.CurBlock > ago {
			latest = h.CurBlock - ago
		}
		jit := uint64(rng.Intn(200))
		if rng.Intn(2) == 0 && latest+jit <= h.CurBlock {
			latest += jit
		} else if latest >= jit {
			latest -= jit
		}
		rd.Blocks = []uint64{latest}
		for e := rng.Intn(3); e > 0; e-- {
			back := uint64(1 + rng.Intn(60000))
			if rng.Intn(3) == 0 {
				back = 0 // same block as the latest event
			}
			b := uint64(0)
			if latest > back {
				b = latest - back
			}
			rd.Blocks = append(rd.Blocks, b)
		}
		h.Reds = append(h.Reds, rd)
	}
	for ki, rd := range h.Reds {
		for ei := range rd.Blocks {
			h.RedOrder = append(h.RedOrder, [2]int{ki, ei})
		}
	}
	rng.Shuffle(len(h.RedOrder), func(i, j int) { h.RedOrder[i], h.RedOrder[j] = h.RedOrder[j], h.RedOrder[i] })
	if rng.Intn(2) == 0 {
		sort.SliceStable(h.RedOrder, func(a, b int) bool {
			return h.Reds[h.RedOrder[a][0]].Blocks[h.RedOrder[a][1]] < h.Reds[h.RedOrder[b][0]].Blocks[h.RedOrder[b][1]]
		})
	}
	h.Limits = [2]uint16{c33Limit(rng, nd/2), c33Limit(rng, nk/2)}
	return h
}

// c33Build materialises a history on a fresh chain stub; all absolute times
// are now-age, with `now` taken here (the case runs within microseconds).
func c33Build(h *c33History) (*c33Chain, *LocalBitcoinChain, time.Time) {
	now := time.Now().Truncate(time.Second)
	lc := NewLocalChain()
	btc := NewLocalBitcoinChain()
	ch := &c33Chain{LocalChain: lc, sweepMax: h.Limits[0], redemptionMax: h.Limits[1], failAction: map[tbtc.WalletActionType]bool{}}
	lc.SetDepositMinAge(h.DepositMinAge)
	lc.SetDepositParameters(0, 0, 1<<40, 0)
	btc.SetEstimateSatPerVByteFee(1, 10)
	for _, i := range h.DepOrder {
		d := h.Deps[i]
		ch.depositEvents = append(ch.depositEvents, &tbtc.DepositRevealedEvent{
			FundingTxHash:       d.hash,
			FundingOutputIndex:  d.Out,
			Depositor:           chain.Address("0xdepositor"),
			Amount:              d.Amount,
			WalletPublicKeyHash: c33Wallets[d.Wallet],
			BlockNumber:         d.Block,
		})
	}
	for _, d := range h.Deps {
		swept := time.Unix(0, 0)
		if d.Swept {
			swept = now.Add(-time.Duration(d.Age/2+1) * time.Second)
		}
		lc.SetDepositRequest(d.hash, d.Out, &tbtc.DepositChainRequest{
			Depositor:  chain.Address("0xdepositor"),
			Amount:     d.Amount,
			RevealedAt: now.Add(-time.Duration(d.Age) * time.Second),
			SweptAt:    swept,
		})
		if d.Conf >= 0 {
			btc.SetTransactionConfirmations(d.hash, uint(d.Conf))
		}
		btc.SetTransaction(d.hash, &bitcoin.Transaction{})
	}
	lc.SetRedemptionRequestMinAge(h.MinAge)
	lc.SetRedemptionParameters(0, 0, 0, 0, h.Timeout, big.NewInt(0), 0)
	lc.SetAverageBlockTime(time.Duration(h.AvgBlock) * time.Second)
	bc := NewMockBlockCounter()
	bc.SetCurrentBlock(h.CurBlock)
	lc.SetBlockCounter(bc)
	for _, ke := range h.RedOrder {
		rd := h.Reds[ke[0]]
		ch.redemptionEvents = append(ch.redemptionEvents, &tbtc.RedemptionRequestedEvent{
			WalletPublicKeyHash:  c33Wallets[rd.Wallet],
			RedeemerOutputScript: append(bitcoin.Script(nil), rd.script...),
			Redeemer:             chain.Address("0xredeemer"),
			RequestedAmount:      rd.Amount + uint64(ke[1]), // stale events carry stale data
			BlockNumber:          rd.Blocks[ke[1]],
		})
	}
	for _, rd := range h.Reds {
		if rd.Pending {
			lc.SetPendingRedemptionRequest(c33Wallets[rd.Wallet], &tbtc.RedemptionRequest{
				Redeemer:             chain.Address("0xredeemer"),
				RedeemerOutputScript: rd.script,
				RequestedAmount:      rd.Amount,
				RequestedAt:          now.Add(-time.Duration(rd.Age) * time.Second),
			})
		}
		lc.SetRedemptionDelay(c33Wallets[rd.Wallet], rd.script, time.Duration(rd.Delay)*time.Second)
	}
	lc.SetWallet(c33Wallets[0], &tbtc.WalletChainData{State: tbtc.StateLive})
	return ch, btc, now
}

// ---------------------------------------------------------------------------
// Reference filters (the oracle)
// ---------------------------------------------------------------------------

// c33DepWhy returns "" when the deposit is eligible, else the reason.
func c33DepWhy(h *c33History, d *c33Dep, anyWallet, skipSwept, skipUnconfirmed bool) string {
	switch {
	case !anyWallet && d.Wallet != 0:
		return "other-wallet"
	case d.Age <= int64(h.DepositMinAge):
		return "too-young"
	case skipSwept && d.Swept:
		return "swept"
	case skipUnconfirmed && d.Conf < tbtc.DepositSweepRequiredFundingTxConfirmations:
		return "unconfirmed"
	}
	return ""
}

func c33EligibleDeps(h *c33History, anyWallet, skipSwept, skipUnconfirmed bool) (el []*c33Dep, ineligible int) {
	for i := range h.Deps {
		if c33DepWhy(h, &h.Deps[i], anyWallet, skipSwept, skipUnconfirmed) == "" {
			el = append(el, &h.Deps[i])
		} else {
			ineligible++
		}
	}
	sort.SliceStable(el, func(a, b int) bool { return el[a].Block < el[b].Block })
	return
}

type c33Picked struct {
	Hash  bitcoin.Hash
	Out   uint32
	Block uint64
}

// c33CheckDeposits decides the deposit half of the property for one result
// list: only eligible deposits, no duplicates, non-decreasing reveal block,
// exactly min(max, #eligible) of them, and their blocks are the lowest
// eligible blocks (any choice among deposits of the boundary block).
func c33CheckDeposits(r *verifkit.Run, fp, desc string, h *c33History, picked []c33Picked, max int, anyWallet, skipSwept, skipUnconfirmed bool) {
	el, _ := c33EligibleDeps(h, anyWallet, skipSwept, skipUnconfirmed)
	byKey := map[string]*c33Dep{}
	for i := range h.Deps {
		byKey[fmt.Sprintf("%x/%d", h.Deps[i].hash, h.Deps[i].Out)] = &h.Deps[i]
	}
	want := len(el)
	if max > 0 && max < want {
		want = max
	}
	used := map[string]bool{}
	for i, p := range picked {
		k := fmt.Sprintf("%x/%d", p.Hash, p.Out)
		d := byKey[k]
		if d == nil {
			r.Violation(fp+":unknown-deposit", "returned a deposit that was never revealed", desc, k)
			return
		}
		if used[k] {
			r.Violation(fp+":duplicate", "the same deposit is returned twice", desc, k)
			return
		}
		used[k] = true
		if why := c33DepWhy(h, d, anyWallet, skipSwept, skipUnconfirmed); why != "" {
			r.Violation(fp+":ineligible:"+why, fmt.Sprintf("returned deposit %s is not eligible (%s)", k[:8], why), desc, d)
			return
		}
		if p.Block != d.Block {
			r.Violation(fp+":reveal-block", fmt.Sprintf("deposit %s reported with reveal block %d, revealed at %d", k[:8], p.Block, d.Block), desc, nil)
			return
		}
		if i > 0 && picked[i-1].Block > p.Block {
			r.Violation(fp+":order", fmt.Sprintf("position %d has reveal block %d after block %d", i, p.Block, picked[i-1].Block), desc, nil)
			return
		}
	}
	if len(picked) != want {
		r.Violation(fp+":count", fmt.Sprintf("returned %d deposits, expected %d (eligible %d, max %d)", len(picked), want, len(el), max), desc, nil)
		return
	}
	for i := range picked {
		if picked[i].Block != el[i].Block {
			r.Violation(fp+":not-oldest", fmt.Sprintf("position %d has reveal block %d but the %d-th oldest eligible deposit was revealed at block %d", i, picked[i].Block, i+1, el[i].Block), desc, nil)
			return
		}
	}
}

func c33RedWhy(h *c33History, rd *c33Red, anyWallet bool) string {
	thr := int64(h.MinAge)
	if rd.Delay > thr {
		thr = rd.Delay
	}
	switch {
	case !anyWallet && rd.Wallet != 0:
		return "other-wallet"
	case !rd.Pending:
		return "not-pending"
	case rd.Age > int64(h.Timeout):
		return "timed-out"
	case rd.Age < thr:
		if rd.Age >= int64(h.MinAge) {
			return "younger-than-delay"
		}
		return "too-young"
	}
	return ""
}

func c33EligibleReds(h *c33History, anyWallet bool) (el []*c33Red, ineligible int) {
	for i := range h.Reds {
		if c33RedWhy(h, &h.Reds[i], anyWallet) == "" {
			el = append(el, &h.Reds[i])
		} else {
			ineligible++
		}
	}
	sort.SliceStable(el, func(a, b int) bool { return el[a].Age > el[b].Age }) // oldest first
	return
}

type c33PickedRed struct {
	Wallet [20]byte
	Script bitcoin.Script
}

// c33CheckRedemptions: one entry per key, only eligible keys, oldest first
// (ties in any order), exactly min(limit, #eligible), ages equal to the
// oldest eligible ages.
func c33CheckRedemptions(r *verifkit.Run, fp, desc string, h *c33History, picked []c33PickedRed, limit int, anyWallet bool) {
	el, _ := c33EligibleReds(h, anyWallet)
	want := len(el)
	if limit > 0 && limit < want {
		want = limit
	}
	find := func(p c33PickedRed) *c33Red {
		for i := range h.Reds {
			if c33Wallets[h.Reds[i].Wallet] == p.Wallet && bytes.Equal(h.Reds[i].script, p.Script) {
				return &h.Reds[i]
			}
		}
		return nil
	}
	used := map[*c33Red]bool{}
	var ages []int64
	for i, p := range picked {
		rd := find(p)
		if rd == nil {
			r.Violation(fp+":unknown-request", "returned a request that does not exist", desc, fmt.Sprintf("%x", p.Script))
			return
		}
		if used[rd] {
			r.Violation(fp+":duplicate-key", "the same redemption key is returned twice", desc, rd)
			return
		}
		used[rd] = true
		if why := c33RedWhy(h, rd, anyWallet); why != "" {
			r.Violation(fp+":ineligible:"+why, fmt.Sprintf("returned request %s is not eligible (%s)", rd.Script, why), desc, rd)
			return
		}
		if i > 0 && ages[i-1] < rd.Age {
			r.Violation(fp+":order", fmt.Sprintf("position %d is older (age %d s) than position %d (age %d s)", i, rd.Age, i-1, ages[i-1]), desc, nil)
			return
		}
		ages = append(ages, rd.Age)
	}
	if len(picked) != want {
		r.Violation(fp+":count", fmt.Sprintf("returned %d requests, expected %d (eligible %d, limit %d)", len(picked), want, len(el), limit), desc, nil)
		return
	}
	for i := range ages {
		if ages[i] != el[i].Age {
			r.Violation(fp+":not-oldest", fmt.Sprintf("position %d has age %d s but the %d-th oldest eligible request has age %d s", i, ages[i], i+1, el[i].Age), desc, nil)
			return
		}
	}
}

// c33Stale reports whether the case ran so slowly that the generated margin
// could have been consumed (then nothing is decided).
func c33Stale(r *verifkit.Run, built time.Time) bool {
	if time.Since(built) > (c33Margin/2)*time.Second {
		r.Inconclusive("a discovery case took more than 5 minutes of wall clock; classification margin not guaranteed")
		return true
	}
	return false
}

func c33Quiet() {
	_ = golog.SetLogLevel("*", "fatal")
	golog.SetAllLoggers(golog.LevelFatal)
}

// ---------------------------------------------------------------------------
// Deposits
// ---------------------------------------------------------------------------

func TestVerif_C33_Deposits(t *testing.T) {
	r := verifkit.Start(t, "C33", "deposits")
	defer r.Finish()
	c33Quiet()
	r.SetRule("PRNG histories of <=30 reveal events (two wallets, shared funding transactions, tied and shuffled blocks, ages >=10 min away from the minimum age, swept/unswept, confirmations -1..100), max in {0,1,5,random}; findDeposits with every flag combination, all-wallet query and FindDepositsToSweep. non-trivial = the history has >=1 ineligible deposit and 0 < max < #eligible")
	r.Assume("ages are generated >= 600 s away from every threshold; a case that takes > 300 s of wall clock is discarded as inconclusive")
	n := r.N(2000, 100000)
	log := &testutils.MockLogger{}
	verifkit.Parallel(n, 0, func(i int) {
		h := c33Generate(r.SubRand("history", i))
		ch, btc, built := c33Build(h)
		hd := verifkit.JSON(struct {
			MinAge uint32   `json:"min_age"`
			Deps   []c33Dep `json:"deps"`
			Order  []int    `json:"order"`
		}{h.DepositMinAge, h.Deps, h.DepOrder})
		max := int(h.Limits[0])
		type variant struct {
			name            string
			anyWallet       bool
			skipS, skipU    bool
			throughSweepAPI bool
		}
		variants := []variant{
			{"sweep-api", false, true, true, true},
			{"find(T,T)", false, true, true, false},
			{"find(T,F)", false, true, false, false},
			{"find(F,T)", false, false, true, false},
			{"find(F,F)", false, false, false, false},
			{"find-all-wallets(T,T)", true, true, true, false},
		}
		for _, v := range variants {
			desc := fmt.Sprintf("deposits %s max=%d %s", v.name, max, hd)
			var picked []c33Picked
			var full []*Deposit
			var err error
			if r.Guard("deposits:", desc, func() {
				if v.throughSweepAPI {
					var refs []*DepositReference
					refs, err = NewDepositSweepTask(ch, btc).FindDepositsToSweep(log, c33Wallets[0], uint16(max))
					for _, x := range refs {
						picked = append(picked, c33Picked{x.FundingTxHash, x.FundingOutputIndex, x.RevealBlock})
					}
					return
				}
				w := c33Wallets[0]
				if v.anyWallet {
					w = [20]byte{}
				}
				full, err = findDeposits(log, ch, btc, w, max, v.skipS, v.skipU)
				for _, x := range full {
					picked = append(picked, c33Picked{x.FundingTxHash, x.FundingOutputIndex, x.RevealBlock})
				}
			}) {
				continue
			}
			if c33Stale(r, built) {
				return
			}
			el, inel := c33EligibleDeps(h, v.anyWallet, v.skipS, v.skipU)
			r.Case(desc, inel > 0 && max > 0 && max < len(el))
			if err != nil {
				r.Violation("deposits:unexpected-error", err.Error(), desc, nil)
				continue
			}
			c33CheckDeposits(r, "deposits", desc, h, picked, max, v.anyWallet, v.skipS, v.skipU)
			// reported details of each deposit
			for _, x := range full {
				for k := range h.Deps {
					d := &h.Deps[k]
					if d.hash != x.FundingTxHash || d.Out != x.FundingOutputIndex {
						continue
					}
					conf := d.Conf
					if conf < 0 {
						conf = 0
					}
					if x.IsSwept != d.Swept || int(x.Confirmations) != conf || x.WalletPublicKeyHash != c33Wallets[d.Wallet] {
						r.Violation("deposits:details", fmt.Sprintf("deposit %s reported swept=%v confirmations=%d wallet=%x", d.Tx, x.IsSwept, x.Confirmations, x.WalletPublicKeyHash[:2]), desc, d)
					}
				}
			}
			if i%500 == 0 && v.name == "sweep-api" {
				var blocks []uint64
				for _, p := range picked {
					blocks = append(blocks, p.Block)
				}
				r.Sample(map[string]interface{}{"kind": "deposits", "events": len(h.Deps), "eligible": len(el), "max": max, "returned_reveal_blocks": blocks})
			}
		}
	})
}

// ---------------------------------------------------------------------------
// Redemptions
// ---------------------------------------------------------------------------

func TestVerif_C33_Redemptions(t *testing.T) {
	r := verifkit.Start(t, "C33", "redemptions")
	defer r.Finish()
	c33Quiet()
	r.SetRule("PRNG histories of <=12 redemption keys over two wallets with 1-3 events per key (duplicates, same-block duplicates, shuffled or ascending), pending or not, per-key delay in {0,30 min,6 h,24 h}, min age, timeout, ages on a 300 s grid (ties) >=10 min away from max(minAge,delay) and from the timeout, including ages between minAge and delay; event blocks consistent with the age and the average block time; limit in {0,1,5,random}; findPendingRedemptions for the wallet and for all wallets, and FindPendingRedemptions. non-trivial = >=1 ineligible key or duplicate event, and 0 < limit < #eligible")
	r.Assume("ages are generated >= 600 s away from every threshold; a case that takes > 300 s of wall clock is discarded as inconclusive")
	r.Assume("the latest event of a still-eligible request lies inside the block window timeout/averageBlockTime+1000 the code asks the chain for (block numbers are generated from the age and the average block time with +-200 blocks of jitter)")
	n := r.N(2000, 100000)
	log := &testutils.MockLogger{}
	verifkit.Parallel(n, 0, func(i int) {
		h := c33Generate(r.SubRand("history", i))
		ch, btc, built := c33Build(h)
		dups := false
		for _, rd := range h.Reds {
			if len(rd.Blocks) > 1 {
				dups = true
			}
		}
		hd := verifkit.JSON(struct {
			Timeout  uint32   `json:"timeout"`
			MinAge   uint32   `json:"min_age"`
			AvgBlock int      `json:"avg_block_s"`
			CurBlock uint64   `json:"cur_block"`
			Reds     []c33Red `json:"reds"`
			Order    [][2]int `json:"order"`
		}{h.Timeout, h.MinAge, h.AvgBlock, h.CurBlock, h.Reds, h.RedOrder})
		limit := int(h.Limits[1])
		for _, v := range []string{"api", "find", "find-all-wallets"} {
			desc := fmt.Sprintf("redemptions %s limit=%d %s", v, limit, hd)
			anyWallet := v == "find-all-wallets"
			var picked []c33PickedRed
			var full []*RedemptionRequest
			var err error
			if r.Guard("redemptions:", desc, func() {
				switch v {
				case "api":
					var scripts []bitcoin.Script
					scripts, err = NewRedemptionTask(ch, btc).FindPendingRedemptions(log, c33Wallets[0], uint16(limit))
					for _, s := range scripts {
						picked = append(picked, c33PickedRed{c33Wallets[0], s})
					}
				default:
					w := c33Wallets[0]
					if anyWallet {
						w = [20]byte{}
					}
					full, err = findPendingRedemptions(log, ch, w, h.CurBlock, uint16(limit), h.Timeout, h.MinAge)
					for _, x := range full {
						picked = append(picked, c33PickedRed{x.WalletPublicKeyHash, x.RedeemerOutputScript})
					}
				}
			}) {
				continue
			}
			if c33Stale(r, built) {
				return
			}
			el, inel := c33EligibleReds(h, anyWallet)
			r.Case(desc, (inel > 0 || dups) && limit > 0 && limit < len(el))
			if err != nil {
				r.Violation("redemptions:unexpected-error", err.Error(), desc, nil)
				continue
			}
			c33CheckRedemptions(r, "redemptions", desc, h, picked, limit, anyWallet)
			for _, x := range full {
				for k := range h.Reds {
					rd := &h.Reds[k]
					if c33Wallets[rd.Wallet] != x.WalletPublicKeyHash || !bytes.Equal(rd.script, x.RedeemerOutputScript) {
						continue
					}
					if x.RequestedAmount != rd.Amount || !x.RequestedAt.Equal(built.Add(-time.Duration(rd.Age)*time.Second)) {
						r.Violation("redemptions:details", fmt.Sprintf("request %s reported with amount %d / requested at %v; the pending request has %d / age %d s", rd.Script, x.RequestedAmount, x.RequestedAt, rd.Amount, rd.Age), desc, rd)
					}
				}
			}
			if i%500 == 0 && v == "find" {
				var ages []int64
				for _, x := range full {
					ages = append(ages, int64(built.Sub(x.RequestedAt)/time.Second))
				}
				r.Sample(map[string]interface{}{"kind": "redemptions", "keys": len(h.Reds), "events": len(h.RedOrder), "eligible": len(el), "limit": limit, "returned_ages_s": ages})
			}
		}
		r.Count("events_hidden_by_block_range", int64(ch.hiddenByRange))
	})
}

// ---------------------------------------------------------------------------
// Generate: checklist dispatch
// ---------------------------------------------------------------------------

type c33Task struct {
	action  tbtc.WalletActionType
	outcome int // 0 none, 1 proposal, 2 error
	prop    tbtc.CoordinationProposal
	runs    int
}

func (ct *c33Task) Run(*tbtc.CoordinationProposalRequest) (tbtc.CoordinationProposal, bool, error) {
	ct.runs++
	switch ct.outcome {
	case 1:
		return ct.prop, true, nil
	case 2:
		return nil, false, fmt.Errorf("c33 scripted task error")
	}
	return nil, false, nil
}

func (ct *c33Task) ActionType() tbtc.WalletActionType { return ct.action }

var c33Actions = []tbtc.WalletActionType{
	tbtc.ActionDepositSweep, tbtc.ActionRedemption, tbtc.ActionHeartbeat,
	tbtc.ActionMovingFunds, tbtc.ActionMovedFundsSweep,
}

// TestVerif_C33_GenerateDispatch drives ProposalGenerator.Generate with
// scripted tasks: the result must be that of the first checklist action
// whose task yields a proposal; an error of an earlier task is an error;
// unsupported actions are skipped; otherwise the no-op proposal.
func TestVerif_C33_GenerateDispatch(t *testing.T) {
	r := verifkit.Start(t, "C33", "generate-dispatch")
	defer r.Finish()
	c33Quiet()
	r.SetRule("PRNG task tables (subset and order of the five action types, scripted outcome none/proposal/error) and checklists of 0-7 actions with repeats, unsupported and unknown action types. non-trivial = the checklist reaches a second supported action, or contains an unsupported one before the deciding action")
	n := r.N(6000, 200000)
	verifkit.Parallel(n, 0, func(i int) {
		rng := r.SubRand("dispatch", i)
		perm := rng.Perm(len(c33Actions))
		var tasks []ProposalTask
		var scripted []*c33Task
		var td []string
		for _, p := range perm[:rng.Intn(len(perm)+1)] {
			ct := &c33Task{action: c33Actions[p], outcome: []int{0, 0, 1, 1, 2}[rng.Intn(5)]}
			ct.prop = &mockCoordinationProposal{ct.action}
			tasks = append(tasks, ct)
			scripted = append(scripted, ct)
			td = append(td, fmt.Sprintf("%s:%d", ct.action, ct.outcome))
		}
		var checklist []tbtc.WalletActionType
		for k := rng.Intn(8); k > 0; k-- {
			switch rng.Intn(8) {
			case 0:
				checklist = append(checklist, tbtc.ActionNoop)
			case 1:
				checklist = append(checklist, tbtc.WalletActionType(40+rng.Intn(3)))
			default:
				checklist = append(checklist, c33Actions[rng.Intn(len(c33Actions))])
			}
		}
		var cd []string
		for _, a := range checklist {
			cd = append(cd, fmt.Sprintf("%d", a))
		}
		desc := fmt.Sprintf("dispatch tasks=[%s] checklist=[%s]", strings.Join(td, " "), strings.Join(cd, " "))
		// reference
		wantKind, wantIdx := "noop", -1
		supportedSeen, unsupportedBefore := 0, false
	ref:
		for _, a := range checklist {
			idx := -1
			for k, ct := range scripted {
				if ct.action == a {
					idx = k
					break
				}
			}
			if idx < 0 {
				unsupportedBefore = true
				continue
			}
			supportedSeen++
			switch scripted[idx].outcome {
			case 1:
				wantKind, wantIdx = "proposal", idx
				break ref
			case 2:
				wantKind, wantIdx = "error", idx
				break ref
			}
		}
		var got tbtc.CoordinationProposal
		var err error
		if r.Guard("generate:", desc, func() {
			got, err = (&ProposalGenerator{tasks: tasks}).Generate(&tbtc.CoordinationProposalRequest{
				WalletPublicKeyHash: c33Wallets[0],
				ActionsChecklist:    checklist,
			})
		}) {
			return
		}
		r.Case(desc, supportedSeen >= 2 || (unsupportedBefore && supportedSeen >= 1))
		switch wantKind {
		case "error":
			if err == nil {
				r.Violation("generate:error-swallowed", fmt.Sprintf("task %s failed but Generate returned %T without error", scripted[wantIdx].action, got), desc, nil)
			}
		case "proposal":
			if err != nil {
				r.Violation("generate:unexpected-error", err.Error(), desc, nil)
			} else if got != scripted[wantIdx].prop {
				r.Violation("generate:wrong-proposal", fmt.Sprintf("expected the proposal of %s, got %T %+v", scripted[wantIdx].action, got, got), desc, nil)
			}
		default:
			if err != nil {
				r.Violation("generate:unexpected-error", err.Error(), desc, nil)
			} else if _, ok := got.(*tbtc.NoopProposal); !ok {
				r.Violation("generate:not-noop", fmt.Sprintf("no action yields a proposal but Generate returned %T", got), desc, nil)
			}
		}
		if i%2000 == 0 {
			r.Sample(map[string]interface{}{"kind": "dispatch", "tasks": td, "checklist": cd, "expected": wantKind})
		}
	})
}

// TestVerif_C33_GenerateReal runs the real generator (all five real tasks)
// over generated histories.
func TestVerif_C33_GenerateReal(t *testing.T) {
	r := verifkit.Start(t, "C33", "generate-real")
	defer r.Finish()
	c33Quiet()
	r.SetRule("the deposit/redemption histories of the discovery monitors on a Live wallet, NewProposalGenerator with its five real tasks, PRNG checklists of 1-6 actions (repeats, no-op and unknown types), optional injected chain failure for one action type. non-trivial = the deciding action is preceded by >=1 action that yielded nothing, and the proposal (if deposit sweep/redemption) was cut by the limit or filtered >=1 ineligible item")
	r.Assume("moving funds and moved funds sweep are exercised only in their 'nothing to do' branch (Live wallet without pending sweep requests) or with the wallet record missing (error)")
	n := r.N(1500, 60000)
	verifkit.Parallel(n, 0, func(i int) {
		rng := r.SubRand("real", i)
		h := c33Generate(r.SubRand("history", i))
		// the generator's own tasks always use the chain's limits; make them small
		ch, btc, built := c33Build(h)
		var checklist []tbtc.WalletActionType
		for k := 1 + rng.Intn(6); k > 0; k-- {
			switch rng.Intn(9) {
			case 0:
				checklist = append(checklist, tbtc.ActionNoop)
			case 1:
				checklist = append(checklist, tbtc.WalletActionType(40))
			case 2:
				checklist = append(checklist, tbtc.ActionHeartbeat)
			case 3:
				checklist = append(checklist, []tbtc.WalletActionType{tbtc.ActionMovingFunds, tbtc.ActionMovedFundsSweep}[rng.Intn(2)])
			case 4, 5, 6:
				checklist = append(checklist, tbtc.ActionRedemption)
			default:
				checklist = append(checklist, tbtc.ActionDepositSweep)
			}
		}
		walletMissing := false
		var failed []string
		switch rng.Intn(8) {
		case 0:
			a := []tbtc.WalletActionType{tbtc.ActionDepositSweep, tbtc.ActionRedemption, tbtc.ActionHeartbeat}[rng.Intn(3)]
			ch.failAction[a] = true
			failed = append(failed, a.String())
		case 1:
			walletMissing = true
			ch.LocalChain.walletChainData = map[[20]byte]*tbtc.WalletChainData{}
			failed = append(failed, "wallet-record-missing")
		}
		var cd []string
		for _, a := range checklist {
			cd = append(cd, fmt.Sprintf("%d", a))
		}
		desc := fmt.Sprintf("generate-real checklist=[%s] fail=%v limits=%v history=%s", strings.Join(cd, " "), failed, h.Limits, verifkit.JSON(h))
		elD, inelD := c33EligibleDeps(h, false, true, true)
		elR, inelR := c33EligibleReds(h, false)
		// reference walk
		want := "noop"
		skipped := 0
	ref:
		for _, a := range checklist {
			switch a {
			case tbtc.ActionDepositSweep:
				if ch.failAction[a] {
					want = "error"
					break ref
				}
				if len(elD) > 0 {
					want = "deposit-sweep"
					break ref
				}
				skipped++
			case tbtc.ActionRedemption:
				if ch.failAction[a] {
					want = "error"
					break ref
				}
				if len(elR) > 0 {
					want = "redemption"
					break ref
				}
				skipped++
			case tbtc.ActionHeartbeat:
				if ch.failAction[a] {
					want = "error"
				} else {
					want = "heartbeat"
				}
				break ref
			case tbtc.ActionMovingFunds, tbtc.ActionMovedFundsSweep:
				if walletMissing {
					want = "error"
					break ref
				}
				skipped++
			}
		}
		var got tbtc.CoordinationProposal
		var err error
		if r.Guard("generate-real:", desc, func() {
			got, err = NewProposalGenerator(ch, btc).Generate(&tbtc.CoordinationProposalRequest{
				WalletPublicKeyHash: c33Wallets[0],
				ActionsChecklist:    checklist,
			})
		}) {
			return
		}
		if c33Stale(r, built) {
			return
		}
		nontrivial := skipped > 0
		switch want {
		case "deposit-sweep":
			nontrivial = nontrivial && (inelD > 0 || (h.Limits[0] > 0 && int(h.Limits[0]) < len(elD)))
		case "redemption":
			nontrivial = nontrivial && (inelR > 0 || (h.Limits[1] > 0 && int(h.Limits[1]) < len(elR)))
		}
		r.Case(desc, nontrivial)
		if want == "error" {
			if err == nil {
				r.Violation("generate-real:error-swallowed", fmt.Sprintf("a task reached before any proposal fails, but Generate returned %T", got), desc, nil)
			}
			return
		}
		if err != nil {
			r.Violation("generate-real:unexpected-error", err.Error(), desc, want)
			return
		}
		switch want {
		case "noop":
			if _, ok := got.(*tbtc.NoopProposal); !ok {
				r.Violation("generate-real:not-noop", fmt.Sprintf("no checklist action has work, got %T", got), desc, nil)
			}
		case "heartbeat":
			if _, ok := got.(*tbtc.HeartbeatProposal); !ok {
				r.Violation("generate-real:wrong-action", fmt.Sprintf("expected a heartbeat proposal, got %T", got), desc, nil)
			}
		case "deposit-sweep":
			p, ok := got.(*tbtc.DepositSweepProposal)
			if !ok {
				r.Violation("generate-real:wrong-action", fmt.Sprintf("expected a deposit sweep proposal, got %T", got), desc, nil)
				return
			}
			if len(p.DepositsKeys) != len(p.DepositsRevealBlocks) {
				r.Violation("generate-real:sweep-shape", "keys and reveal blocks differ in length", desc, nil)
				return
			}
			var picked []c33Picked
			for k, dk := range p.DepositsKeys {
				picked = append(picked, c33Picked{dk.FundingTxHash, dk.FundingOutputIndex, p.DepositsRevealBlocks[k].Uint64()})
			}
			c33CheckDeposits(r, "generate-real:sweep", desc, h, picked, int(h.Limits[0]), false, true, true)
		case "redemption":
			p, ok := got.(*tbtc.RedemptionProposal)
			if !ok {
				r.Violation("generate-real:wrong-action", fmt.Sprintf("expected a redemption proposal, got %T", got), desc, nil)
				return
			}
			var picked []c33PickedRed
			for _, s := range p.RedeemersOutputScripts {
				picked = append(picked, c33PickedRed{c33Wallets[0], s})
			}
			c33CheckRedemptions(r, "generate-real:redemption", desc, h, picked, int(h.Limits[1]), false)
		}
		if i%400 == 0 {
			r.Sample(map[string]interface{}{"kind": "generate-real", "checklist": cd, "expected": want, "got": fmt.Sprintf("%T", got), "eligible_deposits": len(elD), "eligible_redemptions": len(elR), "limits": h.Limits})
		}
	})
}
