//go:build verif

package spv

import (
	"fmt"
	"math/big"
	"testing"

	"github.com/keep-network/keep-core/internal/verifkit"
	"github.com/keep-network/keep-core/pkg/bitcoin"
	"github.com/keep-network/keep-core/pkg/maintainer/btcdiff"
)

// ---- minimal chain stubs (only the four queries getProofInfo makes) --------
// The package's own localChain helper is deliberately not used: its
// setCurrentAndPrevEpochDifficulty has swapped parameter names, which would
// make the oracle's notion of "previous" depend on the helper.

type c32BtcChain struct {
	bitcoin.Chain // nil: any other call panics (and is reported by Guard)
	latest        uint
	confirmations uint
}

func (c *c32BtcChain) GetLatestBlockHeight() (uint, error) { return c.latest, nil }
func (c *c32BtcChain) GetTransactionConfirmations(bitcoin.Hash) (uint, error) {
	return c.confirmations, nil
}

type c32SpvChain struct {
	Chain
	factor *big.Int
}

func (c *c32SpvChain) TxProofDifficultyFactor() (*big.Int, error) {
	return new(big.Int).Set(c.factor), nil
}

type c32DiffChain struct {
	btcdiff.Chain
	epoch      uint64
	prev, curr *big.Int
	diffAsked  bool
}

func (c *c32DiffChain) CurrentEpoch() (uint64, error) { return c.epoch, nil }
func (c *c32DiffChain) GetCurrentAndPrevEpochDifficulty() (*big.Int, *big.Int, error) {
	c.diffAsked = true
	// fresh copies: the code under test must not be able to corrupt the oracle's values
	return new(big.Int).Set(c.curr), new(big.Int).Set(c.prev), nil
}

// ---- case -------------------------------------------------------------------

type c32Case struct {
	Epoch  uint64 `json:"current_epoch"`
	Start  uint64 `json:"proof_start_block"`
	Conf   uint   `json:"confirmations"`
	Factor uint64 `json:"factor"`
	Prev   string `json:"prev_difficulty"`
	Curr   string `json:"curr_difficulty"`
	prev   *big.Int
	curr   *big.Int
}

func (c *c32Case) desc() string {
	return fmt.Sprintf("epoch=%d start=%d conf=%d factor=%d prev=%s curr=%s", c.Epoch, c.Start, c.Conf, c.Factor, c.Prev, c.Curr)
}

const c32EpochLen = 2016 // Bitcoin constant, restated independently of the package's

// c32EpochOf returns the epoch of a height as a signed value so that the
// "previous epoch of epoch 0" simply does not exist.
func c32EpochOf(h uint64) int64 { return int64(h / c32EpochLen) }

// c32Oracle classifies the range [start, start+factor-1] and, for a spanning
// range, accumulates per-header difficulty header by header.
// kind: "out", "prev", "curr", "span".
func c32Oracle(c *c32Case) (kind string, expected uint64, brute bool) {
	cur := int64(c.Epoch)
	prev := cur - 1
	se := c32EpochOf(c.Start)
	ee := c32EpochOf(c.Start + c.Factor - 1)
	switch {
	case se == cur && ee == cur:
		return "curr", c.Factor, true
	case prev >= 0 && se == prev && ee == prev:
		return "prev", c.Factor, true
	case prev >= 0 && se == prev && ee == cur:
		// header-by-header accumulation
		need := new(big.Int).Mul(c.prev, new(big.Int).SetUint64(c.Factor))
		acc := new(big.Int)
		n := uint64(0)
		const cap = 4_000_000
		for acc.Cmp(need) < 0 {
			if n >= cap {
				return "span", 0, false
			}
			if c32EpochOf(c.Start+n) == prev {
				acc.Add(acc, c.prev)
			} else {
				acc.Add(acc, c.curr)
			}
			n++
		}
		return "span", n, true
	default:
		return "out", 0, true
	}
}

// c32Accumulated is the closed-form difficulty of the first n headers from
// start (used for the sufficiency/minimality check on the value returned by the
// code; independent of the loop above).
func c32Accumulated(c *c32Case, n uint64) *big.Int {
	inPrev := c32EpochLen - c.Start%c32EpochLen
	if n < inPrev {
		inPrev = n
	}
	a := new(big.Int).Mul(c.prev, new(big.Int).SetUint64(inPrev))
	b := new(big.Int).Mul(c.curr, new(big.Int).SetUint64(n-inPrev))
	return a.Add(a, b)
}

func c32Run(r *verifkit.Run, c *c32Case) {
	desc := c.desc()
	kind, expected, brute := c32Oracle(c)
	btc := &c32BtcChain{latest: uint(c.Start) + c.Conf - 1, confirmations: c.Conf}
	spvc := &c32SpvChain{factor: new(big.Int).SetUint64(c.Factor)}
	diff := &c32DiffChain{epoch: c.Epoch, prev: c.prev, curr: c.curr}
	var ok bool
	var acc, req uint
	var err error
	if r.Guard("getProofInfo:", desc, func() {
		ok, acc, req, err = getProofInfo(bitcoin.Hash{0x32}, btc, spvc, diff)
	}) {
		return
	}
	r.Case(desc, kind == "span" && c.prev.Cmp(c.curr) != 0)
	r.Count("kind_"+kind, 1)
	w := map[string]interface{}{"case": c, "oracle_kind": kind, "oracle_required": expected,
		"got_in_range": ok, "got_accumulated": acc, "got_required": req}
	if err != nil {
		r.Violation("getProofInfo:error", "unexpected error: "+err.Error(), desc, w)
		return
	}
	if kind == "out" {
		if ok {
			r.Violation("classify:out-of-range-accepted", "range lies outside previous+current epoch but is reported within relay range", desc, w)
		}
		return
	}
	if !ok {
		r.Violation("classify:in-range-rejected:"+kind, "range lies within previous/current epochs ("+kind+") but is reported outside relay range", desc, w)
		return
	}
	if acc != c.Conf {
		r.Violation("confirmations:accumulated-wrong", fmt.Sprintf("accumulated confirmations %d, chain said %d", acc, c.Conf), desc, w)
	}
	if kind != "span" {
		if uint64(req) != c.Factor {
			r.Violation("required:single-epoch-not-factor:"+kind, fmt.Sprintf("required %d, expected the factor %d", req, c.Factor), desc, w)
		}
		return
	}
	need := new(big.Int).Mul(c.prev, new(big.Int).SetUint64(c.Factor))
	if c32Accumulated(c, uint64(req)).Cmp(need) < 0 {
		r.Violation("required:span-insufficient", fmt.Sprintf("%d headers accumulate %s < %s", req, c32Accumulated(c, uint64(req)), need), desc, w)
	} else if req == 0 || c32Accumulated(c, uint64(req)-1).Cmp(need) >= 0 {
		r.Violation("required:span-not-minimal", fmt.Sprintf("%d headers required although %d already accumulate enough", req, uint64(req)-1), desc, w)
	}
	if brute {
		r.Count("span_bruteforced", 1)
		if uint64(req) != expected {
			r.Violation("required:span-differs-from-bruteforce", fmt.Sprintf("required %d, brute-force accumulation gives %d", req, expected), desc, w)
		}
	}
	if c.prev.Cmp(c.curr) > 0 {
		r.Count("span_difficulty_drop", 1)
	} else if c.prev.Cmp(c.curr) < 0 {
		r.Count("span_difficulty_rise", 1)
	}
}

func c32Big(s string) *big.Int {
	v, ok := new(big.Int).SetString(s, 10)
	if !ok {
		panic("c32: bad literal " + s)
	}
	return v
}

func TestVerif_C32_ProofInfo(t *testing.T) {
	r := verifkit.Start(t, "C32", "proofinfo")
	defer r.Finish()
	r.SetRule("grid: current epoch x factor 1..12 x proof start at every offset -15..+15 around the starts of epochs cur-1, cur, cur+1 x fixed difficulty pairs (equal, +300%, -75%, non-divisible, 2^70-sized); plus PRNG cases (random epoch, factor, offset, confirmations, difficulties with ratios up to 2^12). non-trivial = oracle classifies the range as spanning previous->current epoch and the two difficulties differ")
	r.Assume("domain: factor >= 1, difficulties >= 1, confirmations >= 1 and <= latest height + 1 (transaction position is a real block)")

	type pair struct{ prev, curr string }
	pairs := []pair{
		{"50", "30"}, {"30", "50"}, {"60000000000000", "30000000000000"}, {"30000000000000", "50000000000000"},
		{"100", "100"}, {"100", "400"}, {"400", "100"}, {"7", "3"}, {"3", "7"}, {"1", "1"}, {"1000", "1"}, {"1", "1000"},
		{"1180591620717411303424", "1180591620717411303423"}, // 2^70, 2^70-1
		{"1180591620717411303424", "295147905179352825856"},  // 2^70, 2^68 (-75 %)
		{"295147905179352825857", "1180591620717411303424"},  // 2^68+1, 2^70
		{"86871474313761", "88104191118793"},                 // mainnet-like
	}
	epochs := []uint64{1, 2, 392, 1 << 31}
	if !r.Quick() {
		epochs = append(epochs, 0, 3, 419, 1<<40)
	}
	var cases []*c32Case
	add := func(epoch uint64, start int64, boundary uint64, conf uint, factor uint64, prev, curr *big.Int) {
		s := int64(boundary) + start
		if boundary > 1<<62 || s < 0 {
			return
		}
		cases = append(cases, &c32Case{Epoch: epoch, Start: uint64(s), Conf: conf, Factor: factor,
			Prev: prev.String(), Curr: curr.String(), prev: prev, curr: curr})
	}
	rng := r.Rand("grid-conf")
	for _, e := range epochs {
		for f := uint64(1); f <= 12; f++ {
			for b := int64(-1); b <= 1; b++ {
				if int64(e)+b < 0 {
					continue
				}
				boundary := uint64(int64(e)+b) * c32EpochLen
				for off := int64(-15); off <= 15; off++ {
					for _, p := range pairs {
						add(e, off, boundary, uint(1+rng.Intn(3000)), f, c32Big(p.prev), c32Big(p.curr))
					}
				}
			}
		}
	}
	nGrid := len(cases)
	nRand := r.N(40000, 2000000)
	rr := r.Rand("random")
	randDiff := func() *big.Int {
		bits := 1 + rr.Intn(78)
		v := new(big.Int).Rand(rr, new(big.Int).Lsh(big.NewInt(1), uint(bits)))
		return v.Add(v, big.NewInt(1))
	}
	for i := 0; i < nRand; i++ {
		var e uint64
		switch rr.Intn(6) {
		case 0:
			e = uint64(rr.Intn(4))
		case 1:
			e = uint64(rr.Int63n(1 << 40))
		default:
			e = uint64(300 + rr.Intn(200))
		}
		f := uint64(1 + rr.Intn(12))
		switch rr.Intn(12) {
		case 0:
			f = uint64(1 + rr.Intn(60))
		case 1:
			f = uint64(2000 + rr.Intn(2100)) // longer than an epoch: may span three epochs
		}
		prev := randDiff()
		var curr *big.Int
		switch rr.Intn(5) {
		case 0:
			curr = new(big.Int).Set(prev)
		case 1:
			curr = randDiff()
			// keep the ratio bounded (2^12) so the required count stays a sane header count
			for new(big.Int).Rsh(prev, 12).Cmp(curr) > 0 {
				curr.Lsh(curr, 8)
			}
		default:
			// realistic retarget: ratio within [1/4, 4], not divisible
			num := int64(250 + rr.Intn(3751))
			curr = new(big.Int).Mul(prev, big.NewInt(num))
			curr.Div(curr, big.NewInt(1000))
			if curr.Sign() == 0 {
				curr.SetInt64(1)
			}
		}
		b := int64(rr.Intn(3)) - 1
		if int64(e)+b < 0 {
			b = 0
		}
		boundary := uint64(int64(e)+b) * c32EpochLen
		span := int64(f) + 10
		off := rr.Int63n(2*span+1) - span
		if rr.Intn(8) == 0 {
			off = rr.Int63n(2*c32EpochLen) - c32EpochLen
		}
		add(e, off, boundary, uint(1+rr.Intn(5000)), f, prev, curr)
	}
	r.Count("grid_cases", int64(nGrid))
	r.Count("random_cases", int64(len(cases)-nGrid))
	r.SetExhaustive(false)

	const chunk = 512
	nChunks := (len(cases) + chunk - 1) / chunk
	verifkit.Parallel(nChunks, 0, func(ci int) {
		for i := ci * chunk; i < (ci+1)*chunk && i < len(cases); i++ {
			c32Run(r, cases[i])
		}
	})
	// samples: one of each spanning flavour
	picked := map[string]bool{}
	for _, c := range cases {
		kind, exp, _ := c32Oracle(c)
		key := kind
		if kind == "span" {
			key = fmt.Sprintf("span%d", c.prev.Cmp(c.curr))
		}
		if (kind == "span" || kind == "out") && !picked[key] && c.Factor > 3 {
			picked[key] = true
			r.Sample(map[string]interface{}{"case": c, "oracle_kind": kind, "oracle_required": exp})
		}
	}
}
