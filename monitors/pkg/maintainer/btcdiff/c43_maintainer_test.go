//go:build verif

package btcdiff

import (
	"context"
	"errors"
	"fmt"
	"sync"
	"testing"
	"time"

	"github.com/keep-network/keep-core/internal/verifkit"
	"github.com/keep-network/keep-core/pkg/bitcoin"
	"github.com/keep-network/keep-core/pkg/chain"
	"github.com/keep-network/keep-core/pkg/operator"
)

// ---------------------------------------------------------------------------
// Scripted world: one Bitcoin chain and one difficulty relay, both recording
// every query the maintainer makes in one ordered log. All state changes are
// driven by the *calls* the maintainer makes (never by time), so a history is
// a pure function of its script.
// ---------------------------------------------------------------------------

var c43ErrScriptEnd = errors.New("c43: script end")
var c43ErrSubmit = errors.New("c43: scripted submission failure")
var c43ErrHeader = errors.New("c43: scripted transient header request failure")

type c43Event struct {
	Kind    string `json:"k"`             // tip | epoch | prooflen | header | submit | ready | auth | authRefund
	Val     uint64 `json:"v,omitempty"`   // value returned (tip, epoch, prooflen, header height)
	OK      bool   `json:"ok,omitempty"`  // header found / submit accepted / flag value
	Method  string `json:"m,omitempty"`   // Retarget | RetargetWithRefund
	Heights []uint `json:"hs,omitempty"`  // decoded heights of the submitted headers
	Tip     uint   `json:"tip,omitempty"` // chain tip at the moment of the submission
	Epoch   uint64 `json:"ep,omitempty"`  // relay epoch at the moment of the submission
	L       uint64 `json:"l,omitempty"`   // relay proof length at the moment of the submission
	NilHdr  bool   `json:"nil,omitempty"` // a nil header was submitted
}

// c43Script is the part of a history chosen by the PRNG.
type c43Script struct {
	Height0 uint     `json:"h0"`
	Epoch0  uint64   `json:"e0"`
	L       []uint64 `json:"L"`      // proof length returned at the i-th ProofLength call (last repeats)
	Grow    []uint   `json:"grow"`   // chain growth applied after the i-th tip poll (missing = 0)
	Delay   []int    `json:"delay"`  // accepted submission i becomes visible after Delay[i] further epoch polls
	Jump    []uint64 `json:"jump"`   // accepted submission i moves the relay by Jump[i] epochs (>= 1)
	Fail    []bool   `json:"fail"`   // submission i is rejected with an error
	ExtJump []uint64 `json:"ext"`    // extra epochs (somebody else's retarget) revealed at the i-th *tick-opening* epoch poll
	Proxy   bool     `json:"proxy"`  // true: RetargetWithRefund path (DisableProxy=false)
	Ready   []bool   `json:"ready"`  // value of Ready() for the i-th proveEpochs run (last repeats)
	Auth    []bool   `json:"auth"`   // IsAuthorized for the i-th run
	AuthR   []bool   `json:"authR"`  // IsAuthorizedForRefund for the i-th run
	MaxTips int      `json:"maxTip"` // the script ends at this tip poll (context cancelled + error)
	HdrFail []int    `json:"hdrFail,omitempty"` // ordinals (0-based) of requests for an existing header that fail with a transient error
}

type c43World struct {
	mu     sync.Mutex
	sc     c43Script
	ev     []c43Event
	height uint
	epoch  uint64
	curL   uint64
	// pending relay movement after an accepted submission
	pendingEpoch uint64
	pendingPolls int
	hasPending   bool
	tipPolls     int
	lPolls       int
	submits      int
	accepted     int
	tickEpochs   int // number of tick-opening epoch polls so far
	sawTip       bool
	run          int // index of the current proveEpochs run
	readyPolls   int
	cancel       context.CancelFunc
	ended        bool
	hdrCalls     int // requests for existing headers so far
}

func c43Header(h uint) *bitcoin.BlockHeader {
	return &bitcoin.BlockHeader{
		Version: 1,
		Time:    uint32(h),
		Bits:    uint32(0x1d00ffff) - uint32(h/bitcoinDifficultyEpochLength),
		Nonce:   uint32(h),
	}
}

func c43At[T any](xs []T, i int, def T) T {
	if len(xs) == 0 {
		return def
	}
	if i >= len(xs) {
		return xs[len(xs)-1]
	}
	return xs[i]
}

// ---- bitcoin.Chain (only the two methods the maintainer uses are scripted)

type c43Btc struct {
	*localBitcoinChain
	w *c43World
}

func (b *c43Btc) GetLatestBlockHeight() (uint, error) {
	w := b.w
	w.mu.Lock()
	defer w.mu.Unlock()
	w.tipPolls++
	if w.sc.MaxTips > 0 && w.tipPolls > w.sc.MaxTips {
		w.ended = true
		if w.cancel != nil {
			w.cancel()
		}
		return 0, c43ErrScriptEnd
	}
	h := w.height
	w.ev = append(w.ev, c43Event{Kind: "tip", Val: uint64(h)})
	w.sawTip = true
	if i := w.tipPolls - 1; i < len(w.sc.Grow) {
		w.height += w.sc.Grow[i]
	}
	return h, nil
}

func (b *c43Btc) GetBlockHeader(h uint) (*bitcoin.BlockHeader, error) {
	w := b.w
	w.mu.Lock()
	defer w.mu.Unlock()
	if h > w.height {
		w.ev = append(w.ev, c43Event{Kind: "header", Val: uint64(h), OK: false})
		return nil, fmt.Errorf("block header at height %v does not exist", h)
	}
	k := w.hdrCalls
	w.hdrCalls++
	for _, f := range w.sc.HdrFail {
		if f == k {
			w.ev = append(w.ev, c43Event{Kind: "header", Val: uint64(h), OK: false, Method: "fault"})
			return nil, c43ErrHeader
		}
	}
	w.ev = append(w.ev, c43Event{Kind: "header", Val: uint64(h), OK: true})
	return c43Header(h), nil
}

// ---- btcdiff.Chain

type c43Relay struct {
	*localBitcoinDifficultyChain // Signing()
	w                            *c43World
}

func (c *c43Relay) Ready() (bool, error) {
	w := c.w
	w.mu.Lock()
	defer w.mu.Unlock()
	// every proveEpochs run opens with exactly this query
	w.run = w.readyPolls
	w.readyPolls++
	v := c43At(w.sc.Ready, w.run, true)
	w.ev = append(w.ev, c43Event{Kind: "ready", OK: v})
	return v, nil
}

func (c *c43Relay) IsAuthorized(chain.Address) (bool, error) {
	w := c.w
	w.mu.Lock()
	defer w.mu.Unlock()
	v := c43At(w.sc.Auth, w.run, true)
	w.ev = append(w.ev, c43Event{Kind: "auth", OK: v})
	return v, nil
}

func (c *c43Relay) IsAuthorizedForRefund(chain.Address) (bool, error) {
	w := c.w
	w.mu.Lock()
	defer w.mu.Unlock()
	v := c43At(w.sc.AuthR, w.run, true)
	w.ev = append(w.ev, c43Event{Kind: "authRefund", OK: v})
	return v, nil
}

func (c *c43Relay) CurrentEpoch() (uint64, error) {
	w := c.w
	w.mu.Lock()
	defer w.mu.Unlock()
	if w.hasPending {
		if w.pendingPolls <= 0 {
			w.epoch = w.pendingEpoch
			w.hasPending = false
		} else {
			w.pendingPolls--
		}
	} else if w.sawTip {
		// tick-opening poll: somebody else may have moved the relay meanwhile
		if i := w.tickEpochs; i < len(w.sc.ExtJump) {
			w.epoch += w.sc.ExtJump[i]
		}
		w.tickEpochs++
	}
	w.sawTip = false
	w.ev = append(w.ev, c43Event{Kind: "epoch", Val: w.epoch})
	return w.epoch, nil
}

func (c *c43Relay) ProofLength() (uint64, error) {
	w := c.w
	w.mu.Lock()
	defer w.mu.Unlock()
	w.curL = c43At(w.sc.L, w.lPolls, 1)
	w.lPolls++
	w.ev = append(w.ev, c43Event{Kind: "prooflen", Val: w.curL})
	return w.curL, nil
}

func (c *c43Relay) submit(method string, headers []*bitcoin.BlockHeader) error {
	w := c.w
	w.mu.Lock()
	defer w.mu.Unlock()
	e := c43Event{Kind: "submit", Method: method, Tip: w.height, Epoch: w.epoch, L: w.curL}
	for _, h := range headers {
		if h == nil {
			e.NilHdr = true
			e.Heights = append(e.Heights, 0)
			continue
		}
		e.Heights = append(e.Heights, uint(h.Nonce))
	}
	i := w.submits
	w.submits++
	if c43At(w.sc.Fail, i, false) {
		e.OK = false
		w.ev = append(w.ev, e)
		return c43ErrSubmit
	}
	e.OK = true
	w.ev = append(w.ev, e)
	j := c43At(w.sc.Jump, w.accepted, 1)
	if j < 1 {
		j = 1
	}
	w.pendingEpoch = w.epoch + j
	w.pendingPolls = c43At(w.sc.Delay, w.accepted, 0)
	w.hasPending = true
	w.accepted++
	return nil
}

func (c *c43Relay) Retarget(h []*bitcoin.BlockHeader) error { return c.submit("Retarget", h) }
func (c *c43Relay) RetargetWithRefund(h []*bitcoin.BlockHeader) error {
	return c.submit("RetargetWithRefund", h)
}

// ---------------------------------------------------------------------------
// Oracle: a reference reading of the property over the recorded log.
// ---------------------------------------------------------------------------

type c43Problem struct {
	fp, what string
}

// c43CheckLog walks the ordered log. A "tick" starts at a tip poll and ends
// at the next tip poll / eligibility check / end of log. cancelled tells that
// the history was cut (context cancelled), which excuses an unfinished wait.
func c43CheckLog(ev []c43Event, proxy bool, cancelled bool) (problems []c43Problem, submitted int, withheldNear int) {
	add := func(fp, what string) { problems = append(problems, c43Problem{fp, what}) }
	wantMethod := "Retarget"
	if proxy {
		wantMethod = "RetargetWithRefund"
	}
	// eligibility state of the current proveEpochs run (nil = tick mode, no
	// eligibility information)
	type elig struct{ ready, auth, seen bool }
	var cur *elig
	lastAccepted := -1 // index of last accepted submission event
	var lastAcceptedEpoch uint64
	i := 0
	for i < len(ev) {
		e := ev[i]
		switch e.Kind {
		case "ready":
			cur = &elig{ready: e.OK}
			i++
			continue
		case "auth", "authRefund":
			if cur != nil {
				// the authorisation that matters is the one of the configured path
				if (e.Kind == "authRefund") == proxy {
					cur.auth = e.OK
					cur.seen = true
				}
			}
			i++
			continue
		case "tip":
		default:
			// events outside a tick (only epoch polls of an unfinished wait can
			// legally be here; they are consumed inside the tick loop below)
			if e.Kind == "submit" {
				add("submit:outside-tick", fmt.Sprintf("submission without a preceding chain-height query: %+v", e))
			}
			i++
			continue
		}
		// ---- one tick
		tip := uint(e.Val)
		j := i + 1
		var epoch0 uint64
		var l0 uint64
		haveEpoch, haveL := false, false
		var subs []int
		hdrFault := false // a request for an existing header failed during this pass
		for j < len(ev) && ev[j].Kind != "tip" && ev[j].Kind != "ready" {
			switch ev[j].Kind {
			case "header":
				if !ev[j].OK && ev[j].Method == "fault" {
					hdrFault = true
				}
			case "epoch":
				if !haveEpoch {
					epoch0, haveEpoch = ev[j].Val, true
				}
			case "prooflen":
				if !haveL {
					l0, haveL = ev[j].Val, true
				}
			case "submit":
				subs = append(subs, j)
			}
			j++
		}
		lastTick := j >= len(ev)
		if haveEpoch && haveL {
			newEpochHeight := (uint(epoch0) + 1) * bitcoinDifficultyEpochLength
			first := newEpochHeight - uint(l0)
			last := newEpochHeight + uint(l0) - 1
			due := tip >= last
			near := func(a, b uint) bool { return a+2 >= b && a <= b+2 }
			if !due && (near(tip, last) || near(tip, newEpochHeight) || near(tip, first)) {
				withheldNear++
			}
			if cur != nil && (!cur.ready || !cur.seen || !cur.auth) && len(subs) > 0 {
				add("submit:not-eligible", fmt.Sprintf("submission although ready=%v authorised(seen=%v)=%v", cur.ready, cur.seen, cur.auth))
			}
			switch {
			case due && len(subs) == 0:
				// giving up the pass after a failed header request is always
				// acceptable (the control loop restarts and tries again)
				if !(lastTick && cancelled) && !hdrFault {
					add("submit:missing", fmt.Sprintf("chain tip %d >= %d (epoch %d, proof length %d) but nothing was submitted", tip, last, epoch0+1, l0))
				}
			case !due && len(subs) > 0:
				add("submit:too-early", fmt.Sprintf("submitted at chain tip %d although the last needed header %d (epoch %d, proof length %d) is not mined", tip, last, epoch0+1, l0))
			case len(subs) > 1:
				add("submit:twice-in-tick", fmt.Sprintf("%d submissions in one pass", len(subs)))
			}
		} else if len(subs) > 0 {
			add("submit:blind", "submission without having queried the relay epoch and proof length")
		}
		for _, si := range subs {
			s := ev[si]
			submitted++
			if s.Method != wantMethod {
				add("submit:wrong-path", fmt.Sprintf("submitted through %s, configuration and eligibility check are for %s", s.Method, wantMethod))
			}
			// headers: exactly (e+1)*2016-L .. (e+1)*2016+L-1 for the relay's epoch e
			// and proof length L at that moment, in order, all mined
			neh := (uint(s.Epoch) + 1) * bitcoinDifficultyEpochLength
			first := neh - uint(s.L)
			last := neh + uint(s.L) - 1
			okRange := len(s.Heights) == int(2*s.L) && !s.NilHdr
			if okRange {
				for k, h := range s.Heights {
					if h != first+uint(k) {
						okRange = false
					}
				}
			}
			if !okRange {
				add("submit:wrong-headers", fmt.Sprintf("relay epoch %d, proof length %d: expected headers %d..%d, got %v", s.Epoch, s.L, first, last, s.Heights))
			}
			if s.Tip < last {
				add("submit:unmined", fmt.Sprintf("chain tip %d < last needed header %d", s.Tip, last))
			}
			// once per epoch: no new submission while the relay still shows the
			// epoch an accepted submission was made at
			if lastAccepted >= 0 && s.Epoch < lastAcceptedEpoch+1 {
				add("submit:duplicate", fmt.Sprintf("second submission at relay epoch %d; an accepted submission for epoch %d was made before and the relay has not reached it", s.Epoch, lastAcceptedEpoch+1))
			}
			if s.OK {
				lastAccepted, lastAcceptedEpoch = si, s.Epoch
				// waiting: everything after the accepted submission inside this
				// tick must be epoch polls, the last one >= e+1
				reached := false
				for k := si + 1; k < j && !reached; k++ {
					if ev[k].Kind != "epoch" {
						add("wait:other-activity", fmt.Sprintf("%s query between an accepted submission and the relay reaching epoch %d", ev[k].Kind, s.Epoch+1))
						break
					}
					if ev[k].Val >= s.Epoch+1 {
						reached = true
					}
				}
				if !reached && !(lastTick && cancelled) {
					add("wait:moved-on", fmt.Sprintf("moved on after a submission at relay epoch %d before the relay reported epoch >= %d", s.Epoch, s.Epoch+1))
				}
			} else {
				// rejected: the pass must end here (error returned)
				if si+1 < j {
					add("fail:continued", fmt.Sprintf("activity (%s) in the same pass after a rejected submission", ev[si+1].Kind))
				}
			}
		}
		i = j
	}
	return
}

func c43NewWorld(sc c43Script, base *localBitcoinDifficultyChain) (*c43World, *bitcoinDifficultyMaintainer) {
	w := &c43World{sc: sc, height: sc.Height0, epoch: sc.Epoch0, curL: c43At(sc.L, 0, 1)}
	m := &bitcoinDifficultyMaintainer{
		config: Config{
			DisableProxy:       !sc.Proxy,
			IdleBackOffTime:    time.Millisecond,
			RestartBackOffTime: time.Millisecond,
		},
		btcChain: &c43Btc{connectLocalBitcoinChain(), w},
		chain:    &c43Relay{base, w},
	}
	return w, m
}

func c43Base() *localBitcoinDifficultyChain {
	return connectLocalBitcoinDifficultyChain()
}

var _ = operator.GenerateKeyPair

// ---------------------------------------------------------------------------
// Part 1: single passes (proveNextEpoch) around the three thresholds.
// ---------------------------------------------------------------------------

func TestVerif_C43_Ticks(t *testing.T) {
	r := verifkit.Start(t, "C43", "ticks")
	defer r.Finish()
	r.SetRule("one real proveNextEpoch pass per case over a scripted chain+relay: proof length 1..20, relay epoch from PRNG, chain tip placed at/around (e+1)*2016-L, (e+1)*2016 and (e+1)*2016+L-1 (offsets -2..+2) or far away, direct and proxy path, relay acknowledging after 0 polls (a fixed small number of cases after 1-2 polls = 1 s sleeps in the code), rejected submissions; non-trivial = a submission happened or was withheld within 2 blocks of a threshold")
	r.Assume("relay epoch and proof length change only at the maintainer's own queries (a relay moving between the query and the submission is a race no maintainer can avoid)")
	base := c43Base()
	n := r.N(400, 40000)
	nSlow := r.N(16, 300) // cases with a delayed relay (each costs 1-2 s of sleeping, run in parallel)
	verifkit.Parallel(n, 64, func(i int) {
		rng := r.SubRand("tick", i)
		L := uint64(1 + rng.Intn(20))
		e := uint64(rng.Intn(500))
		if rng.Intn(8) == 0 {
			e = uint64(rng.Intn(3))
		}
		neh := (uint(e) + 1) * bitcoinDifficultyEpochLength
		anchors := []uint{neh - uint(L), neh, neh + uint(L) - 1}
		var h uint
		switch rng.Intn(10) {
		case 0:
			h = neh - uint(L) - 3 - uint(rng.Intn(1000))
		case 1:
			h = neh + uint(L) + 2 + uint(rng.Intn(5000))
		default:
			h = uint(int(anchors[rng.Intn(3)]) + rng.Intn(5) - 2)
		}
		sc := c43Script{Height0: h, Epoch0: e, L: []uint64{L}, Proxy: rng.Intn(2) == 0}
		if rng.Intn(3) == 0 {
			sc.Grow = []uint{uint(rng.Intn(3))} // chain grows between the tip query and the header fetch
		}
		if rng.Intn(6) == 0 {
			sc.Fail = []bool{true}
		}
		if rng.Intn(4) == 0 {
			sc.Jump = []uint64{uint64(1 + rng.Intn(3))}
		}
		if i < nSlow {
			sc.Delay = []int{1 + i%2}
			// make sure the slow cases do submit
			sc.Height0 = neh + uint(L) - 1 + uint(rng.Intn(3))
			sc.Fail = nil
		}
		desc := "tick " + verifkit.JSON(sc)
		w, m := c43NewWorld(sc, base)
		var proven bool
		var err error
		returned, panicked := r.Within(60*time.Second, "tick:", desc, func() {
			proven, err = m.proveNextEpoch(context.Background())
		})
		if panicked {
			r.Case(desc, true)
			return
		}
		if !returned {
			r.Inconclusive("proveNextEpoch did not return within the watchdog: " + desc)
			return
		}
		w.mu.Lock()
		ev := append([]c43Event(nil), w.ev...)
		w.mu.Unlock()
		problems, submitted, near := c43CheckLog(ev, sc.Proxy, false)
		r.Case(desc, submitted > 0 || near > 0)
		r.Count("submissions", int64(submitted))
		r.Count("withheld_near_threshold", int64(near))
		for _, p := range problems {
			r.Violation(p.fp, p.what, desc, ev)
		}
		// return value against the log
		accepted, rejected := 0, 0
		for _, x := range ev {
			if x.Kind == "submit" {
				if x.OK {
					accepted++
				} else {
					rejected++
				}
			}
		}
		switch {
		case rejected > 0:
			if err == nil || proven {
				r.Violation("fail:no-error", fmt.Sprintf("submission rejected but proveNextEpoch returned (%v, %v)", proven, err), desc, ev)
			}
		case accepted > 0:
			if err != nil || !proven {
				r.Violation("result:not-proven", fmt.Sprintf("submission accepted and relay reached the epoch but proveNextEpoch returned (%v, %v)", proven, err), desc, ev)
			}
		default:
			if err != nil || proven {
				r.Violation("result:unexpected-without-submission", fmt.Sprintf("nothing submitted but proveNextEpoch returned (%v, %v)", proven, err), desc, ev)
			}
		}
		if i%101 == 0 {
			r.Sample(map[string]interface{}{"script": sc, "log": ev, "proven": proven, "err": fmt.Sprint(err)})
		}
	})
}

// ---------------------------------------------------------------------------
// Part 2: loop histories through the real control loop / proveEpochs.
// ---------------------------------------------------------------------------

func TestVerif_C43_Loops(t *testing.T) {
	r := verifkit.Start(t, "C43", "loops")
	defer r.Finish()
	r.SetRule("real startControlLoop (odd cases; idle and restart back-off 1 ms) or the same loop written out around the real proveEpochs with its return values checked (even cases) over a scripted history: chain tip starting below/at/above the thresholds and growing by PRNG steps per tip poll, relay acknowledging after 0-2 polls (at most 2 delayed acknowledgements per history), relay jumps by other submitters, rejected submissions (control loop restarts and must retry the same epoch), readiness/authorisation per run; the script ends at a fixed number of tip polls; non-trivial = a submission happened or was withheld within 2 blocks of a threshold")
	r.Assume("readiness and authorisation are constant within one proveEpochs run (the code checks them once per run)")
	base := c43Base()
	n := r.N(60, 1000)
	verifkit.Parallel(n, 64, func(i int) {
		rng := r.SubRand("loop", i)
		e := uint64(rng.Intn(400))
		L := uint64(1 + rng.Intn(20))
		neh := (uint(e) + 1) * bitcoinDifficultyEpochLength
		sc := c43Script{Epoch0: e, Proxy: rng.Intn(2) == 0, MaxTips: 12 + rng.Intn(10)}
		sc.L = []uint64{L}
		if rng.Intn(4) == 0 { // governance changes the proof length during the history
			for k := 0; k < 6; k++ {
				sc.L = append(sc.L, uint64(1+rng.Intn(20)))
			}
		}
		// start a little below the last needed header, or several epochs behind
		switch rng.Intn(4) {
		case 0:
			sc.Height0 = neh - uint(L) - uint(rng.Intn(4))
		case 1:
			sc.Height0 = neh + uint(L) - 1 - uint(rng.Intn(4))
		case 2:
			sc.Height0 = neh + 2*bitcoinDifficultyEpochLength + uint(rng.Intn(4000)) // 2-3 epochs to catch up
		default:
			sc.Height0 = neh + uint(rng.Intn(int(L)+2))
		}
		for k := 0; k < sc.MaxTips; k++ {
			g := uint(rng.Intn(3))
			if rng.Intn(7) == 0 {
				g = uint(rng.Intn(2 * bitcoinDifficultyEpochLength))
			}
			sc.Grow = append(sc.Grow, g)
		}
		slow := 0
		for k := 0; k < 8; k++ {
			d := 0
			if slow < 2 && rng.Intn(4) == 0 {
				d = 1 + rng.Intn(2)
				slow++
			}
			sc.Delay = append(sc.Delay, d)
			j := uint64(1)
			if rng.Intn(6) == 0 {
				j = uint64(2 + rng.Intn(2))
			}
			sc.Jump = append(sc.Jump, j)
		}
		sc.Delay = append(sc.Delay, 0)
		for k := 0; k < 10; k++ {
			sc.Fail = append(sc.Fail, rng.Intn(5) == 0)
			x := uint64(0)
			if rng.Intn(8) == 0 {
				x = uint64(1 + rng.Intn(2))
			}
			sc.ExtJump = append(sc.ExtJump, x)
		}
		sc.Fail = append(sc.Fail, false)
		// eligibility per run: mostly eligible; sometimes a run starts not ready /
		// not authorised for the configured path (the other path's flag is the
		// opposite, to catch a check of the wrong flag)
		for k := 0; k < 6; k++ {
			ready, auth := true, true
			switch rng.Intn(6) {
			case 0:
				ready = false
			case 1:
				auth = false
			}
			sc.Ready = append(sc.Ready, ready)
			if sc.Proxy {
				sc.AuthR = append(sc.AuthR, auth)
				sc.Auth = append(sc.Auth, !auth)
			} else {
				sc.Auth = append(sc.Auth, auth)
				sc.AuthR = append(sc.AuthR, !auth)
			}
		}
		// after the scripted runs the maintainer stays eligible, so that the tip
		// polls always reach the script end
		sc.Ready = append(sc.Ready, true)
		sc.Auth = append(sc.Auth, !sc.Proxy)
		sc.AuthR = append(sc.AuthR, sc.Proxy)
		desc := "loop " + verifkit.JSON(sc)
		w, m := c43NewWorld(sc, base)
		ctx, cancel := context.WithCancel(context.Background())
		defer cancel()
		w.cancel = cancel
		// The control loop of the maintainer, with the run index advanced for the
		// eligibility script. This is startControlLoop's body; the real
		// proveEpochs / proveNextEpoch / waitForCurrentEpochUpdate do the work.
		var runErrs []string
		realLoop := i%2 == 1
		returned, panicked := r.Within(120*time.Second, "loop:", desc, func() {
			if realLoop {
				// the real control loop; it returns when the script end cancels ctx
				m.startControlLoop(ctx)
				return
			}
			for run := 0; run < 40; run++ {
				w.mu.Lock()
				ended := w.ended
				w.mu.Unlock()
				if ended || ctx.Err() != nil {
					return
				}
				err := m.proveEpochs(ctx)
				if err == nil {
					runErrs = append(runErrs, "<nil>")
				} else {
					runErrs = append(runErrs, err.Error())
				}
				// eligibility errors must be reported as such
				w.mu.Lock()
				if w.run != run {
					w.mu.Unlock()
					r.Inconclusive("harness: run counter out of step")
					return
				}
				ready := c43At(w.sc.Ready, run, true)
				auth := c43At(w.sc.Auth, run, true)
				if sc.Proxy {
					auth = c43At(w.sc.AuthR, run, true)
				}
				w.mu.Unlock()
				if !ready && !errors.Is(err, errNoGenesis) {
					r.Violation("eligibility:not-ready-error", fmt.Sprintf("relay not ready but proveEpochs returned %v", err), desc, nil)
				}
				if ready && !auth && !errors.Is(err, errNotAuthorized) {
					r.Violation("eligibility:not-authorised-error", fmt.Sprintf("maintainer not authorised but proveEpochs returned %v", err), desc, nil)
				}
			}
		})
		if panicked {
			r.Case(desc, true)
			return
		}
		if !returned {
			cancel()
			r.Inconclusive("control loop did not finish within the watchdog: " + desc)
			return
		}
		w.mu.Lock()
		ev := append([]c43Event(nil), w.ev...)
		w.mu.Unlock()
		problems, submitted, near := c43CheckLog(ev, sc.Proxy, true)
		r.Case(desc, submitted > 0 || near > 0)
		r.Count("submissions", int64(submitted))
		r.Count("withheld_near_threshold", int64(near))
		r.Count("runs", int64(len(runErrs)))
		for _, p := range problems {
			r.Violation(p.fp, p.what, desc, map[string]interface{}{"log": ev, "runs": runErrs})
		}
		// a rejected submission must be retried for the same epoch (unless the
		// relay was moved by somebody else or the history ended)
		for k, x := range ev {
			if x.Kind != "submit" || x.OK {
				continue
			}
			for _, y := range ev[k+1:] {
				if y.Kind == "submit" {
					if y.Epoch == x.Epoch && (len(y.Heights) == 0 || len(x.Heights) == 0 || (y.L == x.L && y.Heights[0] != x.Heights[0])) {
						r.Violation("fail:retry-differs", "retry after a rejected submission is for different headers although the relay did not move", desc, []c43Event{x, y})
					}
					break
				}
			}
		}
		if i%11 == 0 {
			short := ev
			if len(short) > 40 {
				short = short[:40]
			}
			r.Sample(map[string]interface{}{"script": sc, "log_prefix": short, "runs": runErrs})
		}
	})
}

// ---------------------------------------------------------------------------
// Part 3: transient failures of single header requests inside the proof range.
// ---------------------------------------------------------------------------

func TestVerif_C43_HeaderFaults(t *testing.T) {
	r := verifkit.Start(t, "C43", "header-faults")
	defer r.Finish()
	r.SetRule("a due proof (chain tip at or beyond the last needed header) while one or two requests for existing headers fail with an error: every position of the 2L-header range for proof lengths 1..6 (one fault), PRNG pairs of positions (two faults), both submission paths; even cases run one real proveNextEpoch pass, odd cases the real control loop until a fixed number of tip polls. Giving up the pass with an error is accepted; whatever is submitted - in the faulted pass or in a later one - must be exactly the headers (e+1)*2016-L .. (e+1)*2016+L-1 (the log oracle of the other parts). non-trivial = a header request failed inside the range")
	base := c43Base()
	type hc struct {
		L     uint64
		fails []int
		proxy bool
	}
	var cases []hc
	for L := uint64(1); L <= 6; L++ {
		for k := 0; k < int(2*L); k++ {
			cases = append(cases, hc{L, []int{k}, false}, hc{L, []int{k}, true})
		}
	}
	nPairs := r.N(60, 2000)
	for i := 0; i < nPairs; i++ {
		rng := r.SubRand("hdr-pair", i)
		L := uint64(1 + rng.Intn(10))
		a := rng.Intn(int(2 * L))
		b := a + 1 + rng.Intn(int(2*L)) // second fault may fall into the retry pass
		cases = append(cases, hc{L, []int{a, b}, rng.Intn(2) == 0})
	}
	var faultedPasses, submittedAfterFault, gaveUp int64
	var mu sync.Mutex
	verifkit.Parallel(len(cases), 64, func(i int) {
		c := cases[i]
		rng := r.SubRand("hdr-case", i)
		e := uint64(rng.Intn(300))
		neh := (uint(e) + 1) * bitcoinDifficultyEpochLength
		sc := c43Script{Height0: neh + uint(c.L) - 1 + uint(rng.Intn(3)), Epoch0: e, L: []uint64{c.L}, Proxy: c.proxy, HdrFail: c.fails}
		loop := i%2 == 1
		if loop {
			sc.MaxTips = 6
		}
		desc := "hdrfault " + verifkit.JSON(sc)
		w, m := c43NewWorld(sc, base)
		ctx, cancel := context.WithCancel(context.Background())
		defer cancel()
		w.cancel = cancel
		var proven bool
		var err error
		returned, panicked := r.Within(60*time.Second, "hdrfault:", desc, func() {
			if loop {
				m.startControlLoop(ctx)
				return
			}
			proven, err = m.proveNextEpoch(ctx)
		})
		if panicked {
			r.Case(desc, true)
			return
		}
		if !returned {
			cancel()
			r.Inconclusive("did not return within the watchdog: " + desc)
			return
		}
		w.mu.Lock()
		ev := append([]c43Event(nil), w.ev...)
		w.mu.Unlock()
		problems, submitted, _ := c43CheckLog(ev, sc.Proxy, loop)
		faults := 0
		for _, x := range ev {
			if x.Kind == "header" && x.Method == "fault" {
				faults++
			}
		}
		r.Case(desc, faults > 0)
		for _, p := range problems {
			r.Violation("hdrfault:"+p.fp, p.what, desc, ev)
		}
		mu.Lock()
		if faults > 0 {
			faultedPasses++
		}
		if submitted > 0 {
			submittedAfterFault++
		}
		mu.Unlock()
		if !loop {
			// single pass: a submission in the faulted pass is judged by the log
			// oracle above; without one the pass must report the failure
			if submitted == 0 && faults > 0 {
				mu.Lock()
				gaveUp++
				mu.Unlock()
				if err == nil || proven {
					r.Violation("hdrfault:failure-not-reported", fmt.Sprintf("a header request failed and nothing was submitted, but proveNextEpoch returned (%v, %v)", proven, err), desc, ev)
				}
			}
		} else if faults > 0 && submitted == 0 {
			// the control loop restarted at most len(fails) times within 6 tip
			// polls; the epoch stays due, so a later pass has to submit
			r.Violation("hdrfault:never-submitted-after-restart", "the control loop never submitted the due proof after the failed header requests were over", desc, ev)
		}
		if i%37 == 0 {
			r.Sample(map[string]interface{}{"script": sc, "log": ev, "proven": proven, "err": fmt.Sprint(err)})
		}
	})
	r.Count("cases_with_header_fault", faultedPasses)
	r.Count("cases_with_submission", submittedAfterFault)
	r.Count("single_passes_given_up", gaveUp)
	if faultedPasses == 0 {
		r.Inconclusive("no header request failed")
	}
}
