//go:build verif

package sortition

import (
	"context"
	"fmt"
	"math/big"
	"strings"
	"sync"
	"testing"
	"time"

	"github.com/keep-network/keep-core/internal/testutils"
	"github.com/keep-network/keep-core/internal/verifkit"
	"github.com/keep-network/keep-core/pkg/chain"
)

// tri-valued answer of a chain query
const (
	c42F = 0
	c42T = 1
	c42E = 2
)

// indices of the seven scripted answers
const (
	c42InPool = iota
	c42UpToDate
	c42Locked
	c42Eligible
	c42CanRestore
	c42Chaosnet
	c42Beta
	c42NumAnswers
)

var c42AnswerNames = [c42NumAnswers]string{"inPool", "upToDate", "locked", "eligible", "canRestore", "chaosnet", "beta"}

type c42State [c42NumAnswers]int

func (s c42State) String() string {
	var sb strings.Builder
	for i, v := range s {
		if i > 0 {
			sb.WriteByte(',')
		}
		sb.WriteString(c42AnswerNames[i])
		sb.WriteByte('=')
		sb.WriteByte("FTE"[v])
	}
	return sb.String()
}

var c42ErrQuery = fmt.Errorf("c42 scripted query failure")
var c42ErrRequest = fmt.Errorf("c42 scripted transaction failure")

// c42Request is one transaction request received by the stub, judged against
// the chain state at the moment of the request.
type c42Request struct {
	Kind      string `json:"kind"`
	State     string `json:"state"`
	Tick      int    `json:"tick"`
	Forbidden string `json:"forbidden,omitempty"` // empty when permitted
}

// c42Chain is the scripted chain stub. Queries answer from the current state;
// requests are recorded and (when they succeed) change the state the way the
// contracts would.
type c42Chain struct {
	mu         sync.Mutex
	state      c42State
	failReq    [3]bool // join, update, restore fail with an error
	policyKind int
	tick       int
	queries    int
	requests   []c42Request

	// MonitorPool mode: the script advances at every IsOperatorInPool call,
	// which is the first query of a status check
	script    []c42TickScript
	scriptPos int
	exhausted chan struct{}
}

type c42TickScript struct {
	state   c42State
	failReq [3]bool
}

func (c *c42Chain) answer(i int) (bool, error) {
	c.mu.Lock()
	defer c.mu.Unlock()
	c.queries++
	switch c.state[i] {
	case c42T:
		return true, nil
	case c42E:
		return false, c42ErrQuery
	}
	return false, nil
}

func (c *c42Chain) OperatorToStakingProvider() (chain.Address, bool, error) {
	return "0x80C63B577DC79B2432357BECC5b431dfb8E181DD", true, nil
}
func (c *c42Chain) EligibleStake(chain.Address) (*big.Int, error) { return big.NewInt(1), nil }
func (c *c42Chain) GetOperatorID(chain.Address) (chain.OperatorID, error) {
	return 1, nil
}
func (c *c42Chain) IsPoolLocked() (bool, error) { return c.answer(c42Locked) }
func (c *c42Chain) IsOperatorInPool() (bool, error) {
	c.mu.Lock()
	if c.script != nil {
		if c.scriptPos < len(c.script) {
			c.state = c.script[c.scriptPos].state
			c.failReq = c.script[c.scriptPos].failReq
			c.tick = c.scriptPos
			c.scriptPos++
		} else if c.exhausted != nil {
			// the whole script has been consumed: settle in a quiet state
			c.state = c42State{c42T, c42T, c42F, c42T, c42F, c42F, c42F}
			c.tick = c.scriptPos
			close(c.exhausted)
			c.exhausted = nil
		}
	}
	c.mu.Unlock()
	return c.answer(c42InPool)
}
func (c *c42Chain) IsOperatorUpToDate() (bool, error)   { return c.answer(c42UpToDate) }
func (c *c42Chain) IsEligibleForRewards() (bool, error) { return c.answer(c42Eligible) }
func (c *c42Chain) CanRestoreRewardEligibility() (bool, error) {
	return c.answer(c42CanRestore)
}
func (c *c42Chain) IsChaosnetActive() (bool, error) { return c.answer(c42Chaosnet) }
func (c *c42Chain) IsBetaOperator() (bool, error)   { return c.answer(c42Beta) }

// c42BetaAllows is the documented BetaOperatorPolicy: join when chaosnet is
// known to be inactive, or known active and the operator is known to be a beta
// operator; a failing query never allows.
func c42BetaAllows(s c42State) bool {
	if s[c42Chaosnet] == c42F {
		return true
	}
	return s[c42Chaosnet] == c42T && s[c42Beta] == c42T
}

const c42NumPolicies = 9

func c42PolicyName(kind int) string {
	return [c42NumPolicies]string{"unconditional", "never", "beta", "and(beta,yes)", "and(yes,beta)", "and(beta,no)", "and()", "and(unconditional,and(beta))", "and(no,beta)"}[kind]
}

func c42MakePolicy(kind int, c Chain) JoinPolicy {
	logger := &testutils.MockLogger{}
	beta := func() JoinPolicy { return NewBetaOperatorPolicy(c, logger) }
	switch kind {
	case 0:
		return UnconditionalJoinPolicy
	case 1:
		return &mockPolicy{false}
	case 2:
		return beta()
	case 3:
		return NewConjunctionPolicy(beta(), &mockPolicy{true})
	case 4:
		return NewConjunctionPolicy(&mockPolicy{true}, beta())
	case 5:
		return NewConjunctionPolicy(beta(), &mockPolicy{false})
	case 6:
		return NewConjunctionPolicy()
	case 7:
		return NewConjunctionPolicy(UnconditionalJoinPolicy, NewConjunctionPolicy(beta()))
	default:
		return NewConjunctionPolicy(&mockPolicy{false}, beta())
	}
}

func c42PolicyAllows(kind int, s c42State) bool {
	switch kind {
	case 0, 6:
		return true
	case 1, 5, 8:
		return false
	default:
		return c42BetaAllows(s)
	}
}

// c42Judge says why a request is not permitted in the given state ("" when it
// is permitted). Only the answers a request depends on matter.
func c42Judge(kind string, s c42State, policyKind int) string {
	need := func(i int, want int) string {
		switch {
		case s[i] == c42E:
			return "query-error:" + c42AnswerNames[i]
		case s[i] != want:
			return c42AnswerNames[i] + "=" + string("FT"[s[i]])
		}
		return ""
	}
	first := func(xs ...string) string {
		for _, x := range xs {
			if x != "" {
				return x
			}
		}
		return ""
	}
	switch kind {
	case "join":
		pol := ""
		if !c42PolicyAllows(policyKind, s) {
			pol = "policy"
		}
		return first(need(c42InPool, c42F), need(c42UpToDate, c42F), need(c42Locked, c42F), pol)
	case "update":
		return first(need(c42InPool, c42T), need(c42UpToDate, c42F), need(c42Locked, c42F))
	case "restore":
		return first(need(c42CanRestore, c42T), need(c42InPool, c42T), need(c42Eligible, c42F))
	}
	return "unknown request"
}

func (c *c42Chain) request(kind string, idx int) error {
	c.mu.Lock()
	defer c.mu.Unlock()
	c.requests = append(c.requests, c42Request{
		Kind: kind, State: c.state.String(), Tick: c.tick,
		Forbidden: c42Judge(kind, c.state, c.policyKind),
	})
	if c.failReq[idx] {
		return c42ErrRequest
	}
	switch kind {
	case "join":
		c.state[c42InPool], c.state[c42UpToDate] = c42T, c42T
	case "update":
		c.state[c42UpToDate] = c42T
	case "restore":
		c.state[c42Eligible] = c42T
	}
	return nil
}

func (c *c42Chain) JoinSortitionPool() error        { return c.request("join", 0) }
func (c *c42Chain) UpdateOperatorStatus() error     { return c.request("update", 1) }
func (c *c42Chain) RestoreRewardEligibility() error { return c.request("restore", 2) }

func c42Quiet(s c42State) bool {
	return s[c42InPool] == c42T && s[c42UpToDate] == c42T && s[c42Eligible] == c42T
}

// c42Collect turns the requests recorded since `from` into violations and
// counters.
func c42Collect(r *verifkit.Run, c *c42Chain, from int, desc string, stats map[string]int64) {
	c.mu.Lock()
	reqs := append([]c42Request(nil), c.requests[from:]...)
	c.mu.Unlock()
	for _, q := range reqs {
		stats["requests_"+q.Kind]++
		if q.Forbidden != "" {
			fp := q.Kind + ":" + q.Forbidden
			r.Violation(fp, fmt.Sprintf("%s requested although not permitted (%s) in chain state %s", q.Kind, q.Forbidden, q.State),
				fmt.Sprintf("%s @tick %d", desc, q.Tick), q)
		}
	}
}

func c42FailString(f [3]bool) string {
	out := ""
	for i, n := range []string{"join", "update", "restore"} {
		if f[i] {
			out += "!" + n
		}
	}
	if out == "" {
		return "ok"
	}
	return out
}

// TestVerif_C42_Grid enumerates every combination of the seven answers (true,
// false, query error) under every join policy, with succeeding and failing
// transactions.
func TestVerif_C42_Grid(t *testing.T) {
	r := verifkit.Start(t, "C42", "grid")
	defer r.Finish()
	r.SetRule("exhaustive: 3^7 combinations of {false,true,query error} for inPool/upToDate/locked/eligible/canRestore/chaosnet/beta x 9 join policies (unconditional, never, beta, conjunctions) x {transactions succeed, transactions fail}; one checkOperatorStatus tick each; every request is judged against the chain state at the moment it is received. non-trivial = state differs from (in pool, up to date, eligible)")
	r.SetExhaustive(true)
	logger := &testutils.MockLogger{}
	stats := map[string]int64{}
	total := 1
	for i := 0; i < c42NumAnswers; i++ {
		total *= 3
	}
	sampleAt := map[int]bool{5: true, 700: true, 1400: true, 2100: true}
	for code := 0; code < total; code++ {
		var s c42State
		x := code
		for i := 0; i < c42NumAnswers; i++ {
			s[i] = x % 3
			x /= 3
		}
		for pk := 0; pk < c42NumPolicies; pk++ {
			for fail := 0; fail < 2; fail++ {
				c := &c42Chain{state: s, policyKind: pk}
				if fail == 1 {
					c.failReq = [3]bool{true, true, true}
				}
				desc := fmt.Sprintf("grid policy=%s tx=%s state=%s", c42PolicyName(pk), c42FailString(c.failReq), s)
				policy := c42MakePolicy(pk, c)
				var err error
				if r.Guard("grid:", desc, func() { err = checkOperatorStatus(logger, c, policy) }) {
					continue
				}
				_ = err
				r.Case(desc, !c42Quiet(s))
				before := stats["requests_join"] + stats["requests_update"] + stats["requests_restore"]
				c42Collect(r, c, 0, desc, stats)
				stats["queries"] += int64(c.queries)
				if stats["requests_join"]+stats["requests_update"]+stats["requests_restore"] > before {
					stats["ticks_with_request"]++
				}
				if sampleAt[code] && pk == 2 && fail == 0 {
					r.Sample(map[string]interface{}{"case": desc, "requests": c.requests})
				}
			}
		}
	}
	for k, v := range stats {
		r.Count(k, v)
	}
	if stats["requests_join"] == 0 || stats["requests_update"] == 0 || stats["requests_restore"] == 0 {
		r.Inconclusive("a request kind was never observed, the oracle was not exercised")
	}
}

type c42HistoryPlan struct {
	policyKind int
	ticks      []c42TickScript
}

func (h *c42HistoryPlan) desc(mode string) string {
	var sb strings.Builder
	fmt.Fprintf(&sb, "%s policy=%s ticks=", mode, c42PolicyName(h.policyKind))
	for i, tk := range h.ticks {
		if i > 0 {
			sb.WriteByte(' ')
		}
		for _, v := range tk.state {
			sb.WriteByte("FTE"[v])
		}
		sb.WriteByte('/')
		sb.WriteString(c42FailString(tk.failReq))
	}
	return sb.String()
}

// c42Change is a scripted change of one answer before a tick. In a direct
// history the state of tick k+1 derives from the state *after* tick k (the
// client's own transactions change it), so only changes are scripted.
type c42Change struct {
	idx int
	val int
}

func c42GenTri(rng interface{ Intn(int) int }, errWeight int) int {
	x := rng.Intn(8 + errWeight)
	switch {
	case x < 4:
		return c42F
	case x < 8:
		return c42T
	}
	return c42E
}

// TestVerif_C42_Histories runs sequences of status checks on one chain stub
// whose state evolves: scripted changes between ticks and the effect of the
// client's own successful transactions.
func TestVerif_C42_Histories(t *testing.T) {
	r := verifkit.Start(t, "C42", "histories")
	defer r.Finish()
	r.SetRule("histories of 1-20 checkOperatorStatus ticks on one scripted chain: random initial answers, 0-3 answers changed before every tick (including to a query error), successful join/update/restore transactions change the state as the contracts would, transactions fail by script; a PRNG-chosen join policy per history. non-trivial = some tick starts in a state other than (in pool, up to date, eligible)")
	logger := &testutils.MockLogger{}
	n := r.N(10000, 100000)
	var mu sync.Mutex
	stats := map[string]int64{}
	verifkit.Parallel(n, 0, func(hi int) {
		rng := r.SubRand("history", hi)
		pk := rng.Intn(c42NumPolicies)
		errWeight := []int{0, 1, 3}[rng.Intn(3)]
		c := &c42Chain{policyKind: pk}
		var sb strings.Builder
		fmt.Fprintf(&sb, "history policy=%s init=", c42PolicyName(pk))
		for i := range c.state {
			c.state[i] = c42GenTri(rng, errWeight)
			sb.WriteByte("FTE"[c.state[i]])
		}
		nTicks := 1 + rng.Intn(20)
		type tickPlan struct {
			changes []c42Change
			fail    [3]bool
		}
		plans := make([]tickPlan, nTicks)
		for k := range plans {
			if k > 0 {
				for j := rng.Intn(4); j > 0; j-- {
					plans[k].changes = append(plans[k].changes, c42Change{rng.Intn(c42NumAnswers), c42GenTri(rng, errWeight)})
				}
			}
			for q := 0; q < 3; q++ {
				plans[k].fail[q] = rng.Intn(5) == 0
			}
			sb.WriteString(" |")
			for _, ch := range plans[k].changes {
				fmt.Fprintf(&sb, " %s=%c", c42AnswerNames[ch.idx], "FTE"[ch.val])
			}
			sb.WriteString(" tx=" + c42FailString(plans[k].fail))
		}
		desc := sb.String()
		policy := c42MakePolicy(pk, c)
		local := map[string]int64{}
		nontrivial := false
		for k := range plans {
			for _, ch := range plans[k].changes {
				c.state[ch.idx] = ch.val
			}
			c.failReq = plans[k].fail
			c.tick = k
			if !c42Quiet(c.state) {
				nontrivial = true
			}
			from := len(c.requests)
			if r.Guard("history:", fmt.Sprintf("%s @tick %d", desc, k), func() { _ = checkOperatorStatus(logger, c, policy) }) {
				break
			}
			c42Collect(r, c, from, desc, local)
			local["ticks"]++
		}
		r.Case(desc, nontrivial)
		if hi < 3 {
			r.Sample(map[string]interface{}{"history": desc, "requests": c.requests})
		}
		mu.Lock()
		for k, v := range local {
			stats[k] += v
		}
		mu.Unlock()
	})
	for k, v := range stats {
		r.Count(k, v)
	}
}

// TestVerif_C42_MonitorPool drives the real MonitorPool loop (1 ms tick) over
// a scripted chain whose state advances at every status check.
func TestVerif_C42_MonitorPool(t *testing.T) {
	r := verifkit.Start(t, "C42", "monitorpool")
	defer r.Finish()
	r.SetRule("MonitorPool with a 1 ms tick over a scripted chain: a script of 3-12 states (random answers incl. query errors, scripted transaction failures), the stub moves to the next scripted state at every IsOperatorInPool call; every request is judged against the chain state at the moment it is received. non-trivial = some scripted state differs from (in pool, up to date, eligible)")
	r.Assume("a status check starts with the IsOperatorInPool query (the stub switches to the next scripted state there), so the chain state is constant during a check apart from the effect of the client's own transactions")
	logger := &testutils.MockLogger{}
	n := r.N(300, 3000)
	var mu sync.Mutex
	stats := map[string]int64{}
	verifkit.Parallel(n, 8, func(hi int) {
		rng := r.SubRand("monitorpool", hi)
		plan := &c42HistoryPlan{policyKind: rng.Intn(c42NumPolicies)}
		errWeight := []int{0, 1, 3}[rng.Intn(3)]
		nTicks := 3 + rng.Intn(10)
		for k := 0; k < nTicks; k++ {
			var tk c42TickScript
			for i := range tk.state {
				tk.state[i] = c42GenTri(rng, errWeight)
			}
			for q := 0; q < 3; q++ {
				tk.failReq[q] = rng.Intn(5) == 0
			}
			plan.ticks = append(plan.ticks, tk)
		}
		desc := plan.desc("monitorpool")
		nontrivial := false
		for _, tk := range plan.ticks {
			if !c42Quiet(tk.state) {
				nontrivial = true
			}
		}
		exhausted := make(chan struct{})
		c := &c42Chain{policyKind: plan.policyKind, script: plan.ticks, exhausted: exhausted}
		policy := c42MakePolicy(plan.policyKind, c)
		ctx, cancel := context.WithCancel(context.Background())
		var err error
		if r.Guard("monitorpool:", desc, func() { err = MonitorPool(ctx, logger, c, time.Millisecond, policy) }) {
			cancel()
			return
		}
		if err != nil {
			cancel()
			r.Violation("monitorpool:start-error", "MonitorPool refused to start for a registered operator: "+err.Error(), desc, nil)
			return
		}
		select {
		case <-exhausted:
		case <-time.After(20 * time.Second):
			cancel()
			r.Inconclusive("watchdog: MonitorPool did not consume the script within 20 s: " + desc)
			return
		}
		cancel()
		// let a check that is in flight finish; later requests, if any, are
		// in the quiet state and are judged the same way
		time.Sleep(3 * time.Millisecond)
		local := map[string]int64{}
		c42Collect(r, c, 0, desc, local)
		local["ticks"] += int64(nTicks)
		r.Case(desc, nontrivial)
		if hi < 2 {
			c.mu.Lock()
			reqs := append([]c42Request(nil), c.requests...)
			c.mu.Unlock()
			r.Sample(map[string]interface{}{"history": desc, "requests": reqs})
		}
		mu.Lock()
		for k, v := range local {
			stats[k] += v
		}
		mu.Unlock()
	})
	for k, v := range stats {
		r.Count(k, v)
	}
}
