//go:build verif

package config

import (
	"time"
	"encoding/json"
	"fmt"
	"math/rand"
	"os"
	"path/filepath"
	"reflect"
	"sort"
	"strings"
	"testing"

	"github.com/ethereum/go-ethereum/common"
	"github.com/spf13/pflag"
	"github.com/spf13/viper"

	commonEthereum "github.com/keep-network/keep-common/pkg/chain/ethereum"
	"github.com/keep-network/keep-core/internal/verifkit"
	"github.com/keep-network/keep-core/pkg/bitcoin"
	chainEthereum "github.com/keep-network/keep-core/pkg/chain/ethereum"
	ethereumBeacon "github.com/keep-network/keep-core/pkg/chain/ethereum/beacon/gen"
	ethereumEcdsa "github.com/keep-network/keep-core/pkg/chain/ethereum/ecdsa/gen"
	ethereumTbtc "github.com/keep-network/keep-core/pkg/chain/ethereum/tbtc/gen"
	ethereumThreshold "github.com/keep-network/keep-core/pkg/chain/ethereum/threshold/gen"
)

// The ten values the property speaks about: item 0 = peers, 1 = Electrum URL,
// 2..9 = the eight contract addresses.
const (
	c44Peers    = 0
	c44Electrum = 1
	c44NumItems = 10
)

var c44Contracts = []string{
	chainEthereum.RandomBeaconContractName,
	chainEthereum.TokenStakingContractName,
	chainEthereum.WalletRegistryContractName,
	chainEthereum.BridgeContractName,
	chainEthereum.MaintainerProxyContractName,
	chainEthereum.LightRelayContractName,
	chainEthereum.LightRelayMaintainerProxyContractName,
	chainEthereum.WalletProposalValidatorContractName,
}

// default contract addresses installed into the gen packages for the run
// (the embedded ones may be empty in a source build)
var c44ContractDefaults = []string{
	"0xd1640b381327c2d5425d6d3d605539a3db72f857",
	"0xaa7b41039ea8f9ec2d89bbe96e19f97b6c267a27",
	"0xdb3dd6d4f43d39c996d0afeb6fbabc284f9ffb1a",
	"0x9490165195503fcf6a0fd20ac113223fefb66ed5",
	"0xC6D21c2871586A2B098c0ad043fF0D47a3c7e7ae",
	"0x68e20afD773fDF1231B5cbFeA7040e73e79cAc36",
	"0x30cd93828613D5945A2916a22E0f0e9bC561EAB5",
	"0xE7d33d8AA55B73a93059a24b900366894684a497",
}

func c44InstallDefaults() (restore func()) {
	ptrs := []*string{
		&ethereumBeacon.RandomBeaconAddress,
		&ethereumThreshold.TokenStakingAddress,
		&ethereumEcdsa.WalletRegistryAddress,
		&ethereumTbtc.BridgeAddress,
		&ethereumTbtc.MaintainerProxyAddress,
		&ethereumTbtc.LightRelayAddress,
		&ethereumTbtc.LightRelayMaintainerProxyAddress,
		&ethereumTbtc.WalletProposalValidatorAddress,
	}
	old := make([]string, len(ptrs))
	for i, p := range ptrs {
		old[i] = *p
		*p = c44ContractDefaults[i]
	}
	return func() {
		for i, p := range ptrs {
			*p = old[i]
		}
	}
}

// sources of an explicit value
const (
	c44Unset = 0
	c44File  = 1
	c44Flag  = 2
	c44Both  = 3
)

var c44SourceNames = [4]string{"-", "file", "flag", "file+flag"}

// network selections
var c44Selections = []string{"none", "mainnet", "testnet", "developer", "noflagset", "testnet+developer"}

// c44Case is one configuration.
type c44Case struct {
	Selection string              `json:"selection"`
	Format    string              `json:"format"`
	KeyStyle  int                 `json:"key_style"`
	Source    [c44NumItems]int    `json:"source"`
	Empty     [c44NumItems]bool   `json:"empty"` // explicit but empty value
	FileVal   [c44NumItems]string `json:"file_values"`
	FlagVal   [c44NumItems]string `json:"flag_values"`
	ForceFile bool                `json:"force_file"`
}

func (c *c44Case) desc() string {
	var sb strings.Builder
	fmt.Fprintf(&sb, "select=%s format=%s keys=%d forcefile=%v", c.Selection, c.Format, c.KeyStyle, c.ForceFile)
	for i := 0; i < c44NumItems; i++ {
		if c.Source[i] == c44Unset {
			continue
		}
		fmt.Fprintf(&sb, " %s<-%s", c44ItemName(i), c44SourceNames[c.Source[i]])
		if c.Empty[i] {
			sb.WriteString("(empty)")
			continue
		}
		if c.Source[i]&c44File != 0 {
			fmt.Fprintf(&sb, "[file:%s]", c.FileVal[i])
		}
		if c.Source[i]&c44Flag != 0 {
			fmt.Fprintf(&sb, "[flag:%s]", c.FlagVal[i])
		}
	}
	return sb.String()
}

func c44ItemName(i int) string {
	switch i {
	case c44Peers:
		return "peers"
	case c44Electrum:
		return "electrum"
	}
	return c44Contracts[i-2]
}

func c44RandHex(rng *rand.Rand, n int) string {
	const digits = "0123456789abcdefABCDEF"
	b := make([]byte, n)
	for i := range b {
		b[i] = digits[rng.Intn(len(digits))]
	}
	return string(b)
}

func c44RandValue(rng *rand.Rand, item int) string {
	switch item {
	case c44Peers:
		n := 1 + rng.Intn(3)
		ps := make([]string, n)
		for i := range ps {
			ps[i] = fmt.Sprintf("/ip4/10.%d.%d.%d/tcp/%d/ipfs/16Uiu2HAm%s", rng.Intn(256), rng.Intn(256), rng.Intn(256), 3000+rng.Intn(1000), c44RandHex(rng, 12))
		}
		return strings.Join(ps, ",")
	case c44Electrum:
		return fmt.Sprintf("%s://electrum-%s.example.org:%d", []string{"tcp", "ssl", "ws", "wss"}[rng.Intn(4)], strings.ToLower(c44RandHex(rng, 6)), 50000+rng.Intn(10))
	}
	// explicitly configured contract addresses are sometimes malformed (a
	// dropped character, a non-hex digit, a missing prefix): they are still
	// explicit values and must not be replaced by a default silently
	switch rng.Intn(8) {
	case 0:
		return "0x" + c44RandHex(rng, 39)
	case 1:
		h := []byte(c44RandHex(rng, 40))
		h[rng.Intn(40)] = 'g'
		return "0x" + string(h)
	case 2:
		return c44RandHex(rng, 41)
	}
	return "0x" + c44RandHex(rng, 40)
}

// c44FileKey returns (section path, key) of an item in a configuration file.
func c44FileKey(item, style int) ([]string, string) {
	cs := func(s string) string {
		switch style {
		case 1:
			return strings.ToLower(s[:1]) + s[1:]
		case 2:
			return strings.ToLower(s)
		}
		return s
	}
	switch item {
	case c44Peers:
		return []string{cs("Network")}, cs("Peers")
	case c44Electrum:
		return []string{cs("Bitcoin"), cs("Electrum")}, cs("URL")
	}
	return []string{cs("Developer")}, cs(c44Contracts[item-2] + "Address")
}

// c44Tree builds the nested document of a configuration file.
func c44Tree(c *c44Case) map[string]interface{} {
	root := map[string]interface{}{}
	put := func(path []string, key string, v interface{}) {
		m := root
		for _, p := range path {
			next, ok := m[p].(map[string]interface{})
			if !ok {
				next = map[string]interface{}{}
				m[p] = next
			}
			m = next
		}
		m[key] = v
	}
	cs := func(s string) string {
		if c.KeyStyle == 2 {
			return strings.ToLower(s)
		}
		if c.KeyStyle == 1 {
			return strings.ToLower(s[:1]) + s[1:]
		}
		return s
	}
	put([]string{cs("Ethereum")}, cs("URL"), "ws://127.0.0.1:8546")
	put([]string{cs("Ethereum")}, cs("KeyFile"), "/nonexistent/c44-keyfile")
	put([]string{cs("Storage")}, cs("Dir"), "/nonexistent/c44-storage")
	put([]string{cs("Network")}, cs("Port"), 3919)
	// further explicitly set values next to the ten judged ones: whatever is
	// defaulted around them, they must come out as written
	put([]string{cs("Bitcoin"), cs("Electrum")}, cs("ConnectTimeout"), "13s")
	put([]string{cs("Bitcoin"), cs("Electrum")}, cs("ConnectRetryTimeout"), "1m17s")
	put([]string{cs("Bitcoin"), cs("Electrum")}, cs("RequestTimeout"), "19s")
	put([]string{cs("Bitcoin"), cs("Electrum")}, cs("RequestRetryTimeout"), "2m3s")
	put([]string{cs("Bitcoin"), cs("Electrum")}, cs("KeepAliveInterval"), "4m7s")
	for i := 0; i < c44NumItems; i++ {
		if c.Source[i]&c44File == 0 {
			continue
		}
		path, key := c44FileKey(i, c.KeyStyle)
		if i == c44Peers {
			list := []interface{}{}
			if !c.Empty[i] {
				for _, p := range strings.Split(c.FileVal[i], ",") {
					list = append(list, p)
				}
			}
			put(path, key, list)
			continue
		}
		v := c.FileVal[i]
		if c.Empty[i] {
			v = ""
		}
		put(path, key, v)
	}
	return root
}

func c44SortedKeys(m map[string]interface{}) []string {
	ks := make([]string, 0, len(m))
	for k := range m {
		ks = append(ks, k)
	}
	sort.Strings(ks)
	return ks
}

func c44Scalar(v interface{}) string {
	switch x := v.(type) {
	case string:
		b, _ := json.Marshal(x)
		return string(b)
	case []interface{}:
		parts := make([]string, len(x))
		for i, e := range x {
			parts[i] = c44Scalar(e)
		}
		return "[" + strings.Join(parts, ", ") + "]"
	}
	return fmt.Sprint(v)
}

func c44TOML(root map[string]interface{}) string {
	var sb strings.Builder
	var emit func(prefix string, m map[string]interface{})
	emit = func(prefix string, m map[string]interface{}) {
		var subs []string
		wroteHeader := false
		for _, k := range c44SortedKeys(m) {
			if _, ok := m[k].(map[string]interface{}); ok {
				subs = append(subs, k)
				continue
			}
			if !wroteHeader && prefix != "" {
				fmt.Fprintf(&sb, "[%s]\n", prefix)
				wroteHeader = true
			}
			fmt.Fprintf(&sb, "%s = %s\n", k, c44Scalar(m[k]))
		}
		for _, k := range subs {
			p := k
			if prefix != "" {
				p = prefix + "." + k
			}
			emit(p, m[k].(map[string]interface{}))
		}
	}
	emit("", root)
	return sb.String()
}

func c44YAML(root map[string]interface{}) string {
	var sb strings.Builder
	var emit func(indent string, m map[string]interface{})
	emit = func(indent string, m map[string]interface{}) {
		for _, k := range c44SortedKeys(m) {
			switch x := m[k].(type) {
			case map[string]interface{}:
				fmt.Fprintf(&sb, "%s%s:\n", indent, k)
				emit(indent+"  ", x)
			case []interface{}:
				if len(x) == 0 {
					fmt.Fprintf(&sb, "%s%s: []\n", indent, k)
					continue
				}
				fmt.Fprintf(&sb, "%s%s:\n", indent, k)
				for _, e := range x {
					fmt.Fprintf(&sb, "%s  - %s\n", indent, c44Scalar(e))
				}
			default:
				fmt.Fprintf(&sb, "%s%s: %s\n", indent, k, c44Scalar(x))
			}
		}
	}
	emit("", root)
	return sb.String()
}

func c44WriteFile(dir string, seq int, c *c44Case) (string, error) {
	tree := c44Tree(c)
	var content string
	switch c.Format {
	case "json":
		b, err := json.MarshalIndent(tree, "", "  ")
		if err != nil {
			return "", err
		}
		content = string(b)
	case "yaml":
		content = c44YAML(tree)
	default:
		content = c44TOML(tree)
	}
	path := filepath.Join(dir, fmt.Sprintf("c44-%d.%s", seq, c.Format))
	return path, os.WriteFile(path, []byte(content), 0o600)
}

// c44FlagSet builds a flag set the way cmd/flags.go does for the start
// command: the three network switches, network.peers and bitcoin.electrum.url
// bound to the Config fields, and one string flag per contract address.
func c44FlagSet(cfg *Config) *pflag.FlagSet {
	fs := pflag.NewFlagSet("c44", pflag.ContinueOnError)
	fs.Bool("mainnet", false, "")
	fs.Bool("testnet", false, "")
	fs.Bool("developer", false, "")
	fs.StringVar(&cfg.Ethereum.URL, "ethereum.url", "", "")
	fs.StringVar(&cfg.Ethereum.Account.KeyFile, "ethereum.keyFile", "", "")
	fs.StringVar(&cfg.Bitcoin.Electrum.URL, "bitcoin.electrum.url", "", "")
	fs.StringSliceVar(&cfg.LibP2P.Peers, "network.peers", []string{}, "")
	fs.IntVarP(&cfg.LibP2P.Port, "network.port", "p", 3919, "")
	fs.StringVar(&cfg.Storage.Dir, "storage.dir", "", "")
	for _, name := range c44Contracts {
		fs.String(GetDeveloperContractAddressKey(name), "", "")
	}
	return fs
}

func c44Args(c *c44Case) []string {
	var args []string
	switch c.Selection {
	case "mainnet":
		args = append(args, "--mainnet")
	case "testnet":
		args = append(args, "--testnet")
	case "developer":
		args = append(args, "--developer")
	case "testnet+developer":
		args = append(args, "--testnet", "--developer")
	}
	for i := 0; i < c44NumItems; i++ {
		if c.Source[i]&c44Flag == 0 {
			continue
		}
		v := c.FlagVal[i]
		if c.Empty[i] {
			v = ""
		}
		switch i {
		case c44Peers:
			args = append(args, "--network.peers="+v)
		case c44Electrum:
			args = append(args, "--bitcoin.electrum.url="+v)
		default:
			args = append(args, "--"+GetDeveloperContractAddressKey(c44Contracts[i-2])+"="+v)
		}
	}
	return args
}

// c44ReadList parses an embedded defaults file independently of the code
// under test: one entry per line, blank lines and # comments ignored.
func c44ReadList(kind, network string) []string {
	b, err := os.ReadFile(filepath.Join(kind, network))
	if err != nil {
		return nil
	}
	var out []string
	for _, line := range strings.Split(string(b), "\n") {
		line = strings.TrimSpace(line)
		if line == "" || line[0] == '#' {
			continue
		}
		out = append(out, line)
	}
	return out
}

func c44Contains(xs []string, x string) bool {
	for _, y := range xs {
		if x == y {
			return true
		}
	}
	return false
}

// c44Check runs one configuration through ReadConfig and decides it. It
// returns whether the case was non-trivial (>= 1 explicit and >= 1 defaulted
// value observed in the resulting Config).
func c44Check(r *verifkit.Run, dir string, seq int, c *c44Case, defaults map[string][]string, stats map[string]int64) bool {
	desc := c.desc()
	viper.Reset()
	cfg := &Config{}
	var fs *pflag.FlagSet
	if c.Selection != "noflagset" {
		fs = c44FlagSet(cfg)
		if err := fs.Parse(c44Args(c)); err != nil {
			r.Inconclusive("monitor bug: flag parsing failed: " + err.Error() + " in " + desc)
			return false
		}
	}
	needFile := c.ForceFile
	for i := 0; i < c44NumItems; i++ {
		if c.Source[i]&c44File != 0 {
			needFile = true
		}
	}
	path := ""
	if needFile {
		var err error
		path, err = c44WriteFile(dir, seq, c)
		if err != nil {
			r.Inconclusive("cannot write configuration file: " + err.Error())
			return false
		}
		defer os.Remove(path)
	}
	var err error
	if r.Guard("read:", desc, func() { err = cfg.ReadConfig(path, fs) }) {
		return false
	}
	if err != nil {
		r.Violation("read-config-error", "ReadConfig failed on a well-formed configuration: "+err.Error(), desc, nil)
		return false
	}

	// ---- networks
	type pair struct {
		eth commonEthereum.Network
		btc bitcoin.Network
	}
	pairs := map[string]pair{
		"mainnet":   {commonEthereum.Mainnet, bitcoin.Mainnet},
		"testnet":   {commonEthereum.Sepolia, bitcoin.Testnet},
		"developer": {commonEthereum.Developer, bitcoin.Regtest},
	}
	got := pair{cfg.Ethereum.Network, cfg.Bitcoin.Network}
	net := ""
	for name, p := range pairs {
		if p == got {
			net = name
		}
	}
	unresolved := false
	if net == "" && fs == nil && got == (pair{commonEthereum.Unknown, bitcoin.Unknown}) {
		// Without a flag set ReadConfig resolves default peers for mainnet
		// but leaves both networks "unknown" (and therefore resolves no
		// Electrum server). Reported under its own fingerprint; the
		// network-dependent defaults are not judged for such a case.
		r.Violation("networks:unresolved-without-flagset", "ReadConfig without a flag set uses the mainnet defaults for peers but leaves Ethereum.Network and Bitcoin.Network unknown", desc, map[string]interface{}{"ethereum": got.eth.String(), "bitcoin": got.btc.String(), "peers": cfg.LibP2P.Peers, "electrum": cfg.Bitcoin.Electrum.URL})
		unresolved = true
		net = "mainnet"
	}
	if net == "" {
		r.Violation("networks:mismatched-pair", fmt.Sprintf("Ethereum network %v and Bitcoin network %v do not belong to one client network", got.eth, got.btc), desc, nil)
		return false
	}
	want := map[string]string{"none": "mainnet", "noflagset": "mainnet", "mainnet": "mainnet", "testnet": "testnet", "developer": "developer"}[c.Selection]
	if want != "" && want != net {
		r.Violation("networks:not-selected", fmt.Sprintf("selection %q resolved to the %s networks", c.Selection, net), desc, nil)
	}
	stats["net_"+net]++

	// ---- explicitly set bystander values of the file are kept as written
	if needFile {
		by := []struct {
			name string
			got  interface{}
			want interface{}
		}{
			{"Ethereum.URL", cfg.Ethereum.URL, "ws://127.0.0.1:8546"},
			{"Storage.Dir", cfg.Storage.Dir, "/nonexistent/c44-storage"},
			{"Bitcoin.Electrum.ConnectTimeout", cfg.Bitcoin.Electrum.ConnectTimeout, 13 * time.Second},
			{"Bitcoin.Electrum.ConnectRetryTimeout", cfg.Bitcoin.Electrum.ConnectRetryTimeout, 77 * time.Second},
			{"Bitcoin.Electrum.RequestTimeout", cfg.Bitcoin.Electrum.RequestTimeout, 19 * time.Second},
			{"Bitcoin.Electrum.RequestRetryTimeout", cfg.Bitcoin.Electrum.RequestRetryTimeout, 123 * time.Second},
			{"Bitcoin.Electrum.KeepAliveInterval", cfg.Bitcoin.Electrum.KeepAliveInterval, 247 * time.Second},
		}
		for _, b := range by {
			stats["bystander_values_checked"]++
			if b.got != b.want {
				r.Violation("explicit-bystander-lost:"+b.name, fmt.Sprintf("%s was set explicitly in the file to %v and came out as %v", b.name, b.want, b.got), desc, nil)
			}
		}
	}

	// ---- the ten values
	sawExplicit, sawDefault := false, false
	for i := 0; i < c44NumItems; i++ {
		name := c44ItemName(i)
		// admissible explicit values (either source when both are given)
		var explicit []string
		if !c.Empty[i] {
			if c.Source[i]&c44File != 0 {
				explicit = append(explicit, c.FileVal[i])
			}
			if c.Source[i]&c44Flag != 0 {
				explicit = append(explicit, c.FlagVal[i])
			}
		}
		var gotVal string
		var isDefault bool
		switch i {
		case c44Peers:
			gotVal = strings.Join(cfg.LibP2P.Peers, ",")
			isDefault = reflect.DeepEqual(append([]string{}, cfg.LibP2P.Peers...), append([]string{}, defaults["_peers/"+net]...))
		case c44Electrum:
			gotVal = cfg.Bitcoin.Electrum.URL
			if net == "developer" {
				isDefault = gotVal == ""
			} else {
				isDefault = c44Contains(defaults["_electrum_urls/"+net], gotVal)
			}
		default:
			gotVal = cfg.Ethereum.ContractAddresses[strings.ToLower(c44Contracts[i-2])]
			isDefault = gotVal == c44ContractDefaults[i-2]
		}
		witness := map[string]interface{}{"item": name, "got": gotVal, "explicit": explicit, "source": c44SourceNames[c.Source[i]], "network": net}
		switch {
		case len(explicit) > 0:
			if c44Contains(explicit, gotVal) {
				sawExplicit = true
				stats["kept_explicit"]++
				if c.Source[i] == c44Both {
					if gotVal == c.FlagVal[i] {
						stats["both_flag_won"]++
					} else {
						stats["both_file_won"]++
					}
				}
				if i >= 2 {
					addr, err := cfg.Ethereum.ContractAddress(c44Contracts[i-2])
					if !common.IsHexAddress(gotVal) {
						// a malformed explicit address is kept and reported as
						// invalid; it must never resolve to some address
						stats["kept_explicit_malformed"]++
						if err == nil {
							r.Violation("contract:malformed-resolved:"+c44SourceNames[c.Source[i]], "a malformed explicit contract address resolves to an address without an error", desc, witness)
						}
					} else if err != nil || addr != common.HexToAddress(gotVal) {
						r.Violation("contract:unreadable:"+c44SourceNames[c.Source[i]], "explicit contract address is stored but ContractAddress does not return it", desc, witness)
					}
				}
				continue
			}
			kind := "contract"
			if i < 2 {
				kind = name
			}
			fp := kind + ":explicit-lost:" + c44SourceNames[c.Source[i]]
			what := fmt.Sprintf("%s was set explicitly (%s) but the resulting Config holds %q", name, c44SourceNames[c.Source[i]], gotVal)
			if isDefault {
				fp = kind + ":explicit-overridden-by-default:" + c44SourceNames[c.Source[i]]
				what = fmt.Sprintf("%s was set explicitly (%s) but the resulting Config holds the %s default %q", name, c44SourceNames[c.Source[i]], net, gotVal)
			}
			r.Violation(fp, what, desc, witness)
		case c.Source[i] != c44Unset:
			// explicit but empty: the code documents "empty" as "not
			// configured"; both the empty value and the default are accepted
			if isDefault {
				stats["explicit_empty_defaulted"]++
			} else if gotVal == "" {
				stats["explicit_empty_kept"]++
			} else {
				r.Violation("explicit-empty:other-value", fmt.Sprintf("%s was set to an empty value but the Config holds %q, which is neither empty nor the default", name, gotVal), desc, witness)
			}
		default:
			if isDefault {
				sawDefault = true
				stats["defaulted"]++
				continue
			}
			if unresolved && i < 2 {
				stats["network_default_not_judged"]++
				continue
			}
			kind := "contract"
			if i < 2 {
				kind = name
			}
			r.Violation(kind+":unset-not-default", fmt.Sprintf("%s was left unset but the Config holds %q instead of the %s default", name, gotVal, net), desc, witness)
		}
	}
	return sawExplicit && sawDefault
}

func c44Generate(rng *rand.Rand, selection string, mask int, mode int) *c44Case {
	c := &c44Case{Selection: selection}
	c.Format = []string{"toml", "yaml", "json"}[rng.Intn(3)]
	c.KeyStyle = rng.Intn(3)
	c.ForceFile = rng.Intn(2) == 0
	for i := 0; i < c44NumItems; i++ {
		if mask&(1<<uint(i)) == 0 {
			continue
		}
		src := mode
		if mode == 0 { // mixed
			src = 1 + rng.Intn(3)
		}
		if selection == "noflagset" {
			src = c44File
		}
		c.Source[i] = src
		c.FileVal[i] = c44RandValue(rng, i)
		c.FlagVal[i] = c44RandValue(rng, i)
		if src&c44File == 0 {
			c.FileVal[i] = ""
		}
		if src&c44Flag == 0 {
			c.FlagVal[i] = ""
		}
	}
	return c
}

func TestVerif_C44_Defaults(t *testing.T) {
	r := verifkit.Start(t, "C44", "defaults")
	defer r.Finish()
	r.SetRule("configurations: network selection in {no switch, --mainnet, --testnet, --developer, no flag set at all, --testnet --developer} x subset of the 10 values (peers, Electrum URL, 8 contract addresses) set explicitly x source mode {all in file, all as flags, per-value PRNG choice of file/flag/both}; file format (toml/yaml/json), key spelling and the explicit values come from the PRNG; thorough tier enumerates all subsets, quick tier samples them. Plus a PRNG batch with explicitly empty values (observation only). non-trivial = the resulting Config shows >= 1 value kept from explicit configuration and >= 1 value filled from defaults")
	r.Assume("viper and the flag set are rebuilt for every configuration (viper.Reset); the flag set mirrors cmd/flags.go (network switches, network.peers, bitcoin.electrum.url, developer.*Address); KEEP_ETHEREUM_PASSWORD is set so nothing prompts")
	r.Assume("an explicitly configured *empty* value (peers = [], url = \"\", address = \"\") counts as unset, as the code documents; for such values both the empty value and the default are accepted")
	r.Assume("default contract addresses are the variables of the gen packages, set to fixed values for the run; default peers / Electrum URLs are parsed by the monitor from config/_peers and config/_electrum_urls")

	t.Setenv(EthereumPasswordEnvVariable, "c44 password")
	restore := c44InstallDefaults()
	defer restore()
	defer viper.Reset()

	defaults := map[string][]string{}
	for _, n := range []string{"mainnet", "testnet"} {
		defaults["_peers/"+n] = c44ReadList("_peers", n)
		defaults["_electrum_urls/"+n] = c44ReadList("_electrum_urls", n)
		if len(defaults["_peers/"+n]) == 0 || len(defaults["_electrum_urls/"+n]) == 0 {
			r.Inconclusive("cannot read the embedded defaults of " + n)
			return
		}
	}
	dir := r.TmpDir("cfg")
	stats := map[string]int64{}
	rng := r.Rand("configs")
	seq := 0
	run := func(c *c44Case) {
		seq++
		nt := c44Check(r, dir, seq, c, defaults, stats)
		r.Case(c.desc(), nt)
		if nt && (seq%997 == 1 || seq == 2) {
			r.Sample(c)
		}
	}

	full := 1 << c44NumItems
	if r.Quick() {
		// every selection x mode with a fixed spread of subsets: the empty
		// and the full subset, every singleton and every co-singleton, and
		// PRNG subsets
		for _, sel := range c44Selections {
			for mode := 0; mode < 3; mode++ {
				if sel == "noflagset" && mode != c44File {
					continue
				}
				masks := []int{0, full - 1}
				for i := 0; i < c44NumItems; i++ {
					masks = append(masks, 1<<uint(i), (full-1)&^(1<<uint(i)))
				}
				for k := 0; k < 250; k++ {
					masks = append(masks, rng.Intn(full))
				}
				for _, m := range masks {
					run(c44Generate(rng, sel, m, mode))
				}
			}
		}
		r.SetExhaustive(false)
	} else {
		for _, sel := range c44Selections {
			for mode := 0; mode < 3; mode++ {
				if sel == "noflagset" && mode != c44File {
					continue
				}
				for m := 0; m < full; m++ {
					run(c44Generate(rng, sel, m, mode))
				}
			}
		}
		r.SetExhaustive(true)
	}
	// explicitly empty values (observation only, see assumptions)
	for k := 0; k < r.N(60, 600); k++ {
		sel := c44Selections[rng.Intn(len(c44Selections))]
		c := c44Generate(rng, sel, rng.Intn(full), 0)
		for i := 0; i < c44NumItems; i++ {
			if c.Source[i] != c44Unset && rng.Intn(3) == 0 {
				c.Empty[i] = true
			}
		}
		run(c)
	}
	for k, v := range stats {
		r.Count(k, v)
	}
}
