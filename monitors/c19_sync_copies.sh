#!/bin/sh
# copies the master c19_damage_test.go to all C19 package dirs with the right package line
M=/verif/monitors/pkg/beacon/gjkr/c19_damage_test.go
while read d p; do
  mkdir -p /verif/monitors/$d
  sed "s/^package gjkr$/package $p/" $M > /verif/monitors/$d/c19_damage_test.go
done <<L
pkg/beacon/dkg/result result
pkg/beacon/entry entry
pkg/beacon/registry registry
pkg/beacon/dkg dkg
pkg/tecdsa tecdsa
pkg/tecdsa/dkg dkg
pkg/tecdsa/signing signing
pkg/protocol/inactivity inactivity
pkg/protocol/announcer announcer
pkg/tbtc tbtc
pkg/net/security/handshake handshake
L
